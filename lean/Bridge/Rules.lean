import Gen.Rules
import Model.Rules
import Bridge.Basic
/-!
  Bridge for the constructor guards of `pydsdl/_serializable` (`Gen/Rules.lean`, rewritten from the working tree of /repo
  on every run): the `if …: raise` checks of `PrimitiveType`, `SignedIntegerType`, `VoidType`, `ArrayType`, `UnionType`
  and the version / fixed port-ID range checks of `CompositeType.__init__` accept exactly what the static rules of the
  model (`Model/Rules.lean`) accept.  `FloatType` (a dictionary lookup), the name checks (regular expressions) and the
  aggregation checks remain hand-modelled.
-/
set_option linter.unusedSimpArgs false
set_option linter.unnecessarySeqFocus false
open Rules

namespace Bridge

@[simp] theorem throw_eq' {α : Type} (e : Py.Err) : (throw e : Py.M α) = Except.error e := rfl
@[simp] theorem error_bind' {α β : Type} (e : Py.Err) (f : α → Py.M β) : (Except.error e >>= f) = Except.error e := rfl

/-- unsigned integers, bool-like primitives: `PrimitiveType.__init__` accepts exactly the widths 1..64 -/
theorem primitive_check_iff (w : Nat) : Gen.PrimitiveType.check w = .ok () ↔ (1 ≤ w ∧ w ≤ 64) := by
  simp only [Gen.PrimitiveType.check]
  by_cases h1 : w < 1 <;> by_cases h2 : w > 64 <;> simp [h1, h2] <;> omega

theorem void_check_iff (w : Nat) : Gen.VoidType.check w = .ok () ↔ (1 ≤ w ∧ w ≤ 64) := by
  simp only [Gen.VoidType.check]
  by_cases h1 : w < 1 <;> by_cases h2 : w > 64 <;> simp [h1, h2] <;> omega

theorem signed_check_iff (w : Nat) (sat : Bool) : Gen.SignedIntegerType.check w sat = .ok () ↔ (2 ≤ w ∧ sat = true) := by
  simp only [Gen.SignedIntegerType.check]
  by_cases h1 : w < 2 <;> cases sat <;> simp [h1] <;> omega

theorem array_check_iff (cap : Nat) : Gen.ArrayType.check cap = .ok () ↔ 1 ≤ cap := by
  simp only [Gen.ArrayType.check]
  by_cases h1 : cap < 1 <;> simp [h1] <;> omega

theorem union_check_iff (n : Nat) : Gen.UnionType.check n = .ok () ↔ 2 ≤ n := by
  simp only [Gen.UnionType.check]
  by_cases h1 : n < 2 <;> simp [h1] <;> omega

/-- The constructor guards accept a scalar exactly when the model's `Scalar.ctorOk` does (floats: the width table is a
    dictionary lookup in the source and stays hand-modelled). -/
theorem uint_ctor (w : Nat) (c : Cast) : (Scalar.uint w c).ctorOk = true ↔ Gen.PrimitiveType.check w = .ok () := by
  rw [primitive_check_iff]; simp [Scalar.ctorOk]

theorem void_ctor (w : Nat) : (Scalar.void w).ctorOk = true ↔ Gen.VoidType.check w = .ok () := by
  rw [void_check_iff]; simp [Scalar.ctorOk]

theorem int_ctor (w : Nat) (c : Cast) :
    (Scalar.int w c).ctorOk = true ↔ (Gen.PrimitiveType.check w = .ok () ∧ Gen.SignedIntegerType.check w (c == .saturated) = .ok ()) := by
  rw [primitive_check_iff, signed_check_iff]
  cases c <;> simp [Scalar.ctorOk] <;> omega

/-- version and fixed port-ID checks of `CompositeType.__init__` -/
theorem version_port_iff (major minor : Nat) (srv : Bool) (pid : Option Nat) :
    Gen.CompositeType.check_version_and_port major minor srv pid = .ok () ↔
      (versionOk major minor = true ∧ ∀ p, pid = some p → (if srv then p ≤ 511 else p ≤ 8191)) := by
  simp only [Gen.CompositeType.check_version_and_port, versionOk]
  by_cases h1 : major ≤ 255 <;> by_cases h2 : minor ≤ 255 <;> by_cases h3 : major + minor > 0 <;>
    cases pid <;> cases srv <;> simp [h1, h2, h3] <;> (try omega) <;> (try exact decide_eq_true_iff)

end Bridge
