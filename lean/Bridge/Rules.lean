import Gen.Rules
import Model.Rules
import Bridge.Basic
/-!
  Bridge for the constructor guards of `pydsdl/_serializable` (`Gen/Rules.lean`, rewritten from the working tree of /repo
  on every run): the `if …: raise` checks of `PrimitiveType`, `SignedIntegerType`, `VoidType`, `ArrayType`, `UnionType`
  and the version / fixed port-ID range checks of `CompositeType.__init__` accept exactly what the static rules of the
  model (`Model/Rules.lean`) accept.  `FloatType` (a dictionary lookup), the name checks (regular expressions) and the
  aggregation checks remain hand-modelled.
-/
set_option linter.unusedSimpArgs false
set_option linter.unnecessarySeqFocus false
open Rules

namespace Bridge
open Robust

@[simp] theorem throw_eq' {α : Type} (e : Py.Err) : (throw e : Py.M α) = Except.error e := rfl
@[simp] theorem error_bind' {α β : Type} (e : Py.Err) (f : α → Py.M β) : (Except.error e >>= f) = Except.error e := rfl

/-! Every guard is read as a boolean formula: `m = .ok () ↔ raises m = false`, and `raises` of a program built from `if`, `raise`, local
    helper functions and early returns is computed by `simp` (`raises_ite`, `raises_bind_unit`, …), whatever the nesting; the
    comparison with the rule is linear arithmetic (`omega`).  `↓`: a condition `decide p = true` becomes `p`, and `raises` is pushed
    through an `if`, before anything is rewritten inside `p` (a rewrite under `decide` would leave the `Decidable` instance behind).  The shape of the guards (one `if` or two, `not (1 <= n <= 64)`, a
    helper method) does not matter. -/
macro "guard_iff" "[" ts:Lean.Parser.Tactic.simpLemma,* "]" : tactic =>
  `(tactic| (rw [ok_iff_not_raises]; simp [↓decide_eq_true_eq, ↓raises_ite, $ts,*] <;> omega))

/-- unsigned integers, bool-like primitives: `PrimitiveType.__init__` accepts exactly the widths 1..64 -/
theorem primitive_check_iff (w : Nat) : Gen.PrimitiveType.check w = .ok () ↔ (1 ≤ w ∧ w ≤ 64) := by
  guard_iff [Gen.PrimitiveType.check]

theorem void_check_iff (w : Nat) : Gen.VoidType.check w = .ok () ↔ (1 ≤ w ∧ w ≤ 64) := by
  guard_iff [Gen.VoidType.check]

theorem signed_check_iff (w : Nat) (sat : Bool) : Gen.SignedIntegerType.check w sat = .ok () ↔ (2 ≤ w ∧ sat = true) := by
  cases sat <;> guard_iff [Gen.SignedIntegerType.check]

theorem array_check_iff (cap : Nat) : Gen.ArrayType.check cap = .ok () ↔ 1 ≤ cap := by
  guard_iff [Gen.ArrayType.check]

theorem union_check_iff (n : Nat) : Gen.UnionType.check n = .ok () ↔ 2 ≤ n := by
  guard_iff [Gen.UnionType.check]

/-- The constructor guards accept a scalar exactly when the model's `Scalar.ctorOk` does (floats: the width table is a
    dictionary lookup in the source and stays hand-modelled). -/
theorem uint_ctor (w : Nat) (c : Cast) : (Scalar.uint w c).ctorOk = true ↔ Gen.PrimitiveType.check w = .ok () := by
  rw [primitive_check_iff]; simp [Scalar.ctorOk]

theorem void_ctor (w : Nat) : (Scalar.void w).ctorOk = true ↔ Gen.VoidType.check w = .ok () := by
  rw [void_check_iff]; simp [Scalar.ctorOk]

theorem int_ctor (w : Nat) (c : Cast) :
    (Scalar.int w c).ctorOk = true ↔ (Gen.PrimitiveType.check w = .ok () ∧ Gen.SignedIntegerType.check w (c == .saturated) = .ok ()) := by
  rw [primitive_check_iff, signed_check_iff]
  cases c <;> simp [Scalar.ctorOk] <;> omega

/-- version and fixed port-ID checks of `CompositeType.__init__` -/
theorem version_port_iff (major minor : Nat) (srv : Bool) (pid : Option Nat) :
    Gen.CompositeType.check_version_and_port major minor srv pid = .ok () ↔
      (versionOk major minor = true ∧ ∀ p, pid = some p → (if srv then p ≤ 511 else p ≤ 8191)) := by
  cases pid <;> cases srv <;> guard_iff [Gen.CompositeType.check_version_and_port, versionOk]

/-- ... with the exception classes: the version rule first (`InvalidVersionError`), then the port-ID range (`InvalidFixedPortIDError`).
    Every atom of the rule is a case, `simp` evaluates the generated guards in each: no dependence on their shape. -/
theorem version_port_classes (major minor : Nat) (srv : Bool) (pid : Option Nat) :
    Gen.CompositeType.check_version_and_port major minor srv pid =
      if versionOk major minor = true then
        (if ∀ p, pid = some p → (if srv then p ≤ 511 else p ≤ 8191) then .ok () else .error (.other "InvalidFixedPortIDError"))
      else .error (.other "InvalidVersionError") := by
  unfold Gen.CompositeType.check_version_and_port
  rcases pid with _ | p
  · cases srv <;> by_cases h1 : major ≤ 255 <;> by_cases h2 : minor ≤ 255 <;> by_cases h3 : 0 < major + minor <;>
      simp (disch := omega) [versionOk, h1, h2, h3, ↓decide_eq_true_eq, throw_err, err_bind, if_pos, if_neg] <;> omega
  · cases srv <;> by_cases h1 : major ≤ 255 <;> by_cases h2 : minor ≤ 255 <;> by_cases h3 : 0 < major + minor <;>
      by_cases hp1 : p ≤ 511 <;> by_cases hp2 : p ≤ 8191 <;>
      simp (disch := omega) [versionOk, h1, h2, h3, hp1, hp2, ↓decide_eq_true_eq, throw_err, err_bind, if_pos, if_neg] <;> omega

end Bridge
