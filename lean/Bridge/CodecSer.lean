import Bridge.Codec
/-!
  Bridge for the SERIALIZING side of the codec functions of `pydsdl/_serdes.py` (`serialize`, `_serialize_primitive / _array /
  _element / _composite / _field_value`, `_default_value`), translated into `Gen/Codec.lean` on every run.

  The generated functions take a schema object (`Py.Obj`), a Python value (`Py.Value`, inspected dynamically) and the `_BitWriter`
  state (`Gen.WriterS`); the model is `Wire.coerce` (what the input denotes: cast modes, defaults for omitted fields, container checks)
  followed by `WireIO.encW` (the canonical value written through the two-path writer model).

  * `inpOf`    : the model's input (`Wire.Inp`: dict keys are field positions) a Python value given for a schema object denotes;
  * `plain`    : the values of the theorems: no float object (the float conversions are uninterpreted), no sentinel, `str` carrying
                 valid UTF-8, bytes below 256;
  * `serOk`    : the schema objects of the theorems: no float type (the conversion region of `_serialize_primitive` is an
                 uninterpreted function of the source text), field names of every composite pairwise distinct;
  * `WAgree`   : the generated outcome is the model's: a writer state whose bit view is the model's writer and that satisfies the
                 generated code's invariant again, or the exception of the model's error class;
  * `defaultOf`: what `_default_value` returns; `gen_default_value` (generated code = `defaultOf`), `defCo` (in the model it coerces
                 to `Wire.dflt`).

  Main theorems: `gen_serialize_primitive` (input check, saturation / truncation as `Int` arithmetic incl. `&` on negative ints),
  `gen_ser_fixedArray` / `gen_ser_varArray` (str / bytes / list inputs by element type, length checks, length prefix),
  `gen_ser_structure` (unknown keys, lookup by name = lookup by position, defaults for omitted fields, padding),
  `gen_ser_union` (exactly one entry, search loop with `break`, UnionFieldError), `gen_ser_delimited` (temporary writer, header
  after the payload length is known, payload byte by byte), `sgood` (all of them by recursion over the object graph),
  `gen_serialize` (entry point, with / without delimiter header; `relaxed=False`).
  (This file imports `Bridge.Codec`: same source file, shared definitions `tyOf`, `okT`, `depth`.)
-/
set_option linter.unusedSimpArgs false
set_option linter.unusedVariables false
open BitIO Py Bridge
open Wire (Ty Val Mode Cast Inp)
open WireIO
namespace Bridge

/-! ### Python ints -/

theorem testBit_bitwise_notand (a m i : Nat) : (Nat.bitwise (fun x y => !x && y) a m).testBit i = (!a.testBit i && m.testBit i) := by
  rw [Nat.testBit_bitwise (by rfl)]

theorem negSucc_emod_two_pow (a n : Nat) :
    (Int.negSucc a) % (2 : Int) ^ n = (2 : Int) ^ n - 1 - (a : Int) % (2 : Int) ^ n := by
  have hpos : (0 : Int) < (2 : Int) ^ n := by positivity
  have hr0 : (0 : Int) ≤ (a : Int) % (2 : Int) ^ n := Int.emod_nonneg _ (ne_of_gt hpos)
  have hr1 : (a : Int) % (2 : Int) ^ n < (2 : Int) ^ n := Int.emod_lt_of_pos _ hpos
  have hdecomp : Int.negSucc a =
      ((2 : Int) ^ n - 1 - (a : Int) % (2 : Int) ^ n) + (-((a : Int) / (2 : Int) ^ n) - 1) * (2 : Int) ^ n := by
    have := Int.emod_add_mul_ediv (a : Int) ((2 : Int) ^ n)
    rw [Int.negSucc_eq]
    linarith [this]
  generalize hx : (2 : Int) ^ n - 1 - (a : Int) % (2 : Int) ^ n = x at hdecomp
  have hx0 : 0 ≤ x := by omega
  have hx1 : x < (2 : Int) ^ n := by omega
  rw [hdecomp, Int.add_mul_emod_self_right, Int.emod_eq_of_lt hx0 hx1]

/-- `i & (2^n - 1)` on a Python int is `i mod 2^n` -/
theorem iand_mask (i : Int) (n : Nat) : Py.iand i (Int.ofNat (1 <<< n) - Int.ofNat 1) = i % (2 : Int) ^ n := by
  have hm : Int.ofNat (1 <<< n) - Int.ofNat 1 = Int.ofNat (2 ^ n - 1) := by
    rw [Nat.one_shiftLeft]
    simp only [Int.ofNat_eq_natCast]
    have : 1 ≤ 2 ^ n := Nat.one_le_two_pow
    omega
  rw [hm]
  cases i with
  | ofNat a =>
    simp only [Py.iand, Nat.and_two_pow_sub_one_eq_mod, Int.ofNat_eq_natCast]
    norm_cast
  | negSucc a =>
    have hbit : Nat.bitwise (fun x y => !x && y) a (2 ^ n - 1) = 2 ^ n - 1 - a % 2 ^ n := by
      apply Nat.eq_of_testBit_eq
      intro j
      rw [testBit_bitwise_notand, Nat.testBit_two_pow_sub_one]
      have hlt : a % 2 ^ n < 2 ^ n := Nat.mod_lt _ (Nat.two_pow_pos n)
      have : 2 ^ n - 1 - a % 2 ^ n = 2 ^ n - (a % 2 ^ n + 1) := by omega
      rw [this, Nat.testBit_two_pow_sub_succ hlt, Nat.testBit_mod_two_pow]
      by_cases hj : j < n <;> simp [hj]
    rw [negSucc_emod_two_pow]
    simp only [Py.iand, hbit, Int.ofNat_eq_natCast]
    have hlt : a % 2 ^ n < 2 ^ n := Nat.mod_lt _ (Nat.two_pow_pos n)
    have h1 : 1 ≤ 2 ^ n := Nat.one_le_two_pow
    have h2 : a % 2 ^ n ≤ 2 ^ n - 1 := by omega
    push_cast [Nat.cast_sub h2, Nat.cast_sub h1]
    ring

theorem toNat_nonneg {i : Int} (h : 0 ≤ i) : Py.toNat i = .ok i.toNat := by
  unfold Py.toNat; rw [if_pos h]; rfl

theorem emod_two_pow_nonneg (i : Int) (n : Nat) : 0 ≤ i % (2 : Int) ^ n :=
  Int.emod_nonneg _ (ne_of_gt (by positivity))

/-- the generated writer writes what the model writes, from a state that satisfies the generated code's invariant -/
def WAgree (w : Gen.WriterS) (x : Py.M Gen.WriterS) (y : Except Wire.Err W) : Prop :=
  match y with
  | .ok w' => ∃ g', x = .ok g' ∧ toW g' = w' ∧ WInv g'
  | .error e => x = .error (errOf e)

theorem wr_step (w : Gen.WriterS) (v n : Nat) (hw : WInv w) :
    ∃ g', Gen.BitWriter.write_bits w v n = .ok g' ∧ toW g' = writeBits (toW w) v n ∧ WInv g' := gen_write_bits w v n hw

/-! ### `_serialize_primitive` on bool / int / void -/

/-- what `coerce` makes of a Python number given to an unsigned field, as the value `write_bits` receives -/
theorem toTwos_castU (n : Nat) (c : Cast) (i : Int) : Wire.toTwos n (Wire.castU n c i) = (Wire.castU n c i).toNat := by
  have hpos : (0 : Int) < (2 : Int) ^ n := by positivity
  unfold Wire.toTwos
  congr 1
  apply Int.emod_eq_of_lt
  · cases c
    · simp only [Wire.castU, Wire.clamp]; omega
    · simp only [Wire.castU]; exact emod_two_pow_nonneg i n
  · cases c
    · simp only [Wire.castU, Wire.clamp]; omega
    · simp only [Wire.castU]; exact Int.emod_lt_of_pos _ hpos

theorem castU_nonneg (n : Nat) (c : Cast) (i : Int) : 0 ≤ Wire.castU n c i := by
  have hpos : (0 : Int) < (2 : Int) ^ n := by positivity
  cases c
  · simp only [Wire.castU, Wire.clamp]; omega
  · simp only [Wire.castU]; exact emod_two_pow_nonneg i n

/-! ### Python input values and the model's input values -/

mutual
/-- a value in the domain of the serializer theorems: no float token (the float conversions are uninterpreted), no sentinel; a
    `str` is represented by a valid UTF-8 encoding, bytes are bytes -/
def plain : Value → Bool
  | .none | .bool _ | .int _ => true
  | .float _ | .sentinel => false
  | .str bs => bs.all (fun b => decide (b < 256)) && Wire.validUtf8 bs
  | .bytes bs => bs.all (fun b => decide (b < 256))
  | .list xs => plainList xs
  | .dict kvs => plainDict kvs
def plainList : List Value → Bool
  | [] => true
  | x :: xs => plain x && plainList xs
def plainDict : List (String × Value) → Bool
  | [] => true
  | (_, x) :: kvs => plain x && plainDict kvs
end

/-- a delimited type without its wrapper -/
def strip : Obj → Obj
  | .delimited i _ _ _ => i
  | o => o

def elemOf : Obj → Obj
  | .fixedArray e _ | .varArray e _ _ => e
  | _ => .void 0

def fieldsOf : Obj → List Obj
  | .structure fs _ _ | .union fs _ _ _ => fs
  | _ => []

/-- position of the first (non-padding) field named `k`, counted from `i`; the position behind the list when there is none -/
def fieldIdx (k : String) : List Obj → Nat → Nat
  | [], i => i
  | .field _ n :: fs, i => if n == k then i else fieldIdx k fs (i + 1)
  | _ :: fs, i => fieldIdx k fs (i + 1)

/-- the type of that field -/
def fieldType (k : String) : List Obj → Obj
  | [] => .void 0
  | .field d n :: fs => if n == k then d else fieldType k fs
  | _ :: fs => fieldType k fs

mutual
/-- the model's input value (`Wire.Inp`: dict keys are field positions) that a Python value given for a schema object denotes -/
def inpOf : Value → Obj → Inp
  | .none, _ | .float _, _ | .sentinel, _ => .none
  | .bool b, _ => .bool b
  | .int i, _ => .int i
  | .str bs, _ => .bytes bs
  | .bytes bs, _ => .bytes bs
  | .list xs, s => .list (inpList xs (elemOf (strip s)))
  | .dict kvs, s => .dict (inpDict kvs (fieldsOf (strip s)))
def inpList : List Value → Obj → List Inp
  | [], _ => []
  | x :: xs, e => inpOf x e :: inpList xs e
def inpDict : List (String × Value) → List Obj → List (Nat × Inp)
  | [], _ => []
  | (k, x) :: kvs, fs => (fieldIdx k fs 0, inpOf x (fieldType k fs)) :: inpDict kvs fs
end

/-- the model's serializer on an input value: coerce, then write -/
def modelSer (t : Ty) (x : Inp) (w : W) : Except Wire.Err W :=
  match Wire.coerce t x with
  | .ok v => .ok (encW t v w)
  | .error e => .error e

theorem numQ_inpOf (pv : Value) (s : Obj) (hp : plain pv = true) :
    (inpOf pv s).num? = (match pv with | .bool b => some (if b then 1 else 0) | .int i => some i | _ => none) := by
  cases pv <;> simp [inpOf, Wire.Inp.num?, plain] at hp ⊢

/-- `(if c then ok a else ok b)` is `ok (if c then a else b)`: early returns of values inside helpers -/
theorem ite_ok {ε α : Type} (c : Prop) [Decidable c] (a b : α) :
    (if c then (Except.ok a : Except ε α) else Except.ok b) = Except.ok (if c then a else b) := by
  split <;> rfl

/-- the one step all integer / bool / void encoders end in: `write_bits(<non-negative int expression>, n)` -/
theorem ser_write_int (w : Gen.WriterS) (hw : WInv w) (n : Nat) (X : Int) (W' : W) (hX : 0 ≤ X)
    (hW : W' = writeBits (toW w) X.toNat n) :
    WAgree w (Py.toNat X >>= fun t => Gen.BitWriter.write_bits w t n) (.ok W') := by
  obtain ⟨g', e1, e2, e3⟩ := wr_step w X.toNat n hw
  rw [toNat_nonneg hX]
  simp only [ok_bind, e1]
  exact ⟨g', rfl, by rw [e2, hW], e3⟩

theorem ser_write_nat (w : Gen.WriterS) (hw : WInv w) (n v : Nat) (W' : W) (hW : W' = writeBits (toW w) v n) :
    WAgree w (Gen.BitWriter.write_bits w v n) (.ok W') := by
  obtain ⟨g', e1, e2, e3⟩ := wr_step w v n hw
  exact ⟨g', e1, by rw [e2, hW], e3⟩

theorem iand_mask' (i : Int) (n : Nat) : Py.iand i (((1 <<< n : Nat) : Int) - 1) = i % (2 : Int) ^ n := by
  have := iand_mask i n
  simpa only [Int.ofNat_eq_natCast, Nat.cast_one] using this

theorem int_emod_self (a b : Int) : a % b % b = a % b := Int.emod_emod_of_dvd a (dvd_refl b)

/-- Arithmetic side conditions of the integer encoders, for whatever way the source spells saturation / truncation (`max` / `min`,
    comparison chains, `&` with the mask once or twice): after normalising (`&` with `2^n - 1` is `% 2^n`, `% 2^n % 2^n` is `% 2^n`,
    model casts unfolded) the goal is a linear fact about ints in which the powers of two are atoms, or needs one
    `Int.emod_eq_of_lt`.  `hP : 0 < 2^n` and `hQ : 0 < 2^(n-1)` must be in the context. -/
macro "int_side" : tactic =>
  `(tactic| (
      try simp only [WireIO.encW, Wire.toTwos, Wire.castU, Wire.castS, Wire.clamp, castOf, iand_mask, iand_mask', int_emod_self,
        decide_eq_true_eq, Int.ofNat_eq_natCast, Nat.cast_ofNat, Nat.cast_one, Nat.cast_zero, gt_iff_lt, ge_iff_le]
      first
        | done
        | rfl
        | omega
        | exact Int.emod_nonneg _ (by positivity)
        | (congr 2; first
            | rfl
            | omega
            | (congr 1; omega)
            | (rw [Int.emod_eq_of_lt (by omega) (by omega)]; try (first | rfl | omega); done)
            | (symm; rw [Int.emod_eq_of_lt (by omega) (by omega)]; try (first | rfl | omega); done))))

/-- closes an integer / bool case of `_serialize_primitive` once the generated code is unfolded and normalised -/
macro "ser_int_close" w:term "," hw:term "," n:term : tactic =>
  `(tactic| first
      | exact rfl
      | (apply ser_write_int $w $hw $n <;> int_side)
      | (apply ser_write_nat $w $hw $n <;> int_side))

theorem ser_unsigned (w : Gen.WriterS) (hw : WInv w) (n : Nat) (c : CastMode) (pv : Value) (hp : plain pv = true) :
    WAgree w (Gen.Codec.serialize_primitive w (.unsigned n c) pv)
      (modelSer (.uint n (castOf c)) (inpOf pv (.unsigned n c)) (toW w)) := by
  have hP : (0 : Int) < (2 : Int) ^ n := by positivity
  cases pv <;> simp only [plain, Bool.false_eq_true] at hp <;> cases c <;>
    codec_simp [Gen.Codec.serialize_primitive, Obj.bit_length, Obj.cast_mode, Obj.inclusive_value_range, Value.isinstance,
      Value.toInt, modelSer, inpOf, Wire.coerce, Wire.Inp.num?, ite_ok, castOf] <;> ser_int_close w, hw, n

theorem ser_byte (w : Gen.WriterS) (hw : WInv w) (pv : Value) (hp : plain pv = true) :
    WAgree w (Gen.Codec.serialize_primitive w .byte pv) (modelSer .byte (inpOf pv .byte) (toW w)) := by
  have hP : (0 : Int) < (2 : Int) ^ 8 := by positivity
  cases pv <;> simp only [plain, Bool.false_eq_true] at hp <;>
    codec_simp [Gen.Codec.serialize_primitive, Obj.bit_length, Obj.cast_mode, Obj.inclusive_value_range, Value.isinstance,
      Value.toInt, modelSer, inpOf, Wire.coerce, Wire.Inp.num?, ite_ok] <;> ser_int_close w, hw, 8

theorem ser_utf8 (w : Gen.WriterS) (hw : WInv w) (pv : Value) (hp : plain pv = true) :
    WAgree w (Gen.Codec.serialize_primitive w .utf8 pv) (modelSer .utf8 (inpOf pv .utf8) (toW w)) := by
  have hP : (0 : Int) < (2 : Int) ^ 8 := by positivity
  cases pv <;> simp only [plain, Bool.false_eq_true] at hp <;>
    codec_simp [Gen.Codec.serialize_primitive, Obj.bit_length, Obj.cast_mode, Obj.inclusive_value_range, Value.isinstance,
      Value.toInt, modelSer, inpOf, Wire.coerce, Wire.Inp.num?, ite_ok] <;> ser_int_close w, hw, 8

theorem ser_signed (w : Gen.WriterS) (hw : WInv w) (n : Nat) (pv : Value) (hp : plain pv = true) :
    WAgree w (Gen.Codec.serialize_primitive w (.signed n .saturated) pv)
      (modelSer (.sint n .sat) (inpOf pv (.signed n .saturated)) (toW w)) := by
  have hP : (0 : Int) < (2 : Int) ^ n := by positivity
  have hQ : (0 : Int) < (2 : Int) ^ (n - 1) := by positivity
  cases pv <;> simp only [plain, Bool.false_eq_true] at hp <;>
    codec_simp [Gen.Codec.serialize_primitive, Obj.bit_length, Obj.cast_mode, Obj.inclusive_value_range, Value.isinstance,
      Value.toInt, modelSer, inpOf, Wire.coerce, Wire.Inp.num?, ite_ok] <;> ser_int_close w, hw, n

theorem ser_boolean (w : Gen.WriterS) (hw : WInv w) (pv : Value) (hp : plain pv = true) :
    WAgree w (Gen.Codec.serialize_primitive w .boolean pv) (modelSer .bool (inpOf pv .boolean) (toW w)) := by
  cases pv <;> simp only [plain, Bool.false_eq_true] at hp <;>
    codec_simp [Gen.Codec.serialize_primitive, Value.isinstance, Value.truthy, modelSer, inpOf, Wire.coerce] <;>
    ser_int_close w, hw, 1

/-- `_serialize_primitive` on a void type ignores the value and writes zeros -/
theorem ser_void (w : Gen.WriterS) (hw : WInv w) (n : Nat) (pv : Value) :
    WAgree w (Gen.Codec.serialize_primitive w (.void n) pv) (modelSer (.void n) (inpOf pv (.void n)) (toW w)) := by
  codec_simp [Gen.Codec.serialize_primitive, Obj.bit_length, modelSer, Wire.coerce]
  ser_int_close w, hw, n

/-- the primitive types of the serializer theorems: no float (its conversion is an uninterpreted region) -/
def isIntLike : Obj → Bool
  | .boolean | .signed _ _ | .unsigned _ _ | .byte | .utf8 | .void _ => true
  | _ => false

/-- **`_serialize_primitive`** on bool / integer / void types: input check, saturation / truncation, `write_bits` -/
theorem gen_serialize_primitive (s : Obj) (hs : isIntLike s = true) (hwf : (tyOf s).wf = true) (w : Gen.WriterS) (hw : WInv w)
    (pv : Value) (hp : plain pv = true) :
    WAgree w (Gen.Codec.serialize_primitive w s pv) (modelSer (tyOf s) (inpOf pv s) (toW w)) := by
  cases s with
  | boolean => exact ser_boolean w hw pv hp
  | signed n c =>
    simp only [tyOf, Ty.wf, Bool.and_eq_true, beq_iff_eq] at hwf
    have hc : c = .saturated := by
      cases c
      · rfl
      · simp [castOf] at hwf
    subst hc
    exact ser_signed w hw n pv hp
  | unsigned n c => exact ser_unsigned w hw n c pv hp
  | byte => exact ser_byte w hw pv hp
  | utf8 => exact ser_utf8 w hw pv hp
  | void n => exact ser_void w hw n pv
  | _ => simp [isIntLike] at hs
/-! ### `_default_value` -/

mutual
/-- what `_default_value` returns -/
def defaultOf : Obj → Value
  | .boolean => .bool false
  | .signed _ _ | .unsigned _ _ | .byte | .utf8 => .int 0
  | .float _ _ => .float 0
  | .void _ => .none
  | .fixedArray e cap => .list (List.replicate cap (defaultOf e))
  | .varArray e _ _ =>
      match e with
      | .utf8 => .str []
      | .byte => .bytes []
      | _ => .list []
  | .structure fs _ _ => .dict (defaultDict fs [])
  | .union fs _ _ _ => defaultFirst fs
  | .delimited i _ _ _ => defaultOf i
  | _ => .none
def defaultDict : List Obj → List (String × Value) → List (String × Value)
  | [], acc => acc
  | .field d n :: fs, acc => defaultDict fs (Py.dictSet acc n (defaultOf d))
  | _ :: fs, acc => defaultDict fs acc
def defaultFirst : List Obj → Value
  | .field d n :: _ => .dict [(n, defaultOf d)]
  | _ => .none
end

/-- the generated `_default_value` returns `defaultOf` -/
def DefGood (s : Obj) : Prop := ∀ fuel, depth s + 1 ≤ fuel → Gen.Codec.default_value_rec fuel s = .ok (defaultOf s)

theorem default_loop (m : Nat) : ∀ (fs : List Obj), okFs fs = true → (∀ d n, Obj.field d n ∈ fs → DefGood d) → depthFs fs + 1 ≤ m →
    ∀ (acc : List (String × Value)) (body : List (String × Value) → Obj → Py.M (List (String × Value))),
      (∀ r f, body r f = (do
        let t8 ← f.name
        let t9 ← f.data_type
        let t10 ← Gen.Codec.default_value_rec m t9
        Except.ok (dictSet r t8 t10))) →
      Py.forEach (List.filter (fun f => !isinstance f Cls.PaddingField) fs) acc body = .ok (defaultDict fs acc) := by
  intro fs
  induction fs with
  | nil => intro _ _ _ acc body _; rfl
  | cons f fs ih =>
    intro hok hG hm acc body hb
    simp only [depthFs] at hm
    cases f with
    | field d n =>
      simp only [okFs, Bool.and_eq_true] at hok
      have hd := hG d n (by simp) m (by simp only [depth] at hm; omega)
      rw [List.filter_cons_of_pos (by codec_simp []), forEach_cons, hb]
      codec_simp [Obj.name, Obj.data_type, hd, defaultDict]
      exact ih hok.2 (fun d' n' h' => hG d' n' (by simp [h'])) (by omega) _ body hb
    | paddingField d =>
      simp only [okFs, Bool.and_eq_true] at hok
      rw [List.filter_cons_of_neg (by codec_simp [])]
      simp only [defaultDict]
      exact ih hok.2 (fun d' n' h' => hG d' n' (by simp [h'])) (by omega) _ body hb
    | _ => simp [okFs] at hok

theorem ofString_empty : Value.ofString "" = .str [] := by
  have : ("".toUTF8.toList.map UInt8.toNat) = [] := by decide +kernel
  unfold Value.ofString; rw [this]

theorem mapM_const_ok {α : Type} (l : List Nat) (x : Py.M α) (a : α) (h : x = .ok a) :
    List.mapM (fun _ => x) l = .ok (List.replicate l.length a) := by
  subst h
  induction l with
  | nil => rfl
  | cons b l ih => rw [List.mapM_cons, ih]; rfl

mutual
theorem defGood : ∀ (s : Obj), okT s = true → (tyOf s).wf = true → DefGood s
  | .boolean, _, _ | .signed _ _, _, _ | .unsigned _ _, _, _ | .byte, _, _ | .utf8, _, _ | .float _ _, _, _ | .void _, _, _ => by
      intro fuel hf
      obtain ⟨m, rfl⟩ : ∃ m, fuel = m + 1 := ⟨fuel - 1, by omega⟩
      codec_simp [Gen.Codec.default_value_rec, defaultOf]
      try rfl
  | .fixedArray e cap, hs, hw => by
      intro fuel hf
      obtain ⟨m, rfl⟩ : ∃ m, fuel = m + 1 := ⟨fuel - 1, by omega⟩
      have he : okT e = true := by simpa only [okT] using hs
      have hwe : (tyOf e).wf = true := by
        simp only [tyOf, Ty.wf, Bool.and_eq_true] at hw; exact hw.1.1.1
      simp only [depth] at hf
      have := defGood e he hwe m (by omega)
      codec_simp [Gen.Codec.default_value_rec, Obj.capacity, Obj.element_type, defaultOf, Py.range]
      rw [mapM_const_ok (List.range cap) _ _ this, List.length_range]
      rfl
  | .varArray e cap l, hs, _ => by
      intro fuel hf
      obtain ⟨m, rfl⟩ : ∃ m, fuel = m + 1 := ⟨fuel - 1, by omega⟩
      cases e <;> codec_simp [Gen.Codec.default_value_rec, Obj.element_type, defaultOf, ofString_empty]
  | .structure fs a n, hs, hw => by
      intro fuel hf
      obtain ⟨m, rfl⟩ : ∃ m, fuel = m + 1 := ⟨fuel - 1, by omega⟩
      have hfs : okFs fs = true := by simp only [okT, Bool.and_eq_true] at hs; exact hs.1
      have hwf : Wire.wfFields (tysOf fs) = true := by
        simp only [tyOf, Ty.wf, Bool.and_eq_true] at hw; exact hw.1
      simp only [depth] at hf
      codec_simp [Gen.Codec.default_value_rec, Obj.fields_except_padding, Obj.fields, defaultOf]
      rw [default_loop m fs hfs (defGood_all fs hfs hwf) (by omega) [] _ (fun r f => rfl)]
      rfl
  | .union fs t a n, hs, hw => by
      intro fuel hf
      obtain ⟨m, rfl⟩ : ∃ m, fuel = m + 1 := ⟨fuel - 1, by omega⟩
      have hfs : okFs fs = true := by simp only [okT, Bool.and_eq_true] at hs; exact hs.1.1
      simp only [tyOf, Ty.wf, Bool.and_eq_true, decide_eq_true_eq, tysOf_length] at hw
      simp only [depth] at hf
      obtain ⟨d, nm, h1, h2, h3, _, _⟩ := variant_lookup fs 0 hfs hw.1.1.1.2 (by omega)
      have hGd := defGood_all fs hfs hw.1.1.1.1 d nm h2
      have hd : depth d ≤ depthFs fs := by
        have := depth_le_depthFs h2; simpa only [depth] using this
      have := hGd m (by omega)
      have hfirst : defaultFirst fs = .dict [(nm, defaultOf d)] := by
        cases fs with
        | nil => simp [Py.index] at h1
        | cons f fs => rw [index_cons_zero] at h1; cases h1; simp only [defaultFirst]
      codec_simp [Gen.Codec.default_value_rec, Obj.fields, h1, Obj.name, Obj.data_type, this, defaultOf, hfirst]
  | .delimited i h x a, hs, hw => by
      intro fuel hf
      obtain ⟨m, rfl⟩ : ∃ m, fuel = m + 1 := ⟨fuel - 1, by omega⟩
      have hi : okT i = true := (tyOf_delimited i h x a hs).1
      simp only [depth] at hf
      have := defGood i hi (wf_inner_of_delimited i h x a hs hw) m (by omega)
      codec_simp [Gen.Codec.default_value_rec, Obj.inner_type, defaultOf, this]
  | .service _ _ _, hs, _ | .field _ _, hs, _ | .paddingField _, hs, _ => by simp [okT] at hs
theorem defGood_all : ∀ (fs : List Obj), okFs fs = true → Wire.wfFields (tysOf fs) = true → ∀ d n, Obj.field d n ∈ fs → DefGood d
  | [], _, _, _, _, h => by cases h
  | .field d' n' :: fs, hok, hwf, d, n, h => by
      simp only [okFs, Bool.and_eq_true] at hok
      simp only [tysOf, tyOf, Wire.wfFields, Bool.and_eq_true] at hwf
      rcases List.mem_cons.mp h with h | h
      · cases h; exact defGood d' hok.1.1 hwf.1.1
      · exact defGood_all fs hok.2 hwf.2 d n h
  | .paddingField d' :: fs, hok, hwf, d, n, h => by
      simp only [okFs, Bool.and_eq_true] at hok
      simp only [tysOf, Wire.wfFields, Bool.and_eq_true] at hwf
      rcases List.mem_cons.mp h with h | h
      · cases h
      · exact defGood_all fs hok.2 hwf.2 d n h
  | .boolean :: _, hok, _, _, _, _ | .signed _ _ :: _, hok, _, _, _, _ | .unsigned _ _ :: _, hok, _, _, _, _
  | .byte :: _, hok, _, _, _, _ | .utf8 :: _, hok, _, _, _, _ | .float _ _ :: _, hok, _, _, _, _ | .void _ :: _, hok, _, _, _, _
  | .fixedArray _ _ :: _, hok, _, _, _, _ | .varArray _ _ _ :: _, hok, _, _, _, _ | .structure _ _ _ :: _, hok, _, _, _, _
  | .union _ _ _ _ :: _, hok, _, _, _, _ | .delimited _ _ _ _ :: _, hok, _, _, _, _ | .service _ _ _ :: _, hok, _, _, _, _ => by
      simp [okFs] at hok
end

/-- **`_default_value`** (generated, started with CPython's recursion limit) returns `defaultOf` -/
theorem gen_default_value (s : Obj) (hs : okT s = true) (hw : (tyOf s).wf = true) (hd : depth s + 1 ≤ Py.recursionLimit) :
    Gen.Codec.default_value s = .ok (defaultOf s) := defGood s hs hw _ hd
/-! ### Arrays -/

/-- what the recursion promises about a schema object on the serializing side -/
def SGood (s : Obj) : Prop := ∀ (w : Gen.WriterS), WInv w → ∀ (pv : Value), plain pv = true →
  (isIntLike s = true → WAgree w (Gen.Codec.serialize_primitive w s pv) (modelSer (tyOf s) (inpOf pv s) (toW w))) ∧
  (isArrObj s = true → ∀ fuel, depth s ≤ fuel →
    WAgree w (Gen.Codec.serialize_array_rec fuel w s pv) (modelSer (tyOf s) (inpOf pv s) (toW w))) ∧
  (isCompObj s = true → ∀ fuel, depth s ≤ fuel →
    WAgree w (Gen.Codec.serialize_composite_rec fuel w s pv) (modelSer (tyOf s) (inpOf pv s) (toW w)))

theorem WAgree.elim {w : Gen.WriterS} {x : Py.M Gen.WriterS} {y : Except Wire.Err W} (h : WAgree w x y) :
    (∃ e, y = .error e ∧ x = .error (errOf e)) ∨ (∃ g', y = .ok (toW g') ∧ x = .ok g' ∧ WInv g') := by
  cases y with
  | error e => exact Or.inl ⟨e, rfl, h⟩
  | ok w' => obtain ⟨g', hx, hr, hi⟩ := h; exact Or.inr ⟨g', by rw [hr], hx, hi⟩

theorem wagree_bind_id {w : Gen.WriterS} {x : Py.M Gen.WriterS} {y : Except Wire.Err W} (h : WAgree w x y) :
    WAgree w (x >>= fun t => Except.ok t) y := by
  rcases h.elim with ⟨e, hy, hx⟩ | ⟨g', hy, hx, hi⟩
  · rw [hy, hx]; rfl
  · rw [hy, hx]; exact ⟨g', rfl, rfl, hi⟩

/-- a data type object of the serializer theorems: not a float, not a service / field object -/
def isSerData (s : Obj) : Bool := isIntLike s || isArrObj s || isCompObj s

/-- **`_serialize_field_value`** dispatches to the encoder that is responsible -/
theorem gen_ser_field_value (s : Obj) (hd : isSerData s = true) (hG : SGood s) (w : Gen.WriterS) (hw : WInv w) (pv : Value)
    (hp : plain pv = true) (fuel : Nat) (hf : depth s + 1 ≤ fuel) :
    WAgree w (Gen.Codec.serialize_field_value_rec fuel w s pv) (modelSer (tyOf s) (inpOf pv s) (toW w)) := by
  obtain ⟨m, rfl⟩ : ∃ m, fuel = m + 1 := ⟨fuel - 1, by omega⟩
  obtain ⟨h1, h2, h3⟩ := hG w hw pv hp
  cases s <;> first
    | (simp [isSerData, isIntLike, isArrObj, isCompObj] at hd; done)
    | (codec_simp [Gen.Codec.serialize_field_value_rec]
       first | exact (h1 rfl) | exact wagree_bind_id (h1 rfl))
    | (codec_simp [Gen.Codec.serialize_field_value_rec]
       first | exact (h2 rfl m (by omega)) | exact wagree_bind_id (h2 rfl m (by omega)))
    | (codec_simp [Gen.Codec.serialize_field_value_rec]
       first | exact (h3 rfl m (by omega)) | exact wagree_bind_id (h3 rfl m (by omega)))

/-- **`_serialize_element`** likewise -/
theorem gen_ser_element (s : Obj) (hd : isSerData s = true) (hG : SGood s) (w : Gen.WriterS) (hw : WInv w) (pv : Value)
    (hp : plain pv = true) (fuel : Nat) (hf : depth s + 1 ≤ fuel) :
    WAgree w (Gen.Codec.serialize_element_rec fuel w s pv) (modelSer (tyOf s) (inpOf pv s) (toW w)) := by
  obtain ⟨m, rfl⟩ : ∃ m, fuel = m + 1 := ⟨fuel - 1, by omega⟩
  obtain ⟨h1, h2, h3⟩ := hG w hw pv hp
  cases s <;> first
    | (simp [isSerData, isIntLike, isArrObj, isCompObj] at hd; done)
    | (codec_simp [Gen.Codec.serialize_element_rec]
       first | exact (h1 rfl) | exact wagree_bind_id (h1 rfl))
    | (codec_simp [Gen.Codec.serialize_element_rec]
       first | exact (h2 rfl m (by omega)) | exact wagree_bind_id (h2 rfl m (by omega)))
    | (codec_simp [Gen.Codec.serialize_element_rec]
       first | exact (h3 rfl m (by omega)) | exact wagree_bind_id (h3 rfl m (by omega)))

/-- the model on a list of element inputs: coerce all, then write all -/
def modelElems (t : Ty) (xs : List Inp) (w : W) : Except Wire.Err W :=
  match Wire.coerceList (fun y => Wire.coerce t y) xs with
  | .ok vs => .ok (encRepW (fun v w => encW t v w) vs w)
  | .error e => .error e

/-- `for element in value: _serialize_element(writer, schema.element_type, element)` -/
theorem ser_elems_loop (e : Obj) (hd : isSerData e = true) (hG : SGood e) (m : Nat) (hm : depth e + 1 ≤ m) :
    ∀ (xs : List Value), plainList xs = true → ∀ (w : Gen.WriterS), WInv w →
      ∀ (body : Gen.WriterS → Value → Py.M Gen.WriterS),
      (∀ wr x, body wr x = Gen.Codec.serialize_element_rec m wr e x) →
      WAgree w (Py.forEach xs w body) (modelElems (tyOf e) (inpList xs e) (toW w)) := by
  intro xs
  induction xs with
  | nil =>
    intro _ w hw body _
    exact ⟨w, rfl, by simp only [inpList, modelElems, Wire.coerceList, encRepW], hw⟩
  | cons x xs ih =>
    intro hp w hw body hb
    simp only [plainList, Bool.and_eq_true] at hp
    rw [forEach_cons, hb]
    have h1 := gen_ser_element e hd hG w hw x hp.1 m hm
    simp only [inpList, modelElems, Wire.coerceList]
    unfold modelSer at h1
    cases hc : Wire.coerce (tyOf e) (inpOf x e) with
    | error err =>
      rw [hc] at h1
      have hx : Gen.Codec.serialize_element_rec m w e x = .error (errOf err) := h1
      simp only [hx, error_bind]
      rfl
    | ok v =>
      rw [hc] at h1
      obtain ⟨g', hx, hr, hi⟩ := h1
      simp only [hx, ok_bind]
      have h2 := ih hp.2 g' hi body hb
      unfold modelElems at h2
      cases hl : Wire.coerceList (fun y => Wire.coerce (tyOf e) y) (inpList xs e) with
      | error err =>
        rw [hl] at h2
        have hx2 : Py.forEach xs g' body = .error (errOf err) := h2
        simp only [hx2, error_bind]
        rfl
      | ok vs =>
        rw [hl] at h2
        obtain ⟨g2, hx2, hr2, hi2⟩ := h2
        exact ⟨g2, hx2, by rw [hr2, hr]; simp only [ok_bind, pure_eq_ok, encRepW], hi2⟩

theorem inpList_length (xs : List Value) (e : Obj) : (inpList xs e).length = xs.length := by
  induction xs with
  | nil => rfl
  | cons x xs ih => simp only [inpList, List.length_cons, ih]

theorem coerceList_length {f : Inp → Except Wire.Err Val} : ∀ (xs : List Inp) (vs : List Val),
    Wire.coerceList f xs = .ok vs → vs.length = xs.length
  | [], vs, h => by simp only [Wire.coerceList, Except.ok.injEq] at h; subst h; rfl
  | x :: xs, vs, h => by
      simp only [Wire.coerceList] at h
      cases hx : f x with
      | error e => rw [hx] at h; cases h
      | ok v =>
        rw [hx] at h
        cases hl : Wire.coerceList f xs with
        | error e => rw [hl] at h; cases h
        | ok ws =>
          rw [hl] at h
          simp only [ok_bind, pure_eq_ok, Except.ok.injEq] at h
          rw [← h]; simp only [List.length_cons, coerceList_length xs ws hl]

theorem modelSer_farr (te : Ty) (cap : Nat) (x : Inp) (W0 : W) :
    modelSer (.farr te cap) x W0 =
      match Wire.seqOf te x with
      | .error e => .error e
      | .ok xs => if (xs.length != cap) = true then .error .arrayLength else modelElems te xs W0 := by
  unfold modelSer modelElems
  simp only [Wire.coerce]
  cases Wire.seqOf te x with
  | error e => rfl
  | ok xs =>
    simp only [ok_bind]
    by_cases hlen : (xs.length != cap) = true
    · simp only [hlen, if_true]
    · simp only [hlen, if_false]
      cases Wire.coerceList (fun y => Wire.coerce te y) xs with
      | error e => rfl
      | ok vs => simp only [ok_bind, pure_eq_ok, encW, Bool.false_eq_true, if_false]

theorem modelSer_varr (te : Ty) (cap : Nat) (x : Inp) (W0 : W) :
    modelSer (.varr te cap) x W0 =
      match Wire.seqOf te x with
      | .error e => .error e
      | .ok xs => if xs.length > cap then .error .arrayLength
                  else modelElems te xs (writeBits W0 xs.length (Wire.lenBits cap)) := by
  unfold modelSer modelElems
  simp only [Wire.coerce]
  cases Wire.seqOf te x with
  | error e => rfl
  | ok xs =>
    simp only [ok_bind]
    by_cases hlen : xs.length > cap
    · simp only [hlen, if_true]
    · simp only [hlen, if_false]
      cases hl : Wire.coerceList (fun y => Wire.coerce te y) xs with
      | error e => rfl
      | ok vs => simp only [ok_bind, pure_eq_ok, encW, coerceList_length xs vs hl, Bool.false_eq_true, if_false]

/-- the loop body of `_serialize_array` (compared with the generated term by `rfl`) -/
@[reducible] def elemBody (m : Nat) (e : Obj) (writer : Gen.WriterS) (element : Value) : Py.M Gen.WriterS :=
  Gen.Codec.serialize_element_rec m writer e element

/-- proves that a Boolean guard of the generated code means what the model's test means, whatever its syntactic form -/
macro "guard_tac" : tactic =>
  `(tactic| first
      | (simp only [decide_eq_true_eq, Bool.not_eq_true', Bool.and_eq_true, Bool.or_eq_true, bne_iff_ne, beq_iff_eq, ne_eq,
           decide_eq_false_iff_not, Bool.not_eq_true, Nat.not_lt, Nat.not_le, gt_iff_lt, ge_iff_le]; omega)
      | (simp; omega)
      | omega
      | simp)

theorem ser_fixed_tail (e : Obj) (hd : isSerData e = true) (hG : SGood e) (m : Nat) (hm : depth e + 1 ≤ m) (cap : Nat)
    (xs : List Value) (hp : plainList xs = true) (w : Gen.WriterS) (hw : WInv w) (guard : Bool) (xsI : List Inp) (len : Nat)
    (hI : xsI = inpList xs e) (hlen : len = xs.length) (hguard : guard = true ↔ xs.length ≠ cap) :
    WAgree w
      (if guard = true then Except.error (Err.other "ArrayLengthError")
       else Py.forEach xs w (elemBody m e))
      (if (len != cap) = true then .error .arrayLength else modelElems (tyOf e) xsI (toW w)) := by
  subst hI; subst hlen
  by_cases h : xs.length ≠ cap
  · rw [if_pos (hguard.mpr h), if_pos (by simpa using h)]; rfl
  · rw [if_neg (fun hg => h (hguard.mp hg)), if_neg (by simpa using h)]
    exact ser_elems_loop e hd hG m hm xs hp w hw _ (fun _ _ => rfl)

theorem ser_var_tail (e : Obj) (hd : isSerData e = true) (hG : SGood e) (m : Nat) (hm : depth e + 1 ≤ m) (cap : Nat) (c : CastMode)
    (xs : List Value) (hp : plainList xs = true) (w : Gen.WriterS) (hw : WInv w) (guard : Bool) (xsI : List Inp) (len lenM lenM' : Nat)
    (hI : xsI = inpList xs e) (hlen : len = xs.length) (hlenM : lenM = xs.length) (hlenM' : lenM' = xs.length)
    (hguard : guard = true ↔ xs.length > cap) :
    WAgree w
      (if guard = true then Except.error (Err.other "ArrayLengthError")
       else do
        let t25 ← (Obj.unsigned (Wire.lenBits cap) c).bit_length
        let writer ← Gen.BitWriter.write_bits w len t25
        Py.forEach xs writer (elemBody m e))
      (if lenM > cap then .error .arrayLength
       else modelElems (tyOf e) xsI (writeBits (toW w) lenM' (Wire.lenBits cap))) := by
  subst hI; subst hlen; subst hlenM; subst hlenM'
  by_cases h : xs.length > cap
  · rw [if_pos (hguard.mpr h), if_pos h]; rfl
  · rw [if_neg (fun hg => h (hguard.mp hg)), if_neg h]
    obtain ⟨g', e1, e2, e3⟩ := wr_step w xs.length (Wire.lenBits cap) hw
    simp only [Obj.bit_length, pure_eq_ok, ok_bind, e1]
    rw [← e2]
    exact ser_elems_loop e hd hG m hm xs hp g' e3 _ (fun _ _ => rfl)

theorem isinstance_utf8 (e : Obj) : isinstance e .UTF8Type = true ↔ e = .utf8 := by
  cases e <;> codec_simp [] <;> simp
theorem isinstance_byte (e : Obj) : isinstance e .ByteType = true ↔ e = .byte := by
  cases e <;> codec_simp [] <;> simp

theorem tyOf_eq_utf8 (e : Obj) (he : okT e = true) : tyOf e = .utf8 ↔ e = .utf8 := by
  constructor
  · intro h; exact tyOf_utf8 e he (by rw [h]; rfl)
  · rintro rfl; simp only [tyOf]

theorem tyOf_eq_byte (e : Obj) (he : okT e = true) : tyOf e = .byte ↔ e = .byte := by
  constructor
  · intro h
    cases e <;> first
      | rfl
      | (simp [okT] at he; done)
      | (simp [tyOf] at h; done)
      | skip
    rename_i i hd x a
    obtain ⟨_, _, _, h1 | h1⟩ := tyOf_delimited i hd x a he
    · obtain ⟨fs, al, n, _, e2⟩ := h1; rw [e2] at h; cases h
    · obtain ⟨fs, t, al, n, _, e2⟩ := h1; rw [e2] at h; cases h
  · rintro rfl; simp only [tyOf]

theorem seqOf_list (te : Ty) (h : te ≠ .utf8) (xs : List Inp) : Wire.seqOf te (.list xs) = .ok xs := by
  cases te <;> first | rfl | exact absurd rfl h

theorem seqOf_bytes_other (te : Ty) (h1 : te ≠ .utf8) (h2 : te ≠ .byte) (bs : List Nat) :
    Wire.seqOf te (.bytes bs) = .error .type := by
  cases te <;> first | rfl | exact absurd rfl h1 | exact absurd rfl h2

theorem plainList_ints (bs : List Nat) : plainList (bs.map fun x => Value.int (Int.ofNat x)) = true := by
  induction bs with
  | nil => rfl
  | cons b bs ih => simp only [List.map_cons, plainList, plain, ih, Bool.and_self]

theorem inpList_ints (bs : List Nat) (e : Obj) :
    inpList (bs.map fun x => Value.int (Int.ofNat x)) e = bs.map fun (b : Nat) => Inp.int (b : Int) := by
  induction bs with
  | nil => rfl
  | cons b bs ih => simp only [List.map_cons, inpList, inpOf, ih]; rfl

/-- the side conditions of the array tails: the list of model inputs, the lengths, the guard -/
macro "tail_side" : tactic =>
  `(tactic| first
      | rfl
      | exact (inpList_ints _ _).symm
      | (simp only [inpList_ints]; done)
      | (rw [inpList_ints])
      | (simp [inpList_length]; done)
      | guard_tac)

/-- **`_serialize_array`**, fixed-length arrays -/
theorem gen_ser_fixedArray (e : Obj) (cap : Nat) (hs : okT (.fixedArray e cap) = true) (hw : (tyOf (.fixedArray e cap)).wf = true)
    (hd : isSerData e = true) (hG : SGood e) (w : Gen.WriterS) (hwi : WInv w) (pv : Value) (hp : plain pv = true) (fuel : Nat)
    (hf : depth (.fixedArray e cap) ≤ fuel) :
    WAgree w (Gen.Codec.serialize_array_rec fuel w (.fixedArray e cap) pv)
      (modelSer (tyOf (.fixedArray e cap)) (inpOf pv (.fixedArray e cap)) (toW w)) := by
  simp only [depth] at hf
  obtain ⟨m, rfl⟩ : ∃ m, fuel = m + 1 := ⟨fuel - 1, by omega⟩
  have he : okT e = true := by simpa only [okT] using hs
  simp only [tyOf, Ty.wf, Bool.and_eq_true, Bool.not_eq_true', decide_eq_true_eq] at hw
  have hnu : e ≠ .utf8 := by
    rintro rfl; simp [tyOf, Ty.isUtf8] at hw
  have hiu : isinstance e .UTF8Type = false := by
    cases h : isinstance e .UTF8Type
    · rfl
    · exact absurd ((isinstance_utf8 e).mp h) hnu
  have htu : tyOf e ≠ .utf8 := fun h => hnu ((tyOf_eq_utf8 e he).mp h)
  have tail := fun xs hpx => ser_fixed_tail e hd hG m (by omega) cap xs hpx w hwi
  simp only [tyOf, modelSer_farr, inpList_length]
  by_cases hb : e = .byte
  · subst hb
    cases pv with
    | str bs =>
      codec_simp [Gen.Codec.serialize_array_rec, Obj.capacity, Obj.element_type, Value.isinstance, Value.encodeUtf8,
        Value.len, Value.iter, inpOf, Wire.seqOf, tyOf]
      apply tail _ (plainList_ints bs) <;> tail_side
    | bytes bs =>
      codec_simp [Gen.Codec.serialize_array_rec, Obj.capacity, Obj.element_type, Value.isinstance, Value.toList,
        Value.len, Value.iter, inpOf, Wire.seqOf, tyOf]
      apply tail _ (plainList_ints bs) <;> tail_side
    | list xs =>
      codec_simp [Gen.Codec.serialize_array_rec, Obj.capacity, Obj.element_type, Value.isinstance,
        Value.len, Value.iter, inpOf, strip, elemOf, Wire.seqOf, tyOf]
      apply tail xs hp <;> tail_side
    | _ =>
      first
        | (simp only [plain, Bool.false_eq_true] at hp; done)
        | (codec_simp [Gen.Codec.serialize_array_rec, Obj.capacity, Obj.element_type, Value.isinstance, inpOf, Wire.seqOf, tyOf]
           exact rfl)
  · have hib : isinstance e .ByteType = false := by
      cases h : isinstance e .ByteType
      · rfl
      · exact absurd ((isinstance_byte e).mp h) hb
    have htb : tyOf e ≠ .byte := fun h => hb ((tyOf_eq_byte e he).mp h)
    cases pv with
    | list xs =>
      codec_simp [Gen.Codec.serialize_array_rec, Obj.capacity, Obj.element_type, Value.isinstance, Value.len, Value.iter, inpOf,
        strip, elemOf, hiu, hib, seqOf_list _ htu, Bool.false_eq_true]
      apply tail xs hp <;> tail_side
    | _ =>
      first
        | (simp only [plain, Bool.false_eq_true] at hp; done)
        | (codec_simp [Gen.Codec.serialize_array_rec, Obj.capacity, Obj.element_type, Value.isinstance, inpOf, hiu, hib,
             seqOf_bytes_other _ htu htb, Bool.false_eq_true, Wire.seqOf]
           exact rfl)

/-- **`_serialize_array`**, variable-length arrays -/
theorem gen_ser_varArray (e : Obj) (cap : Nat) (l : Obj) (hs : okT (.varArray e cap l) = true)
    (hd : isSerData e = true) (hG : SGood e) (w : Gen.WriterS) (hwi : WInv w) (pv : Value) (hp : plain pv = true) (fuel : Nat)
    (hf : depth (.varArray e cap l) ≤ fuel) :
    WAgree w (Gen.Codec.serialize_array_rec fuel w (.varArray e cap l) pv)
      (modelSer (tyOf (.varArray e cap l)) (inpOf pv (.varArray e cap l)) (toW w)) := by
  simp only [depth] at hf
  obtain ⟨m, rfl⟩ : ∃ m, fuel = m + 1 := ⟨fuel - 1, by omega⟩
  simp only [okT, Bool.and_eq_true] at hs
  obtain ⟨he, hl⟩ := hs
  obtain ⟨c, rfl⟩ := isUnsignedOf_elim hl
  have tail := fun xs hpx => ser_var_tail e hd hG m (by omega) cap c xs hpx w hwi
  simp only [tyOf, modelSer_varr, inpList_length]
  by_cases hu : e = .utf8
  · subst hu
    cases pv with
    | str bs =>
      simp only [plain, Bool.and_eq_true] at hp
      codec_simp [Gen.Codec.serialize_array_rec, Obj.capacity, Obj.element_type, Obj.length_field_type, Value.isinstance,
        Value.encodeUtf8, Value.toList, Value.len, Value.iter, inpOf, Wire.seqOf, tyOf, hp.1, hp.2]
      apply tail _ (plainList_ints bs) <;> tail_side
    | bytes bs =>
      simp only [plain] at hp
      by_cases hv : Wire.validUtf8 bs = true
      · codec_simp [Gen.Codec.serialize_array_rec, Obj.capacity, Obj.element_type, Obj.length_field_type, Value.isinstance,
          Value.decodeUtf8, Py.decodeUtf8, Value.toList, Value.len, Value.iter, inpOf, Wire.seqOf, tyOf, hp, hv]
        apply tail _ (plainList_ints bs) <;> tail_side
      · have hv' : Wire.validUtf8 bs = false := by simpa using hv
        codec_simp [Gen.Codec.serialize_array_rec, Obj.capacity, Obj.element_type, Obj.length_field_type, Value.isinstance,
          Value.decodeUtf8, Py.decodeUtf8, inpOf, Wire.seqOf, tyOf, hp, hv', Bool.false_eq_true]
        exact rfl
    | _ =>
      first
        | (simp only [plain, Bool.false_eq_true] at hp; done)
        | (codec_simp [Gen.Codec.serialize_array_rec, Obj.capacity, Obj.element_type, Value.isinstance, inpOf, Wire.seqOf, tyOf]
           exact rfl)
  · have hiu : isinstance e .UTF8Type = false := by
      cases h : isinstance e .UTF8Type
      · rfl
      · exact absurd ((isinstance_utf8 e).mp h) hu
    have htu : tyOf e ≠ .utf8 := fun h => hu ((tyOf_eq_utf8 e he).mp h)
    by_cases hb : e = .byte
    · subst hb
      cases pv with
      | str bs =>
        codec_simp [Gen.Codec.serialize_array_rec, Obj.capacity, Obj.element_type, Obj.length_field_type, Value.isinstance,
          Value.encodeUtf8, Value.len, Value.iter, inpOf, Wire.seqOf, tyOf]
        apply tail _ (plainList_ints bs) <;> tail_side
      | bytes bs =>
        codec_simp [Gen.Codec.serialize_array_rec, Obj.capacity, Obj.element_type, Obj.length_field_type, Value.isinstance,
          Value.toList, Value.len, Value.iter, inpOf, Wire.seqOf, tyOf]
        apply tail _ (plainList_ints bs) <;> tail_side
      | list xs =>
        codec_simp [Gen.Codec.serialize_array_rec, Obj.capacity, Obj.element_type, Obj.length_field_type, Value.isinstance,
          Value.len, Value.iter, inpOf, strip, elemOf, Wire.seqOf, tyOf]
        apply tail xs hp <;> tail_side
      | _ =>
        first
          | (simp only [plain, Bool.false_eq_true] at hp; done)
          | (codec_simp [Gen.Codec.serialize_array_rec, Obj.capacity, Obj.element_type, Value.isinstance, inpOf, Wire.seqOf, tyOf]
             exact rfl)
    · have hib : isinstance e .ByteType = false := by
        cases h : isinstance e .ByteType
        · rfl
        · exact absurd ((isinstance_byte e).mp h) hb
      have htb : tyOf e ≠ .byte := fun h => hb ((tyOf_eq_byte e he).mp h)
      cases pv with
      | list xs =>
        codec_simp [Gen.Codec.serialize_array_rec, Obj.capacity, Obj.element_type, Obj.length_field_type, Value.isinstance,
          Value.len, Value.iter, inpOf, strip, elemOf, hiu, hib, seqOf_list _ htu, Bool.false_eq_true]
        apply tail xs hp <;> tail_side
      | _ =>
        first
          | (simp only [plain, Bool.false_eq_true] at hp; done)
          | (codec_simp [Gen.Codec.serialize_array_rec, Obj.capacity, Obj.element_type, Value.isinstance, inpOf, hiu, hib,
               seqOf_bytes_other _ htu htb, Bool.false_eq_true, Wire.seqOf]
             exact rfl)

/-! ### Composites: delimited -/

theorem natBits8_ofBits_lt (b : Nat) (h : b < 256) : ofBits (natBits 8 b) = b := by
  rw [ofBits_natBits]; exact Nat.mod_eq_of_lt (by simpa using h)

/-- `bytes(self._buffer)` as the model sees it is the generated buffer -/
theorem bytesOf_bytesToBits (l : List Nat) (h : IsBytes l) : bytesOf (bytesToBits l) = l := by
  apply List.ext_getElem
  · simp [bytesOf]
  · intro i h1 h2
    simp only [bytesOf, List.getElem_map, List.getElem_range]
    have hdrop : (bytesToBits l).drop (8 * i) = bytesToBits (l.drop i) := (bytesToBits_drop l i).symm
    have hcons : l.drop i = l[i] :: l.drop (i + 1) := by
      rw [List.drop_eq_getElem_cons h2]
    rw [hdrop, hcons, bytesToBits_cons, List.take_left' (natBits_length 8 _)]
    exact natBits8_ofBits_lt _ (h _ (List.getElem_mem h2))

/-- `for byte_val in inner_bytes: writer.write_bits(byte_val, 8)` -/
theorem write_bytes_loop : ∀ (bs : List Nat) (w : Gen.WriterS), WInv w →
    ∀ (body : Gen.WriterS → Nat → Py.M Gen.WriterS), (∀ wr b, body wr b = Gen.BitWriter.write_bits wr b 8) →
    ∃ g', Py.forEach bs w body = .ok g' ∧ toW g' = writeBytes (toW w) bs ∧ WInv g'
  | [], w, hw, _, _ => ⟨w, rfl, rfl, hw⟩
  | b :: bs, w, hw, body, hb => by
      obtain ⟨g1, e1, e2, e3⟩ := wr_step w b 8 hw
      obtain ⟨g2, f1, f2, f3⟩ := write_bytes_loop bs g1 e3 body hb
      refine ⟨g2, ?_, ?_, f3⟩
      · rw [forEach_cons, hb, e1]; exact f1
      · rw [f2, e2]; rfl

theorem inpOf_delimited (pv : Value) (i h : Obj) (x a : Nat) (hsu : isStructOrUnion i = true) :
    inpOf pv (.delimited i h x a) = inpOf pv i := by
  cases i <;> simp only [isStructOrUnion, Bool.false_eq_true] at hsu <;> cases pv <;> simp only [inpOf, strip]

theorem coerce_struct_mode (fs : List Ty) (m m' : Mode) (x : Inp) : Wire.coerce (.struct fs m) x = Wire.coerce (.struct fs m') x := by
  cases x <;> simp only [Wire.coerce]
theorem coerce_union_mode (fs : List Ty) (m m' : Mode) (x : Inp) : Wire.coerce (.union fs m) x = Wire.coerce (.union fs m') x := by
  cases x <;> simp only [Wire.coerce]

theorem coerce_struct_shape (fs : List Ty) (m : Mode) (x : Inp) (v : Val) (h : Wire.coerce (.struct fs m) x = .ok v) :
    ∃ vs, v = .recd vs := by
  cases x <;> simp only [Wire.coerce] at h <;> try (cases h; done)
  rename_i kvs
  by_cases hc : (kvs.all fun kv => Wire.isField fs kv.1) = true
  · rw [if_pos hc] at h
    cases hf : Wire.coerceFields fs 0 kvs with
    | error e => rw [hf] at h; cases h
    | ok vs => rw [hf] at h; simp only [ok_bind, pure_eq_ok, Except.ok.injEq] at h; exact ⟨vs, h.symm⟩
  · rw [if_neg hc] at h; cases h

theorem coerce_union_shape (fs : List Ty) (m : Mode) (x : Inp) (v : Val) (h : Wire.coerce (.union fs m) x = .ok v) :
    ∃ k u, v = .var k u := by
  cases x <;> simp only [Wire.coerce] at h <;> try (cases h; done)
  rename_i kvs
  rcases kvs with _ | ⟨⟨k, y⟩, _ | ⟨kv2, rest⟩⟩ <;> simp only [Wire.coerce] at h <;> try (cases h; done)
  by_cases hc : k < fs.length
  · rw [if_pos hc] at h
    cases hf : Wire.coerceVariant fs k y with
    | error e => rw [hf] at h; cases h
    | ok u => rw [hf] at h; simp only [ok_bind, pure_eq_ok, Except.ok.injEq] at h; exact ⟨k, u, h.symm⟩
  · rw [if_neg hc] at h; cases h

/-- the model's serializer on a delimited type: the inner type into a fresh writer, then header and payload -/
theorem modelSer_delimited (i h : Obj) (x a : Nat) (hs : okT (.delimited i h x a) = true) (inp : Inp) (W0 : W) :
    modelSer (tyOf (.delimited i h x a)) inp W0 =
      match modelSer (tyOf i) inp ⟨[], 0⟩ with
      | .ok Wi => .ok (writeBytes (writeBits W0 (bytesOf Wi.buf).length Wire.headerBits) (bytesOf Wi.buf))
      | .error e => .error e := by
  obtain ⟨_, _, _, h1 | h1⟩ := tyOf_delimited i h x a hs
  · obtain ⟨fs, al, n, rfl, e2⟩ := h1
    rw [e2]
    unfold modelSer
    simp only [tyOf, coerce_struct_mode (tysOf fs) (.delimited x) .sealed]
    cases hc : Wire.coerce (.struct (tysOf fs) .sealed) inp with
    | error e => rfl
    | ok v =>
      obtain ⟨vs, rfl⟩ := coerce_struct_shape _ _ _ _ hc
      simp only [encW, wrapDelimW]
  · obtain ⟨fs, t, al, n, rfl, e2⟩ := h1
    rw [e2]
    unfold modelSer
    simp only [tyOf, coerce_union_mode (tysOf fs) (.delimited x) .sealed]
    cases hc : Wire.coerce (.union (tysOf fs) .sealed) inp with
    | error e => rfl
    | ok v =>
      obtain ⟨k, u, rfl⟩ := coerce_union_shape _ _ _ _ hc
      simp only [encW, wrapDelimW]

/-- **`_serialize_composite`**, DelimitedType branch -/
theorem gen_ser_delimited (i h : Obj) (x a : Nat) (hs : okT (.delimited i h x a) = true) (hG : SGood i)
    (w : Gen.WriterS) (hwi : WInv w) (pv : Value) (hp : plain pv = true) (fuel : Nat) (hf : depth (.delimited i h x a) ≤ fuel) :
    WAgree w (Gen.Codec.serialize_composite_rec fuel w (.delimited i h x a) pv)
      (modelSer (tyOf (.delimited i h x a)) (inpOf pv (.delimited i h x a)) (toW w)) := by
  simp only [depth] at hf
  obtain ⟨m, rfl⟩ : ∃ m, fuel = m + 1 := ⟨fuel - 1, by omega⟩
  have hs' := hs
  simp only [okT, Bool.and_eq_true, beq_iff_eq] at hs'
  obtain ⟨⟨⟨hi, hsu⟩, _⟩, hh⟩ := hs'
  obtain ⟨c, rfl⟩ := isUnsignedOf_elim hh
  have hcomp : isCompObj i = true := by
    cases i <;> simp only [isStructOrUnion, Bool.false_eq_true] at hsu <;> rfl
  obtain ⟨_, hinit, _, _⟩ := gen_writer_init
  have hin := (hG ⟨[], 0⟩ hinit pv hp).2.2 hcomp m (by omega)
  rw [modelSer_delimited i _ x a hs, inpOf_delimited pv i _ x a hsu]
  codec_simp [Gen.Codec.serialize_composite_rec, Obj.inner_type, Obj.delimiter_header_type, Gen.BitWriter.init,
    Gen.BitWriter.finish, Obj.bit_length]
  have h0 : toW ⟨[], 0⟩ = ⟨[], 0⟩ := rfl
  rw [h0] at hin
  rcases hin.elim with ⟨e0, hy, hx⟩ | ⟨g1, hy, hx, hi1⟩
  · simp only [hy, hx, error_bind]
    rfl
  · simp only [hy, hx, ok_bind]
    have hb : bytesOf (toW g1).buf = g1.buffer := bytesOf_bytesToBits g1.buffer hi1.1
    rw [hb]
    obtain ⟨g2, e1, e2, e3⟩ := wr_step w g1.buffer.length Wire.headerBits hwi
    simp only [e1, ok_bind]
    obtain ⟨g3, f1, f2, f3⟩ := write_bytes_loop g1.buffer g2 e3 _ (fun _ _ => rfl)
    simp only [f1, ok_bind]
    exact ⟨g3, rfl, by rw [f2, e2], f3⟩

/-! ### Field names and positions -/

/-- the names of the (non-padding) fields, in order -/
def fieldNames : List Obj → List String
  | [] => []
  | .field _ n :: fs => n :: fieldNames fs
  | _ :: fs => fieldNames fs

theorem fieldIdx_ge (k : String) : ∀ (fs : List Obj) (j : Nat), j ≤ fieldIdx k fs j
  | [], j => Nat.le_refl _
  | f :: fs, j => by
      cases f <;> simp only [fieldIdx] <;> try (exact Nat.le_trans (Nat.le_succ j) (fieldIdx_ge k fs (j + 1)))
      split
      · exact Nat.le_refl _
      · exact Nat.le_trans (Nat.le_succ j) (fieldIdx_ge k fs (j + 1))

theorem fieldIdx_notin (k : String) : ∀ (fs : List Obj) (j : Nat), k ∉ fieldNames fs → fieldIdx k fs j = j + fs.length
  | [], j, _ => rfl
  | f :: fs, j, h => by
      cases f <;> simp only [fieldIdx, fieldNames, List.mem_cons, not_or] at h ⊢ <;>
        try (rw [fieldIdx_notin k fs (j + 1) h]; simp only [List.length_cons]; omega)
      rw [if_neg (by simpa using fun e => h.1 e.symm), fieldIdx_notin k fs (j + 1) h.2]
      simp only [List.length_cons]; omega

theorem fieldIdx_lt (k : String) : ∀ (fs : List Obj) (j : Nat), k ∈ fieldNames fs → fieldIdx k fs j < j + fs.length
  | [], j, h => by cases h
  | f :: fs, j, h => by
      cases f <;> simp only [fieldIdx, fieldNames, List.mem_cons, List.length_cons] at h ⊢ <;>
        try (have := fieldIdx_lt k fs (j + 1) h; omega)
      split
      · omega
      · rename_i hne
        rcases h with h | h
        · exact absurd (by simpa using h.symm) hne
        · have := fieldIdx_lt k fs (j + 1) h; omega

/-- the object at the position `fieldIdx` reports is the field with that name, and `fieldType` is its type -/
theorem fieldIdx_get (k : String) : ∀ (fs : List Obj) (j : Nat), k ∈ fieldNames fs →
    fs[fieldIdx k fs j - j]? = some (.field (fieldType k fs) k)
  | [], j, h => by cases h
  | f :: fs, j, h => by
      have hge := fieldIdx_ge k fs (j + 1)
      cases f <;> simp only [fieldIdx, fieldNames, fieldType, List.mem_cons] at h ⊢ <;>
        try (have := fieldIdx_get k fs (j + 1) h
             rw [show fieldIdx k fs (j + 1) - j = (fieldIdx k fs (j + 1) - (j + 1)) + 1 by omega, List.getElem?_cons_succ]
             exact this)
      rename_i d n
      by_cases hn : (n == k) = true
      · have : n = k := by simpa using hn
        subst this
        simp only [hn, if_true, Nat.sub_self, List.getElem?_cons_zero]
      · rw [if_neg hn, if_neg hn]
        have hk : k ∈ fieldNames fs := by
          rcases h with h | h
          · exact absurd (by simpa using h.symm) hn
          · exact h
        have := fieldIdx_get k fs (j + 1) hk
        rw [show fieldIdx k fs (j + 1) - j = (fieldIdx k fs (j + 1) - (j + 1)) + 1 by omega, List.getElem?_cons_succ]
        exact this

theorem tysOf_getElem? (fs : List Obj) (i : Nat) : (tysOf fs)[i]? = (fs[i]?).map tyOf := by
  induction fs generalizing i with
  | nil => simp [tysOf]
  | cons f fs ih =>
    cases i with
    | zero => simp [tysOf]
    | succ i => simp only [tysOf, List.getElem?_cons_succ, ih]

theorem mem_field_nonvoid : ∀ (fs : List Obj), okFs fs = true → ∀ d n, Obj.field d n ∈ fs → (tyOf d).isVoid = false ∧ okT d = true
  | [], _, _, _, h => by cases h
  | f :: fs, hok, d, n, hmem => by
      rcases List.mem_cons.mp hmem with h1 | h2
      · subst h1
        simp only [okFs, Bool.and_eq_true, Bool.not_eq_true'] at hok
        exact ⟨hok.1.2, hok.1.1⟩
      · clear hmem
        cases f <;> simp only [okFs, Bool.and_eq_true, Bool.false_eq_true] at hok
        · exact mem_field_nonvoid fs hok.2 d n h2
        · exact mem_field_nonvoid fs hok.2 d n h2

/-- a key is accepted by the model (`isField`) iff it is the name of a non-padding field -/
theorem isField_fieldIdx (fs : List Obj) (hok : okFs fs = true) (k : String) :
    Wire.isField (tysOf fs) (fieldIdx k fs 0) = (fieldNames fs).contains k := by
  by_cases hk : k ∈ fieldNames fs
  · have hget := fieldIdx_get k fs 0 hk
    simp only [Nat.sub_zero] at hget
    have hnv : (tyOf (fieldType k fs)).isVoid = false := (mem_field_nonvoid fs hok _ _ (List.mem_of_getElem? hget)).1
    simp only [Wire.isField, tysOf_getElem?, hget, Option.map_some, tyOf, hnv, Bool.not_false]
    exact (List.contains_iff_mem.mpr hk).symm
  · have := fieldIdx_notin k fs 0 hk
    simp only [Nat.zero_add] at this
    have hnone : (tysOf fs)[fieldIdx k fs 0]? = none := by
      rw [this, List.getElem?_eq_none (by rw [tysOf_length])]
    simp only [Wire.isField, hnone]
    exact (by simpa using hk : (fieldNames fs).contains k = false).symm

theorem mem_fieldNames_of_mem {fs : List Obj} {d : Obj} {n : String} (h : Obj.field d n ∈ fs) : n ∈ fieldNames fs := by
  induction fs with
  | nil => cases h
  | cons f fs ih =>
    rcases List.mem_cons.mp h with h1 | h2
    · subst h1; simp [fieldNames]
    · cases f <;> simp only [fieldNames, List.mem_cons] <;> first | exact ih h2 | exact Or.inr (ih h2)

/-- with pairwise distinct field names a name determines the position and the type -/
theorem field_pos_unique : ∀ (fs : List Obj), (fieldNames fs).Nodup → ∀ (i j : Nat) (d d' : Obj) (n : String),
    fs[i]? = some (.field d n) → fs[j]? = some (.field d' n) → i = j ∧ d = d'
  | [], _, i, _, _, _, _, h, _ => by simp at h
  | f :: fs, hnd, i, j, d, d', n, hi, hj => by
      have hnd' : (fieldNames fs).Nodup := by
        cases f <;> simp only [fieldNames, List.nodup_cons] at hnd <;> first | exact hnd | exact hnd.2
      cases i with
      | zero =>
        cases j with
        | zero =>
          simp only [List.getElem?_cons_zero, Option.some.injEq] at hi hj
          rw [hi] at hj; cases hj; exact ⟨rfl, rfl⟩
        | succ j =>
          simp only [List.getElem?_cons_zero, Option.some.injEq, List.getElem?_cons_succ] at hi hj
          subst hi
          simp only [fieldNames, List.nodup_cons] at hnd
          exact absurd (mem_fieldNames_of_mem (List.mem_of_getElem? hj)) hnd.1
      | succ i =>
        cases j with
        | zero =>
          simp only [List.getElem?_cons_zero, Option.some.injEq, List.getElem?_cons_succ] at hi hj
          subst hj
          simp only [fieldNames, List.nodup_cons] at hnd
          exact absurd (mem_fieldNames_of_mem (List.mem_of_getElem? hi)) hnd.1
        | succ j =>
          simp only [List.getElem?_cons_succ] at hi hj
          obtain ⟨h1, h2⟩ := field_pos_unique fs hnd' i j d d' n hi hj
          exact ⟨by rw [h1], h2⟩

/-- **Lookup correspondence**: the model looks a field up by position in the translated dict, Python by name in the dict -/
theorem lookupKey_inpDict (fs : List Obj) (hnd : (fieldNames fs).Nodup) (i : Nat) (d : Obj) (n : String)
    (hi : fs[i]? = some (.field d n)) :
    ∀ (kvs : List (String × Value)),
      Wire.lookupKey i (inpDict kvs fs) = (Py.dictLookup n kvs).map (fun v => inpOf v d)
  | [] => rfl
  | (k, v) :: kvs => by
      have hn : n ∈ fieldNames fs := mem_fieldNames_of_mem (List.mem_of_getElem? hi)
      simp only [inpDict, Wire.lookupKey, Py.dictLookup]
      by_cases hk : k = n
      · subst hk
        have hget := fieldIdx_get k fs 0 hn
        simp only [Nat.sub_zero] at hget
        obtain ⟨h1, h2⟩ := field_pos_unique fs hnd _ _ _ _ _ hget hi
        simp only [h1, h2, beq_self_eq_true, if_true, Option.map_some]
      · have hne : (k == n) = false := by simpa using hk
        have hidx : (i == fieldIdx k fs 0) = false := by
          by_cases hkm : k ∈ fieldNames fs
          · have hget := fieldIdx_get k fs 0 hkm
            simp only [Nat.sub_zero] at hget
            rw [beq_eq_false_iff_ne]
            intro h
            rw [← h, hi] at hget
            simp only [Option.some.injEq, Obj.field.injEq] at hget
            exact hk hget.2.symm
          · have := fieldIdx_notin k fs 0 hkm
            have hlt : i < fs.length := by
              by_contra hge
              rw [List.getElem?_eq_none (by omega)] at hi; cases hi
            rw [beq_eq_false_iff_ne]; omega
        simp only [hne, hidx, Bool.false_eq_true, if_false]
        exact lookupKey_inpDict fs hnd i d n hi kvs

/-! ### Dict facts -/

theorem dictLookup_dictSet_same : ∀ (d : List (String × Value)) (k : String) (v : Value),
    Py.dictLookup k (Py.dictSet d k v) = some v := by
  intro d k v
  unfold Py.dictSet
  by_cases h : d.any (fun kv => kv.1 == k) = true
  · rw [if_pos h]
    induction d with
    | nil => simp at h
    | cons a d ih =>
      obtain ⟨k', x⟩ := a
      simp only [List.map_cons]
      by_cases hk : (k' == k) = true
      · simp only [hk, if_true, Py.dictLookup, beq_self_eq_true]
      · simp only [hk, Bool.false_eq_true, if_false, Py.dictLookup]
        simp only [List.any_cons, hk, Bool.false_or] at h
        exact ih h
  · rw [if_neg h]
    induction d with
    | nil => simp [Py.dictLookup]
    | cons a d ih =>
      obtain ⟨k', x⟩ := a
      simp only [List.any_cons, Bool.or_eq_true, not_or] at h
      simp only [List.cons_append, Py.dictLookup, h.1, Bool.false_eq_true, if_false]
      exact ih h.2

theorem dictLookup_dictSet_other : ∀ (d : List (String × Value)) (k k' : String) (v : Value), k ≠ k' →
    Py.dictLookup k (Py.dictSet d k' v) = Py.dictLookup k d := by
  intro d k k' v hne
  have hne' : (k' == k) = false := by simpa using fun e => hne e.symm
  unfold Py.dictSet
  by_cases h : d.any (fun kv => kv.1 == k') = true
  · rw [if_pos h]
    clear h
    induction d with
    | nil => rfl
    | cons a d ih =>
      obtain ⟨k2, x⟩ := a
      simp only [List.map_cons]
      by_cases hk : (k2 == k') = true
      · have : k2 = k' := by simpa using hk
        subst this
        simp only [beq_self_eq_true, if_true, Py.dictLookup, hne', Bool.false_eq_true, if_false, ih]
      · simp only [hk, Bool.false_eq_true, if_false, Py.dictLookup, ih]
  · rw [if_neg h]
    clear h
    induction d with
    | nil => simp [Py.dictLookup, hne']
    | cons a d ih =>
      obtain ⟨k2, x⟩ := a
      simp only [List.cons_append, Py.dictLookup, ih]

theorem mem_dictSet {d : List (String × Value)} {k : String} {v : Value} {kv : String × Value}
    (h : kv ∈ Py.dictSet d k v) : kv ∈ d ∨ kv = (k, v) := by
  unfold Py.dictSet at h
  split at h
  · rcases List.mem_map.mp h with ⟨a, ha, rfl⟩
    split
    · exact Or.inr rfl
    · exact Or.inl ha
  · rcases List.mem_append.mp h with h | h
    · exact Or.inl h
    · exact Or.inr (by simpa using h)

theorem plainDict_iff (d : List (String × Value)) : plainDict d = true ↔ ∀ kv ∈ d, plain kv.2 = true := by
  induction d with
  | nil => simp [plainDict]
  | cons a d ih =>
    obtain ⟨k, x⟩ := a
    simp only [plainDict, Bool.and_eq_true, ih, List.mem_cons, forall_eq_or_imp]

theorem plainDict_dictSet (d : List (String × Value)) (k : String) (v : Value) (hd : plainDict d = true) (hv : plain v = true) :
    plainDict (Py.dictSet d k v) = true := by
  rw [plainDict_iff] at hd ⊢
  intro kv hkv
  rcases mem_dictSet hkv with h | h
  · exact hd kv h
  · rw [h]; exact hv

/-! ### The default value in the model -/

mutual
/-- the domain of the serializer theorems: no float type (its conversion is an uninterpreted region of the source), field names
    of every composite pairwise distinct (pydsdl rejects name collisions) -/
def serOk : Obj → Bool
  | .float _ _ => false
  | .fixedArray e _ => serOk e
  | .varArray e _ _ => serOk e
  | .structure fs _ _ => serOkFs fs && decide (fieldNames fs).Nodup
  | .union fs _ _ _ => serOkFs fs && decide (fieldNames fs).Nodup
  | .delimited i _ _ _ => serOk i
  | .field d _ => serOk d
  | .paddingField d => serOk d
  | _ => true
def serOkFs : List Obj → Bool
  | [] => true
  | f :: fs => serOk f && serOkFs fs
end

theorem dictLookup_defaultDict_notin (k : String) : ∀ (fs : List Obj) (acc : List (String × Value)), k ∉ fieldNames fs →
    Py.dictLookup k (defaultDict fs acc) = Py.dictLookup k acc
  | [], _, _ => rfl
  | f :: fs, acc, h => by
      cases f <;> simp only [fieldNames, List.mem_cons, not_or] at h <;> simp only [defaultDict] <;>
        try (exact dictLookup_defaultDict_notin k fs acc h)
      rw [dictLookup_defaultDict_notin k fs _ h.2, dictLookup_dictSet_other _ _ _ _ h.1]

theorem dictLookup_defaultDict : ∀ (fs : List Obj) (acc : List (String × Value)), (fieldNames fs).Nodup →
    ∀ d n, Obj.field d n ∈ fs → Py.dictLookup n (defaultDict fs acc) = some (defaultOf d)
  | [], _, _, _, _, h => by cases h
  | f :: fs, acc, hnd, d, n, hmem => by
      have hnd' : (fieldNames fs).Nodup := by
        cases f <;> simp only [fieldNames, List.nodup_cons] at hnd <;> first | exact hnd | exact hnd.2
      rcases List.mem_cons.mp hmem with h1 | h2
      · subst h1
        simp only [fieldNames, List.nodup_cons] at hnd
        simp only [defaultDict]
        rw [dictLookup_defaultDict_notin n fs _ hnd.1, dictLookup_dictSet_same]
      · clear hmem
        cases f <;> simp only [defaultDict] <;> exact dictLookup_defaultDict fs _ hnd' d n h2

theorem mem_defaultDict : ∀ (fs : List Obj) (acc : List (String × Value)) (kv : String × Value), kv ∈ defaultDict fs acc →
    kv ∈ acc ∨ ∃ d n, Obj.field d n ∈ fs ∧ kv = (n, defaultOf d)
  | [], _, _, h => Or.inl h
  | f :: fs, acc, kv, h => by
      cases f with
      | field d0 n0 =>
        simp only [defaultDict] at h
        rcases mem_defaultDict fs _ kv h with h | ⟨d, n, h1, h2⟩
        · rcases mem_dictSet h with h | h
          · exact Or.inl h
          · exact Or.inr ⟨d0, n0, by simp, h⟩
        · exact Or.inr ⟨d, n, by simp [h1], h2⟩
      | _ =>
        simp only [defaultDict] at h
        rcases mem_defaultDict fs acc kv h with h | ⟨d, n, h1, h2⟩
        · exact Or.inl h
        · exact Or.inr ⟨d, n, by simp [h1], h2⟩

theorem all_isField_inpDict (fs : List Obj) (hok : okFs fs = true) (kvs : List (String × Value)) :
    ((inpDict kvs fs).all fun kv => Wire.isField (tysOf fs) kv.1) = kvs.all fun kv => (fieldNames fs).contains kv.1 := by
  induction kvs with
  | nil => rfl
  | cons a kvs ih =>
    obtain ⟨k, v⟩ := a
    simp only [inpDict, List.all_cons, isField_fieldIdx fs hok, ih]

theorem dfltFields_tysOf_void (w : Nat) : Wire.dflt (.void w) = .unit := by simp only [Wire.dflt]

/-- the model's `coerceFields` when every remaining field is found in the dict with a value that coerces to the field's default -/
theorem coerceFields_defaults (fs : List Obj) (hok : okFs fs = true) (hnd : (fieldNames fs).Nodup) (kvs : List (String × Value)) :
    ∀ (suf pre : List Obj), fs = pre ++ suf →
      (∀ d n, Obj.field d n ∈ suf → ∃ v, Py.dictLookup n kvs = some v ∧
        Wire.coerce (tyOf d) (inpOf v d) = .ok (Wire.dflt (tyOf d))) →
      Wire.coerceFields (tysOf suf) pre.length (inpDict kvs fs) = .ok (Wire.dfltFields (tysOf suf))
  | [], _, _, _ => rfl
  | f :: suf, pre, hfs, hall => by
      have hokf : okFs (f :: suf) = true := by
        subst hfs
        clear hall hnd
        induction pre with
        | nil => exact hok
        | cons p pre ih => cases p <;> simp only [List.cons_append, okFs, Bool.and_eq_true, Bool.false_eq_true] at hok <;> exact ih hok.2
      have hrec := coerceFields_defaults fs hok hnd kvs suf (pre ++ [f]) (by rw [hfs]; simp)
        (fun d n h => hall d n (by simp [h]))
      simp only [List.length_append, List.length_singleton] at hrec
      have hpos : fs[pre.length]? = some f := by rw [hfs]; simp
      cases f with
      | field d n =>
        simp only [okFs, Bool.and_eq_true, Bool.not_eq_true'] at hokf
        obtain ⟨v, hv1, hv2⟩ := hall d n (by simp)
        simp only [tysOf, tyOf, Wire.coerceFields, Wire.dfltFields, hokf.1.2, Bool.false_eq_true, if_false,
          lookupKey_inpDict fs hnd _ d n hpos kvs, hv1, Option.map_some, hv2, ok_bind, hrec, pure_eq_ok]
      | paddingField d =>
        simp only [okFs, Bool.and_eq_true] at hokf
        obtain ⟨w, rfl⟩ := void_of d hokf.1.1 hokf.1.2
        simp only [tysOf, tyOf, Wire.coerceFields, Wire.dfltFields, Wire.Ty.isVoid, if_true, ok_bind, hrec, pure_eq_ok, Wire.dflt]
      | _ => simp [okFs] at hokf

/-- the Python default of a type is, in the model, an input that coerces to the model's default -/
def DefCo (s : Obj) : Prop :=
  Wire.coerce (tyOf s) (inpOf (defaultOf s) s) = .ok (Wire.dflt (tyOf s)) ∧ plain (defaultOf s) = true

theorem coerceList_replicate (f : Inp → Except Wire.Err Val) (x : Inp) (v : Val) (h : f x = .ok v) (n : Nat) :
    Wire.coerceList f (List.replicate n x) = .ok (List.replicate n v) := by
  induction n with
  | zero => rfl
  | succ n ih => simp only [List.replicate_succ, Wire.coerceList, h, ih, ok_bind, pure_eq_ok]

theorem inpList_replicate (n : Nat) (x : Value) (e : Obj) : inpList (List.replicate n x) e = List.replicate n (inpOf x e) := by
  induction n with
  | zero => rfl
  | succ n ih => simp only [List.replicate_succ, inpList, ih]

theorem plainList_replicate (n : Nat) (x : Value) (h : plain x = true) : plainList (List.replicate n x) = true := by
  induction n with
  | zero => rfl
  | succ n ih => simp only [List.replicate_succ, plainList, h, ih, Bool.and_self]

theorem castS_sat_zero (n : Nat) : Wire.castS n .sat 0 = 0 := by
  have hpos : (0 : Int) < (2 : Int) ^ (n - 1) := by positivity
  simp only [Wire.castS, Wire.clamp]
  omega

theorem castU_zero (n : Nat) (c : Cast) : Wire.castU n c 0 = 0 := by
  have hpos : (0 : Int) < (2 : Int) ^ n := by positivity
  cases c
  · simp only [Wire.castU, Wire.clamp]; omega
  · simp only [Wire.castU, Int.zero_emod]

mutual
theorem defCo : ∀ (s : Obj), okT s = true → (tyOf s).wf = true → serOk s = true → DefCo s
  | .boolean, _, _, _ => ⟨rfl, rfl⟩
  | .signed n c, _, hw, _ => by
      simp only [tyOf, Ty.wf, Bool.and_eq_true, beq_iff_eq] at hw
      refine ⟨?_, rfl⟩
      simp only [defaultOf, inpOf, tyOf, Wire.coerce, Wire.Inp.num?, Wire.dflt, hw.2, castS_sat_zero]
  | .unsigned n c, _, _, _ => by
      refine ⟨?_, rfl⟩
      simp only [defaultOf, inpOf, tyOf, Wire.coerce, Wire.Inp.num?, Wire.dflt, castU_zero]
  | .byte, _, _, _ => ⟨by simp only [defaultOf, inpOf, tyOf, Wire.coerce, Wire.Inp.num?, Wire.dflt, castU_zero], rfl⟩
  | .utf8, _, _, _ => ⟨by simp only [defaultOf, inpOf, tyOf, Wire.coerce, Wire.Inp.num?, Wire.dflt, castU_zero], rfl⟩
  | .float _ _, _, _, hs => by simp [serOk] at hs
  | .void n, _, _, _ => ⟨by simp only [defaultOf, tyOf, Wire.coerce, Wire.dflt], rfl⟩
  | .fixedArray e cap, hs, hw, hso => by
      have he : okT e = true := by simpa only [okT] using hs
      simp only [tyOf, Ty.wf, Bool.and_eq_true, Bool.not_eq_true', decide_eq_true_eq] at hw
      have hnu : tyOf e ≠ .utf8 := by
        intro h; rw [h] at hw; simp [Ty.isUtf8] at hw
      obtain ⟨h1, h2⟩ := defCo e he hw.1.1.1 (by simpa only [serOk] using hso)
      refine ⟨?_, by simp only [defaultOf, plain]; exact plainList_replicate _ _ h2⟩
      simp only [defaultOf, inpOf, strip, elemOf, tyOf, Wire.coerce, inpList_replicate, seqOf_list _ hnu, ok_bind,
        List.length_replicate, bne_self_eq_false, Bool.false_eq_true, if_false, coerceList_replicate _ _ _ h1, pure_eq_ok, Wire.dflt]
  | .varArray e cap l, hs, hw, hso => by
      simp only [okT, Bool.and_eq_true] at hs
      by_cases hu : e = .utf8
      · subst hu
        refine ⟨?_, by simp [defaultOf, plain, Wire.validUtf8]⟩
        simp [defaultOf, inpOf, tyOf, Wire.coerce, Wire.seqOf, Wire.validUtf8, Wire.coerceList, Wire.dflt]
      · by_cases hb : e = .byte
        · subst hb
          refine ⟨?_, by simp [defaultOf, plain]⟩
          simp [defaultOf, inpOf, tyOf, Wire.coerce, Wire.seqOf, Wire.coerceList, Wire.dflt]
        · have hnu : tyOf e ≠ .utf8 := fun h => hu ((tyOf_eq_utf8 e hs.1).mp h)
          have hd : defaultOf (.varArray e cap l) = .list [] := by
            cases e <;> first | rfl | exact absurd rfl hu | exact absurd rfl hb
          rw [DefCo, hd]
          refine ⟨?_, rfl⟩
          simp [inpOf, inpList, tyOf, Wire.coerce, seqOf_list _ hnu, Wire.coerceList, Wire.dflt]
  | .structure fs a n, hs, hw, hso => by
      have hfs : okFs fs = true := by simp only [okT, Bool.and_eq_true] at hs; exact hs.1
      have hwf : Wire.wfFields (tysOf fs) = true := by
        simp only [tyOf, Ty.wf, Bool.and_eq_true] at hw; exact hw.1
      simp only [serOk, Bool.and_eq_true, decide_eq_true_eq] at hso
      have hall := defCo_all fs hfs hwf hso.1
      constructor
      · simp only [defaultOf, inpOf, strip, fieldsOf, tyOf, Wire.coerce, all_isField_inpDict fs hfs]
        have hkeys : ((defaultDict fs []).all fun kv => (fieldNames fs).contains kv.1) = true := by
          rw [List.all_eq_true]
          intro kv hkv
          rcases mem_defaultDict fs [] kv hkv with h | ⟨d, nm, h1, h2⟩
          · cases h
          · rw [h2]; exact List.contains_iff_mem.mpr (mem_fieldNames_of_mem h1)
        rw [if_pos hkeys]
        have := coerceFields_defaults fs hfs hso.2 (defaultDict fs []) fs [] rfl
          (fun d nm h => ⟨defaultOf d, dictLookup_defaultDict fs [] hso.2 d nm h, (hall d nm h).1⟩)
        simp only [List.length_nil] at this
        simp only [this, ok_bind, pure_eq_ok, Wire.dflt]
      · simp only [defaultOf, plain]
        rw [plainDict_iff]
        intro kv hkv
        rcases mem_defaultDict fs [] kv hkv with h | ⟨d, nm, h1, h2⟩
        · cases h
        · rw [h2]; exact (hall d nm h1).2
  | .union fs t a n, hs, hw, hso => by
      have hfs : okFs fs = true := by simp only [okT, Bool.and_eq_true] at hs; exact hs.1.1
      simp only [tyOf, Ty.wf, Bool.and_eq_true, decide_eq_true_eq, tysOf_length] at hw
      simp only [serOk, Bool.and_eq_true, decide_eq_true_eq] at hso
      have hall := defCo_all fs hfs hw.1.1.1.1 hso.1
      obtain ⟨d, nm, h1, h2, _, _, _⟩ := variant_lookup fs 0 hfs hw.1.1.1.2 (by omega)
      cases fs with
      | nil => simp [Py.index] at h1
      | cons f fs =>
        rw [index_cons_zero] at h1; cases h1
        obtain ⟨c1, c2⟩ := hall d nm (by simp)
        refine ⟨?_, by simp only [defaultOf, defaultFirst, plain, plainDict, c2, Bool.and_self]⟩
        simp only [defaultOf, defaultFirst, inpOf, strip, fieldsOf, inpDict, fieldIdx, fieldType, beq_self_eq_true, if_true, tyOf,
          tysOf, Wire.coerce, List.length_cons, Nat.zero_lt_succ, Wire.coerceVariant, c1, ok_bind, pure_eq_ok, Wire.dflt,
          Wire.dfltFirst]
  | .delimited i h x a, hs, hw, hso => by
      have hi : okT i = true := (tyOf_delimited i h x a hs).1
      have hs' := hs
      simp only [okT, Bool.and_eq_true] at hs'
      obtain ⟨c1, c2⟩ := defCo i hi (wf_inner_of_delimited i h x a hs hw) (by simpa only [serOk] using hso)
      refine ⟨?_, by simpa only [defaultOf] using c2⟩
      rw [show defaultOf (.delimited i h x a) = defaultOf i by simp only [defaultOf], inpOf_delimited _ i h x a hs'.1.1.2]
      obtain ⟨_, _, _, h1 | h1⟩ := tyOf_delimited i h x a hs
      · obtain ⟨fs, al, nm, rfl, e2⟩ := h1
        rw [e2, coerce_struct_mode _ _ .sealed]
        simp only [tyOf] at c1
        rw [c1]; simp only [Wire.dflt]
      · obtain ⟨fs, t, al, nm, rfl, e2⟩ := h1
        rw [e2, coerce_union_mode _ _ .sealed]
        simp only [tyOf] at c1
        rw [c1]; simp only [Wire.dflt]
  | .service _ _ _, hs, _, _ | .field _ _, hs, _, _ | .paddingField _, hs, _, _ => by simp [okT] at hs
theorem defCo_all : ∀ (fs : List Obj), okFs fs = true → Wire.wfFields (tysOf fs) = true → serOkFs fs = true →
    ∀ d n, Obj.field d n ∈ fs → DefCo d
  | [], _, _, _, _, _, h => by cases h
  | .field d' n' :: fs, hok, hwf, hso, d, n, h => by
      simp only [okFs, Bool.and_eq_true] at hok
      simp only [tysOf, tyOf, Wire.wfFields, Bool.and_eq_true] at hwf
      simp only [serOkFs, serOk, Bool.and_eq_true] at hso
      rcases List.mem_cons.mp h with h | h
      · cases h; exact defCo d' hok.1.1 hwf.1.1 hso.1
      · exact defCo_all fs hok.2 hwf.2 hso.2 d n h
  | .paddingField d' :: fs, hok, hwf, hso, d, n, h => by
      simp only [okFs, Bool.and_eq_true] at hok
      simp only [tysOf, Wire.wfFields, Bool.and_eq_true] at hwf
      simp only [serOkFs, Bool.and_eq_true] at hso
      rcases List.mem_cons.mp h with h | h
      · cases h
      · exact defCo_all fs hok.2 hwf.2 hso.2 d n h
  | .boolean :: _, hok, _, _, _, _, _ | .signed _ _ :: _, hok, _, _, _, _, _ | .unsigned _ _ :: _, hok, _, _, _, _, _
  | .byte :: _, hok, _, _, _, _, _ | .utf8 :: _, hok, _, _, _, _, _ | .float _ _ :: _, hok, _, _, _, _, _
  | .void _ :: _, hok, _, _, _, _, _ | .fixedArray _ _ :: _, hok, _, _, _, _, _ | .varArray _ _ _ :: _, hok, _, _, _, _, _
  | .structure _ _ _ :: _, hok, _, _, _, _, _ | .union _ _ _ _ :: _, hok, _, _, _, _, _
  | .delimited _ _ _ _ :: _, hok, _, _, _, _, _ | .service _ _ _ :: _, hok, _, _, _, _, _ => by
      simp [okFs] at hok
end

/-! ### Composites: structures -/

theorem names_mapM : ∀ (fs : List Obj), okFs fs = true →
    List.mapM (fun f => Obj.name f) (List.filter (fun f => !isinstance f Cls.PaddingField) fs) = .ok (fieldNames fs)
  | [], _ => rfl
  | f :: fs, hok => by
      cases f with
      | field d n =>
        simp only [okFs, Bool.and_eq_true] at hok
        rw [List.filter_cons_of_pos (by codec_simp []), List.mapM_cons, names_mapM fs hok.2]
        rfl
      | paddingField d =>
        simp only [okFs, Bool.and_eq_true] at hok
        rw [List.filter_cons_of_neg (by codec_simp []), names_mapM fs hok.2]
        rfl
      | _ => simp [okFs] at hok

/-- `for key in obj.keys(): if key not in valid_fields: raise ValueError` -/
theorem key_check (names : List String) : ∀ (keys : List String) (body : Unit → String → Py.M Unit),
    (∀ u k, body u k = if (!names.contains k) = true then Except.error Err.valueError else Except.ok ()) →
    Py.forEach keys () body = if keys.all (fun k => names.contains k) then .ok () else .error .valueError
  | [], _, _ => rfl
  | k :: keys, body, hb => by
      rw [forEach_cons, hb]
      by_cases hk : names.contains k = true
      · simp only [hk, Bool.not_true, Bool.false_eq_true, if_false, ok_bind, List.all_cons, Bool.true_and]
        exact key_check names keys body hb
      · have hk' : names.contains k = false := by simpa using hk
        simp only [hk', Bool.not_false, if_true, error_bind, List.all_cons, Bool.false_and, Bool.false_eq_true, if_false]

theorem plain_not_sentinel (v : Value) (h : plain v = true) : Value.isSentinel v = false := by
  cases v <;> first | rfl | simp [plain] at h

theorem plain_of_dictLookup {kvs : List (String × Value)} (h : plainDict kvs = true) {n : String} {v : Value}
    (hl : Py.dictLookup n kvs = some v) : plain v = true := by
  induction kvs with
  | nil => cases hl
  | cons a kvs ih =>
    obtain ⟨k, x⟩ := a
    simp only [plainDict, Bool.and_eq_true] at h
    simp only [Py.dictLookup] at hl
    split at hl
    · cases hl; exact h.1
    · exact ih h.2 hl

/-- the model on the fields of a structure: coerce all (looking values up by position), then write all -/
def modelFields (ts : List Ty) (i : Nat) (kvs : List (Nat × Inp)) (w : W) : Except Wire.Err W :=
  match Wire.coerceFields ts i kvs with
  | .ok vs => .ok (encFieldsW ts vs w)
  | .error e => .error e

/-- the body of the field loop of `_serialize_composite` (compared with the generated term by `rfl`) -/
@[reducible] def serFieldBody (m : Nat) (kvs : List (String × Value)) (writer : Gen.WriterS) (field : Obj) : Py.M Gen.WriterS := do
  let t32 ← field.data_type
  let t33 ← t32.alignment_requirement
  let writer ← Gen.BitWriter.align_to writer t33
  if isinstance field Cls.PaddingField = true then do
      let t34 ← field.data_type
      let t35 ← t34.bit_length
      Gen.BitWriter.write_bits writer 0 t35
    else do
      let t36 ← field.name
      let t37 ← (Value.dict kvs).getD t36 Value.sentinel
      if t37.isSentinel = true then do
          let t38 ← field.data_type
          let t39 ← Gen.Codec.default_value t38
          let t40 ← field.data_type
          Gen.Codec.serialize_field_value_rec m writer t40 t39
        else do
          let t40 ← field.data_type
          Gen.Codec.serialize_field_value_rec m writer t40 t37

/-- what the structure loop needs to know about the type of a field -/
def FieldReady (d : Obj) : Prop :=
  isSerData d = true ∧ SGood d ∧ DefCo d ∧ Gen.Codec.default_value d = .ok (defaultOf d)

theorem ser_fields_loop (m : Nat) (fs : List Obj) (hok : okFs fs = true) (hnd : (fieldNames fs).Nodup)
    (kvs : List (String × Value)) (hpk : plainDict kvs = true) :
    ∀ (suf pre : List Obj), fs = pre ++ suf → (∀ d n, Obj.field d n ∈ suf → FieldReady d) → depthFs suf + 1 ≤ m →
      ∀ (w : Gen.WriterS), WInv w →
      WAgree w (Py.forEach suf w (serFieldBody m kvs)) (modelFields (tysOf suf) pre.length (inpDict kvs fs) (toW w))
  | [], _, _, _, _, w, hw => ⟨w, rfl, rfl, hw⟩
  | f :: suf, pre, hfs, hready, hm, w, hw => by
      have hokf : okFs (f :: suf) = true := by
        subst hfs
        clear hready hnd
        induction pre with
        | nil => exact hok
        | cons p pre ih => cases p <;> simp only [List.cons_append, okFs, Bool.and_eq_true, Bool.false_eq_true] at hok <;> exact ih hok.2
      simp only [depthFs] at hm
      have hrec := fun g' hg' => ser_fields_loop m fs hok hnd kvs hpk suf (pre ++ [f]) (by rw [hfs]; simp)
        (fun d n h => hready d n (by simp [h])) (by omega) g' hg'
      simp only [List.length_append, List.length_singleton] at hrec
      have hpos : fs[pre.length]? = some f := by rw [hfs]; simp
      rw [forEach_cons]
      cases f with
      | field d n =>
        simp only [okFs, Bool.and_eq_true, Bool.not_eq_true'] at hokf
        obtain ⟨hsd, hG, hdc, hdv⟩ := hready d n (by simp)
        obtain ⟨g1, a1, a2, a3⟩ := gen_writer_align_to w (tyOf d).align hw
        simp only [depth] at hm
        have hlk := lookupKey_inpDict fs hnd _ d n hpos kvs
        codec_simp [serFieldBody, Obj.data_type, Obj.name, align_ok d hokf.1.1, a1, Value.getD, tysOf, tyOf, modelFields,
          Wire.coerceFields, hokf.1.2, Bool.false_eq_true, hlk]
        cases hl : Py.dictLookup n kvs with
        | none =>
          have hfv := gen_ser_field_value d hsd hG g1 a3 (defaultOf d) hdc.2 m (by omega)
          unfold modelSer at hfv
          rw [hdc.1, a2] at hfv
          obtain ⟨g2, hx, hr, hi⟩ := hfv
          codec_simp [Option.getD, Value.isSentinel, hdv, hx, Option.map_none]
          have h2 := hrec g2 hi
          unfold modelFields at h2
          rw [hr] at h2
          cases hc : Wire.coerceFields (tysOf suf) (pre.length + 1) (inpDict kvs fs) with
          | error e =>
            rw [hc] at h2
            have hx2 : Py.forEach suf g2 (serFieldBody m kvs) = .error (errOf e) := h2
            rw [hx2]; rfl
          | ok vs =>
            rw [hc] at h2
            obtain ⟨g3, hx3, hr3, hi3⟩ := h2
            exact ⟨g3, hx3, by rw [hr3]; simp only [ok_bind, pure_eq_ok, encFieldsW], hi3⟩
        | some v =>
          have hpv := plain_of_dictLookup hpk hl
          have hfv := gen_ser_field_value d hsd hG g1 a3 v hpv m (by omega)
          unfold modelSer at hfv
          rw [a2] at hfv
          codec_simp [Option.getD, plain_not_sentinel v hpv, Option.map_some]
          cases hcv : Wire.coerce (tyOf d) (inpOf v d) with
          | error e =>
            rw [hcv] at hfv
            have hx : Gen.Codec.serialize_field_value_rec m g1 d v = .error (errOf e) := hfv
            simp only [hx, error_bind]; rfl
          | ok cv =>
            rw [hcv] at hfv
            obtain ⟨g2, hx, hr, hi⟩ := hfv
            simp only [hx, ok_bind]
            have h2 := hrec g2 hi
            unfold modelFields at h2
            rw [hr] at h2
            cases hc : Wire.coerceFields (tysOf suf) (pre.length + 1) (inpDict kvs fs) with
            | error e =>
            rw [hc] at h2
            have hx2 : Py.forEach suf g2 (serFieldBody m kvs) = .error (errOf e) := h2
            rw [hx2]; rfl
            | ok vs =>
              rw [hc] at h2
              obtain ⟨g3, hx3, hr3, hi3⟩ := h2
              exact ⟨g3, hx3, by rw [hr3]; simp only [ok_bind, pure_eq_ok, encFieldsW], hi3⟩
      | paddingField d =>
        simp only [okFs, Bool.and_eq_true] at hokf
        obtain ⟨wd, rfl⟩ := void_of d hokf.1.1 hokf.1.2
        obtain ⟨g1, a1, a2, a3⟩ := gen_writer_align_to w (Ty.void wd).align hw
        obtain ⟨g2, e1, e2, e3⟩ := wr_step g1 0 wd a3
        codec_simp [serFieldBody, Obj.data_type, Obj.bit_length, align_ok (.void wd) hokf.1.1, a1, e1, tysOf, tyOf, modelFields,
          Wire.coerceFields, Wire.Ty.isVoid]
        have h2 := hrec g2 e3
        unfold modelFields at h2
        rw [e2, a2] at h2
        cases hc : Wire.coerceFields (tysOf suf) (pre.length + 1) (inpDict kvs fs) with
        | error e =>
          rw [hc] at h2
          have hx2 : Py.forEach suf g2 (serFieldBody m kvs) = .error (errOf e) := h2
          rw [hx2]; rfl
        | ok vs =>
          rw [hc] at h2
          obtain ⟨g3, hx3, hr3, hi3⟩ := h2
          exact ⟨g3, hx3, by rw [hr3]; simp only [ok_bind, pure_eq_ok, encFieldsW, encW], hi3⟩
      | _ => simp [okFs] at hokf

/-- **`_serialize_composite`**, StructureType branch: dict check, unknown keys, fields in order with defaults, final padding -/
theorem gen_ser_structure (fs : List Obj) (a : Nat) (nm : String) (hs : okT (.structure fs a nm) = true)
    (hnd : (fieldNames fs).Nodup) (hready : ∀ d n, Obj.field d n ∈ fs → FieldReady d)
    (w : Gen.WriterS) (hwi : WInv w) (pv : Value) (hp : plain pv = true) (fuel : Nat) (hf : depth (.structure fs a nm) ≤ fuel) :
    WAgree w (Gen.Codec.serialize_composite_rec fuel w (.structure fs a nm) pv)
      (modelSer (tyOf (.structure fs a nm)) (inpOf pv (.structure fs a nm)) (toW w)) := by
  simp only [depth] at hf
  obtain ⟨m, rfl⟩ : ∃ m, fuel = m + 1 := ⟨fuel - 1, by omega⟩
  simp only [okT, Bool.and_eq_true, beq_iff_eq] at hs
  obtain ⟨hfs, rfl⟩ := hs
  cases pv with
  | dict kvs =>
    simp only [plain] at hp
    have hkc := key_check (fieldNames fs) (List.map Prod.fst kvs) _ (fun u k => rfl)
    codec_simp [Gen.Codec.serialize_composite_rec, Obj.fields, Obj.fields_except_padding, Obj.alignment_requirement,
      Value.isinstance, Value.keys, Obj.full_name, names_mapM fs hfs, modelSer, inpOf, strip, fieldsOf, tyOf, Wire.coerce,
      all_isField_inpDict fs hfs]
    rw [hkc, List.all_map]
    by_cases hall : (kvs.all fun kv => (fieldNames fs).contains kv.1) = true
    · have hall' : (List.all kvs ((fun k => (fieldNames fs).contains k) ∘ Prod.fst)) = true := hall
      simp only [hall, hall', if_true, ok_bind]
      have hl := ser_fields_loop m fs hfs hnd kvs hp fs [] rfl hready (by omega) w hwi
      unfold modelFields at hl
      simp only [List.length_nil] at hl
      cases hc : Wire.coerceFields (tysOf fs) 0 (inpDict kvs fs) with
      | error e =>
        rw [hc] at hl
        have hx : Py.forEach fs w (serFieldBody m kvs) = .error (errOf e) := hl
        simp only [hx, error_bind]
        rfl
      | ok vs =>
        rw [hc] at hl
        obtain ⟨g1, hx, hr, hi⟩ := hl
        obtain ⟨g2, a1, a2, a3⟩ := gen_writer_align_to g1 8 hi
        simp only [hx, ok_bind, a1, pure_eq_ok, encW, wrapDelimW]
        exact ⟨g2, rfl, by rw [a2, hr], a3⟩
    · have hall' : (List.all kvs ((fun k => (fieldNames fs).contains k) ∘ Prod.fst)) = false := by
        simpa using hall
      have hall2 : (kvs.all fun kv => (fieldNames fs).contains kv.1) = false := by simpa using hall
      simp only [hall2, hall', Bool.false_eq_true, if_false, error_bind]
      rfl
  | _ =>
    first
      | (simp only [plain, Bool.false_eq_true] at hp; done)
      | (codec_simp [Gen.Codec.serialize_composite_rec, Value.isinstance, modelSer, inpOf, tyOf, Wire.coerce]
         exact rfl)

/-! ### Composites: unions -/

theorem coerceVariant_get : ∀ (ts : List Ty) (i : Nat) (t : Ty) (y : Inp), ts[i]? = some t →
    Wire.coerceVariant ts i y = Wire.coerce t y
  | [], _, _, _, h => by simp at h
  | t0 :: ts, 0, t, y, h => by
      simp only [List.getElem?_cons_zero, Option.some.injEq] at h; subst h; simp only [Wire.coerceVariant]
  | t0 :: ts, i + 1, t, y, h => by
      simp only [List.getElem?_cons_succ] at h
      simp only [Wire.coerceVariant]; exact coerceVariant_get ts i t y h

theorem encVariantW_get : ∀ (ts : List Ty) (i : Nat) (t : Ty) (v : Val) (w : W), ts[i]? = some t →
    encVariantW ts i v w = encW t v w
  | [], _, _, _, _, h => by simp at h
  | t0 :: ts, 0, t, v, w, h => by
      simp only [List.getElem?_cons_zero, Option.some.injEq] at h; subst h; simp only [encVariantW]
  | t0 :: ts, i + 1, t, v, w, h => by
      simp only [List.getElem?_cons_succ] at h
      simp only [encVariantW]; exact encVariantW_get ts i t v w h

/-- every object of the list is a `Field` (a union has no padding) -/
def allFields : List Obj → Bool
  | [] => true
  | .field _ _ :: fs => allFields fs
  | _ :: _ => false

theorem allFields_of_union : ∀ (fs : List Obj), okFs fs = true → Wire.noVoid (tysOf fs) = true → allFields fs = true
  | [], _, _ => rfl
  | f :: fs, hok, hnv => by
      cases f with
      | field d n =>
        simp only [okFs, Bool.and_eq_true] at hok
        simp only [tysOf, Wire.noVoid, Bool.and_eq_true] at hnv
        simp only [allFields]; exact allFields_of_union fs hok.2 hnv.2
      | paddingField d =>
        simp only [okFs, Bool.and_eq_true] at hok
        simp only [tysOf, tyOf, Wire.noVoid, Bool.and_eq_true, Bool.not_eq_true'] at hnv
        rw [hok.1.2] at hnv; exact absurd hnv.1 (by simp)
      | _ => simp [okFs] at hok

/-- the search loop of the union branch (`for idx, f in enumerate(schema.fields): if f.name == key: …; break`, or
    `next((… for idx, f in enumerate(schema.fields) if f.name == key), None)`), whatever it remembers of the hit (`F`: the index, the
    field, or both) -/
theorem search_loop (k : String) {σ : Type} (F : Nat × Obj → σ) : ∀ (fs : List Obj), allFields fs = true → ∀ (j : Nat) (st : σ)
    (body : σ → Nat × Obj → Py.M (Bool × σ)),
    (∀ x y, body x y = (do
      let t14 ← y.2.name
      if (t14 == k) = true then Except.ok (true, F y) else Except.ok (false, x))) →
    Py.forEachB (Py.enumerateFrom j fs) st body =
      .ok (if k ∈ fieldNames fs then F (fieldIdx k fs j, .field (fieldType k fs) k) else st)
  | [], _, j, st, _, _ => by simp [Py.enumerateFrom, Py.forEachB, fieldNames]
  | f :: fs, hall, j, st, body, hb => by
      cases f with
      | field d n =>
        simp only [allFields] at hall
        simp only [Py.enumerateFrom, Py.forEachB, hb, Obj.name, pure_eq_ok, ok_bind, fieldNames, fieldType, fieldIdx, List.mem_cons]
        by_cases hn : (n == k) = true
        · have : n = k := by simpa using hn
          subst this
          simp only [beq_self_eq_true, if_true, ok_bind, true_or]
        · have hne : ¬ k = n := fun e => hn (by simp [e])
          simp only [hn, Bool.false_eq_true, if_false, ok_bind, hne, false_or]
          rw [search_loop k F fs hall (j + 1) st body hb]
      | _ => simp [allFields] at hall

theorem all_names_mapM : ∀ (fs : List Obj), allFields fs = true → ∃ l, List.mapM (fun f => Obj.name f) fs = .ok l
  | [], _ => ⟨[], rfl⟩
  | f :: fs, hall => by
      cases f with
      | field d n =>
        simp only [allFields] at hall
        obtain ⟨l, hl⟩ := all_names_mapM fs hall
        exact ⟨n :: l, by rw [List.mapM_cons, hl]; rfl⟩
      | _ => simp [allFields] at hall

/-- **`_serialize_composite`**, UnionType branch: exactly one entry, known variant, tag, value, padding -/
theorem gen_ser_union (fs : List Obj) (t : Obj) (a : Nat) (nm : String) (hs : okT (.union fs t a nm) = true)
    (hw : (tyOf (.union fs t a nm)).wf = true) (hready : ∀ d n, Obj.field d n ∈ fs → FieldReady d)
    (w : Gen.WriterS) (hwi : WInv w) (pv : Value) (hp : plain pv = true) (fuel : Nat) (hf : depth (.union fs t a nm) ≤ fuel) :
    WAgree w (Gen.Codec.serialize_composite_rec fuel w (.union fs t a nm) pv)
      (modelSer (tyOf (.union fs t a nm)) (inpOf pv (.union fs t a nm)) (toW w)) := by
  simp only [depth] at hf
  obtain ⟨m, rfl⟩ : ∃ m, fuel = m + 1 := ⟨fuel - 1, by omega⟩
  simp only [okT, Bool.and_eq_true, beq_iff_eq] at hs
  obtain ⟨⟨hfs, rfl⟩, ht⟩ := hs
  obtain ⟨c, rfl⟩ := isUnsignedOf_elim ht
  simp only [tyOf, Ty.wf, Bool.and_eq_true] at hw
  have hall := allFields_of_union fs hfs hw.1.1.1.2
  cases pv with
  | dict kvs =>
    rcases kvs with _ | ⟨⟨k, v⟩, _ | ⟨kv2, rest⟩⟩
    · codec_simp [Gen.Codec.serialize_composite_rec, Value.isinstance, Value.len, modelSer, inpOf, inpDict, tyOf, Wire.coerce,
        List.length_nil]
      exact rfl
    · simp only [plain, plainDict, Bool.and_true] at hp
      codec_simp [Gen.Codec.serialize_composite_rec, Obj.fields, Obj.alignment_requirement, Value.isinstance, Value.len,
        Obj.full_name, Obj.tag_field_type, Obj.bit_length, Value.firstKey, Value.keys, Value.getItem, Py.dictLookup,
        List.length_singleton, List.map_cons, List.map_nil, Py.enumerate, modelSer, inpOf, strip, fieldsOf, inpDict, tyOf,
        Wire.coerce, tysOf_length]
      rw [search_loop k _ fs hall 0 _ _ (fun x y => rfl)]
      by_cases hk : k ∈ fieldNames fs
      · have hlt := fieldIdx_lt k fs 0 hk
        simp only [Nat.zero_add] at hlt
        have hget := fieldIdx_get k fs 0 hk
        simp only [Nat.sub_zero] at hget
        have hmem : Obj.field (fieldType k fs) k ∈ fs := List.mem_of_getElem? hget
        obtain ⟨hsd, hG, _, _⟩ := hready _ _ hmem
        have hty : (tysOf fs)[fieldIdx k fs 0]? = some (tyOf (fieldType k fs)) := by
          rw [tysOf_getElem?, hget]; rfl
        have hd : depth (fieldType k fs) ≤ depthFs fs := by
          have := depth_le_depthFs hmem; simpa only [depth] using this
        obtain ⟨g1, e1, e2, e3⟩ := wr_step w (fieldIdx k fs 0) (Wire.tagBits fs.length) hwi
        have hfv := gen_ser_field_value _ hsd hG g1 e3 v hp m (by omega)
        unfold modelSer at hfv
        codec_simp [hk, Option.isNone, Option.isSome, Py.optGet, e1, Obj.data_type, hlt, coerceVariant_get _ _ _ _ hty,
          beq_self_eq_true, assert_true, Py.index, hget]
        cases hcv : Wire.coerce (tyOf (fieldType k fs)) (inpOf v (fieldType k fs)) with
        | error e =>
          rw [hcv] at hfv
          have hx : Gen.Codec.serialize_field_value_rec m g1 (fieldType k fs) v = .error (errOf e) := hfv
          simp only [hx, error_bind]; rfl
        | ok cv =>
          rw [hcv] at hfv
          obtain ⟨g2, hx, hr, hi⟩ := hfv
          obtain ⟨g3, a1, a2, a3⟩ := gen_writer_align_to g2 8 hi
          simp only [hx, ok_bind, a1, pure_eq_ok, encW, wrapDelimW, encVariantW_get _ _ _ _ _ hty]
          exact ⟨g3, rfl, by rw [a2, hr, e2, tysOf_length], a3⟩
      · obtain ⟨l, hl⟩ := all_names_mapM fs hall
        have hni := fieldIdx_notin k fs 0 hk
        simp only [Nat.zero_add] at hni
        codec_simp [hk, Option.isNone, hl, hni, Nat.lt_irrefl, beq_self_eq_true]
        exact rfl
    · codec_simp [Gen.Codec.serialize_composite_rec, Value.isinstance, Value.len, modelSer, inpOf, inpDict, tyOf, Wire.coerce,
        List.length_cons]
      first | exact rfl | (simp; exact rfl)
  | _ =>
    first
      | (simp only [plain, Bool.false_eq_true] at hp; done)
      | (codec_simp [Gen.Codec.serialize_composite_rec, Value.isinstance, modelSer, inpOf, tyOf, Wire.coerce]
         exact rfl)

/-! ### All encoders on all well-formed schema objects -/

theorem isSerData_of (s : Obj) (hs : okT s = true) (hso : serOk s = true) : isSerData s = true := by
  cases s <;> first | rfl | (simp [okT] at hs; done) | (simp [serOk] at hso; done)

mutual
theorem sgood : ∀ (s : Obj), okT s = true → (tyOf s).wf = true → serOk s = true → depth s ≤ Py.recursionLimit → SGood s
  | .boolean, _, hw, _, _ | .signed _ _, _, hw, _, _ | .unsigned _ _, _, hw, _, _ | .byte, _, hw, _, _ | .utf8, _, hw, _, _
  | .void _, _, hw, _, _ => fun w hwi pv hp =>
      ⟨fun _ => gen_serialize_primitive _ rfl hw w hwi pv hp, fun h => by simp [isArrObj] at h, fun h => by simp [isCompObj] at h⟩
  | .float _ _, _, _, hso, _ => by simp [serOk] at hso
  | .fixedArray e cap, hs, hw, hso, hl => fun w hwi pv hp =>
      have he : okT e = true := by simpa only [okT] using hs
      have hwe : (tyOf e).wf = true := by
        simp only [tyOf, Ty.wf, Bool.and_eq_true] at hw; exact hw.1.1.1
      have hse : serOk e = true := by simpa only [serOk] using hso
      have hle : depth e ≤ Py.recursionLimit := by simp only [depth] at hl; omega
      ⟨fun h => by simp [isIntLike] at h,
        fun _ fuel hf => gen_ser_fixedArray e cap hs hw (isSerData_of e he hse) (sgood e he hwe hse hle) w hwi pv hp fuel hf,
        fun h => by simp [isCompObj] at h⟩
  | .varArray e cap l, hs, hw, hso, hl => fun w hwi pv hp =>
      have he : okT e = true := by simp only [okT, Bool.and_eq_true] at hs; exact hs.1
      have hwe : (tyOf e).wf = true := by
        simp only [tyOf, Ty.wf, Bool.and_eq_true] at hw; exact hw.1.1.1
      have hse : serOk e = true := by simpa only [serOk] using hso
      have hle : depth e ≤ Py.recursionLimit := by simp only [depth] at hl; omega
      ⟨fun h => by simp [isIntLike] at h,
        fun _ fuel hf => gen_ser_varArray e cap l hs (isSerData_of e he hse) (sgood e he hwe hse hle) w hwi pv hp fuel hf,
        fun h => by simp [isCompObj] at h⟩
  | .structure fs a n, hs, hw, hso, hl => fun w hwi pv hp =>
      have hfs : okFs fs = true := by simp only [okT, Bool.and_eq_true] at hs; exact hs.1
      have hwf : Wire.wfFields (tysOf fs) = true := by
        simp only [tyOf, Ty.wf, Bool.and_eq_true] at hw; exact hw.1
      have hso' : serOkFs fs = true ∧ (fieldNames fs).Nodup := by
        simpa only [serOk, Bool.and_eq_true, decide_eq_true_eq] using hso
      have hlf : depthFs fs + 1 ≤ Py.recursionLimit := by simp only [depth] at hl; omega
      ⟨fun h => by simp [isIntLike] at h, fun h => by simp [isArrObj] at h,
        fun _ fuel hf => gen_ser_structure fs a n hs hso'.2 (sgood_all fs hfs hwf hso'.1 hlf) w hwi pv hp fuel hf⟩
  | .union fs t a n, hs, hw, hso, hl => fun w hwi pv hp =>
      have hfs : okFs fs = true := by simp only [okT, Bool.and_eq_true] at hs; exact hs.1.1
      have hwf : Wire.wfFields (tysOf fs) = true := by
        simp only [tyOf, Ty.wf, Bool.and_eq_true] at hw; exact hw.1.1.1.1
      have hso' : serOkFs fs = true ∧ (fieldNames fs).Nodup := by
        simpa only [serOk, Bool.and_eq_true, decide_eq_true_eq] using hso
      have hlf : depthFs fs + 1 ≤ Py.recursionLimit := by simp only [depth] at hl; omega
      ⟨fun h => by simp [isIntLike] at h, fun h => by simp [isArrObj] at h,
        fun _ fuel hf => gen_ser_union fs t a n hs hw (sgood_all fs hfs hwf hso'.1 hlf) w hwi pv hp fuel hf⟩
  | .delimited i h x a, hs, hw, hso, hl => fun w hwi pv hp =>
      have hi : okT i = true := (tyOf_delimited i h x a hs).1
      have hsi : serOk i = true := by simpa only [serOk] using hso
      have hli : depth i ≤ Py.recursionLimit := by simp only [depth] at hl; omega
      ⟨fun h => by simp [isIntLike] at h, fun h => by simp [isArrObj] at h,
        fun _ fuel hf => gen_ser_delimited i h x a hs (sgood i hi (wf_inner_of_delimited i h x a hs hw) hsi hli) w hwi pv hp fuel hf⟩
  | .service _ _ _, hs, _, _, _ | .field _ _, hs, _, _, _ | .paddingField _, hs, _, _, _ => by simp [okT] at hs
theorem sgood_all : ∀ (fs : List Obj), okFs fs = true → Wire.wfFields (tysOf fs) = true → serOkFs fs = true →
    depthFs fs + 1 ≤ Py.recursionLimit → ∀ d n, Obj.field d n ∈ fs → FieldReady d
  | [], _, _, _, _, _, _, h => by cases h
  | .field d' n' :: fs, hok, hwf, hso, hl, d, n, h => by
      simp only [okFs, Bool.and_eq_true] at hok
      simp only [tysOf, tyOf, Wire.wfFields, Bool.and_eq_true] at hwf
      simp only [serOkFs, serOk, Bool.and_eq_true] at hso
      simp only [depthFs, depth] at hl
      rcases List.mem_cons.mp h with h | h
      · cases h
        exact ⟨isSerData_of d' hok.1.1 hso.1, sgood d' hok.1.1 hwf.1.1 hso.1 (by omega), defCo d' hok.1.1 hwf.1.1 hso.1,
          gen_default_value d' hok.1.1 hwf.1.1 (by omega)⟩
      · exact sgood_all fs hok.2 hwf.2 hso.2 (by omega) d n h
  | .paddingField d' :: fs, hok, hwf, hso, hl, d, n, h => by
      simp only [okFs, Bool.and_eq_true] at hok
      simp only [tysOf, Wire.wfFields, Bool.and_eq_true] at hwf
      simp only [serOkFs, Bool.and_eq_true] at hso
      simp only [depthFs] at hl
      rcases List.mem_cons.mp h with h | h
      · cases h
      · exact sgood_all fs hok.2 hwf.2 hso.2 (by omega) d n h
  | .boolean :: _, hok, _, _, _, _, _, _ | .signed _ _ :: _, hok, _, _, _, _, _, _ | .unsigned _ _ :: _, hok, _, _, _, _, _, _
  | .byte :: _, hok, _, _, _, _, _, _ | .utf8 :: _, hok, _, _, _, _, _, _ | .float _ _ :: _, hok, _, _, _, _, _, _
  | .void _ :: _, hok, _, _, _, _, _, _ | .fixedArray _ _ :: _, hok, _, _, _, _, _, _ | .varArray _ _ _ :: _, hok, _, _, _, _, _, _
  | .structure _ _ _ :: _, hok, _, _, _, _, _, _ | .union _ _ _ _ :: _, hok, _, _, _, _, _, _
  | .delimited _ _ _ _ :: _, hok, _, _, _, _, _, _ | .service _ _ _ :: _, hok, _, _, _, _, _, _ => by
      simp [okFs] at hok
end

/-! ### `serialize` -/

/-- the generated `serialize` returns the bytes of the model's buffer, or raises the model's error class -/
def SerAgree (x : Py.M (List Nat)) (y : Except Wire.Err W) : Prop :=
  match y with
  | .ok W' => ∃ bytes, x = .ok bytes ∧ IsBytes bytes ∧ bytesToBits bytes = W'.buf
  | .error e => x = .error (errOf e)

theorem serAgree_of_wagree {x : Py.M Gen.WriterS} {y : Except Wire.Err W} {w : Gen.WriterS} (h : WAgree w x y) :
    SerAgree (x >>= fun g => Except.ok g.buffer) y := by
  rcases h.elim with ⟨e, hy, hx⟩ | ⟨g', hy, hx, hi⟩
  · rw [hy, hx]; rfl
  · rw [hy, hx]; exact ⟨g'.buffer, rfl, hi.1, rfl⟩

theorem coerce_inner (t : Ty) (x : Inp) : Wire.coerce t.inner x = Wire.coerce t x := by
  cases t <;> first | rfl | exact coerce_struct_mode _ _ _ _ | exact coerce_union_mode _ _ _ _

theorem winv_empty : WInv ⟨[], 0⟩ := gen_writer_init.2.1

/-- **`serialize`** (strict mode): for every well-formed composite schema object in the domain of the serializer theorems
    (`serOk`), every plain Python value and both values of `with_delimiter_header`, the generated function returns the bytes the
    model's `_BitWriter` driver produces for the coerced value, or raises the exception of the model's error class. -/
theorem gen_serialize (s : Obj) (hs : okT s = true) (hc : isCompObj s = true) (hw : (tyOf s).wf = true) (hso : serOk s = true)
    (hd : depth s ≤ Py.recursionLimit) (pv : Value) (hp : plain pv = true) (hdr : Bool) :
    SerAgree (Gen.Codec.serialize s pv hdr false)
      (if (hdr && !(tyOf s).isDelimited) = true then .error .value
       else modelSer (if hdr = true then tyOf s else (tyOf s).inner) (inpOf pv s) ⟨[], 0⟩) := by
  have hG := sgood s hs hw hso hd
  match s, hs, hc, hw, hso, hd, hG with
  | .structure fs a n, hs, _, hw, hso, hd, hG =>
    have hA := (hG ⟨[], 0⟩ winv_empty pv hp).2.2 rfl Py.recursionLimit hd
    cases hdr with
    | true =>
      codec_simp [Gen.Codec.serialize, tyOf, Wire.Ty.isDelimited]
      exact rfl
    | false =>
      have := serAgree_of_wagree hA
      simp only [tyOf, Wire.Ty.inner] at this ⊢
      codec_simp [Gen.Codec.serialize, Gen.Codec.serialize_composite, Gen.BitWriter.init, Gen.BitWriter.finish, Bool.false_and,
        Bool.false_eq_true]
      exact this
  | .union fs t a n, hs, _, hw, hso, hd, hG =>
    have hA := (hG ⟨[], 0⟩ winv_empty pv hp).2.2 rfl Py.recursionLimit hd
    cases hdr with
    | true =>
      codec_simp [Gen.Codec.serialize, tyOf, Wire.Ty.isDelimited]
      exact rfl
    | false =>
      have := serAgree_of_wagree hA
      simp only [tyOf, Wire.Ty.inner] at this ⊢
      codec_simp [Gen.Codec.serialize, Gen.Codec.serialize_composite, Gen.BitWriter.init, Gen.BitWriter.finish, Bool.false_and,
        Bool.false_eq_true]
      exact this
  | .delimited i h x a, hs, _, hw, hso, hd, hG =>
    obtain ⟨hin, hdl⟩ := inner_delimited i h x a hs
    have hs' := hs
    simp only [okT, Bool.and_eq_true] at hs'
    have hsu := hs'.1.1.2
    cases hdr with
    | true =>
      -- with the header the entry point is the DelimitedType branch of `_serialize_composite` on a fresh writer, whether it spells
      -- that branch out once more (one frame less) or delegates to it
      have key : ∃ F, depth (.delimited i h x a) ≤ F ∧ Gen.Codec.serialize (.delimited i h x a) pv true false =
          (Gen.Codec.serialize_composite_rec F ⟨[], 0⟩ (.delimited i h x a) pv >>= fun g => Except.ok g.buffer) := by
        first
          | (refine ⟨Py.recursionLimit, hd, ?_⟩
             codec_simp [Gen.Codec.serialize, Gen.Codec.serialize_composite, Gen.BitWriter.init, Gen.BitWriter.finish, Obj.inner_type,
               Bool.false_eq_true, Bool.not_true, Bool.and_false, bind_assoc]
             done)
          | (refine ⟨Py.recursionLimit + 1, by omega, ?_⟩
             codec_simp [Gen.Codec.serialize, Gen.Codec.serialize_composite, Gen.BitWriter.init, Gen.BitWriter.finish, Obj.inner_type,
               Obj.delimiter_header_type, Gen.Codec.serialize_composite_rec, Bool.false_eq_true, Bool.not_true, Bool.and_false,
               bind_assoc]
             done)
      obtain ⟨F, hF, heq⟩ := key
      have hA := (hG ⟨[], 0⟩ winv_empty pv hp).2.2 rfl F hF
      have := serAgree_of_wagree hA
      simp only [hdl, Bool.not_true, Bool.and_false, Bool.false_eq_true, if_false, if_true]
      rw [heq]
      exact this
    | false =>
      have hi : okT i = true := hs'.1.1.1
      have hGi := sgood i hi (wf_inner_of_delimited i h x a hs hw) (by simpa only [serOk] using hso)
        (by simp only [depth] at hd; omega)
      have hcomp : isCompObj i = true := by
        cases i <;> simp only [isStructOrUnion, Bool.false_eq_true] at hsu <;> rfl
      have hA := (hGi ⟨[], 0⟩ winv_empty pv hp).2.2 hcomp Py.recursionLimit (by simp only [depth] at hd; omega)
      have := serAgree_of_wagree hA
      rw [← inpOf_delimited pv i h x a hsu] at this
      simp only [Bool.false_and, Bool.false_eq_true, if_false, hin]
      codec_simp [Gen.Codec.serialize, Gen.Codec.serialize_composite, Gen.BitWriter.init, Gen.BitWriter.finish, Obj.inner_type,
        Bool.false_and, Bool.false_eq_true]
      exact this

end Bridge
