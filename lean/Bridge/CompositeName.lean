import Gen.CompositeName
import Model.Rules
import Bridge.Basic
/-!
  Bridge between the name-shape guards GENERATED from `CompositeType.__init__` (`Gen/CompositeName.lean`, rewritten from the
  working tree of /repo on every run: "name cannot be empty", "root namespace is not specified", "name is too long", and the
  split of the full name into components) and the name rule of the model, `Rules.compositeNameOk`.
  `check_name` on every component is a regular-expression check and is tied elsewhere.
-/
set_option linter.unusedSimpArgs false
set_option linter.unusedVariables false
open Rules

namespace Bridge.CompositeName

@[simp] theorem throw_eq {α : Type} (e : Py.Err) : (throw e : Py.M α) = Except.error e := rfl
@[simp] theorem error_bind {α β : Type} (e : Py.Err) (f : α → Py.M β) : (Except.error e >>= f) = Except.error e := rfl

/-- the three guards accept exactly the non-empty names of at most 255 characters that contain a separator;
    every rejection is an `InvalidNameError` -/
theorem check_name_shape_eq (name : String) :
    Gen.CompositeType.check_name_shape name =
      if name.toList ≠ [] ∧ '.' ∈ name.toList ∧ name.length ≤ 255 then .ok () else .error (.other "InvalidNameError") := by
  simp only [Gen.CompositeType.check_name_shape, Py.strIsEmpty, Py.strContainsChar, Py.strLen, ← String.length_toList]
  generalize name.toList = l
  by_cases h1 : l = [] <;> by_cases h2 : '.' ∈ l <;> by_cases h3 : l.length ≤ 255 <;>
    simp [h1, h2, h3, Nat.not_lt.mpr, Nat.not_le.mp, List.length_eq_zero_iff]

theorem check_name_shape_iff (name : String) :
    Gen.CompositeType.check_name_shape name = .ok () ↔ (name.toList ≠ [] ∧ '.' ∈ name.toList ∧ name.length ≤ 255) := by
  rw [check_name_shape_eq]
  split <;> simp_all

/-- `self._name_components = self._name.split(".")` never raises -/
theorem name_components_eq (name : String) :
    Gen.CompositeType.name_components name = .ok ((Py.splitChars '.' name.toList).map String.ofList) := rfl

/-! ### the full name of a list of dot-free components -/

theorem intercalate_dot : ∀ (l : List (List Char)),
    ['.'].intercalate l = match l with
      | [] => []
      | [a] => a
      | a :: b :: r => a ++ '.' :: ['.'].intercalate (b :: r)
  | [] => rfl
  | [a] => by simp [List.intercalate]
  | a :: b :: r => by simp [List.intercalate, List.intersperse]

theorem toList_fullName (comps : List String) : (fullName comps).toList = ['.'].intercalate (comps.map String.toList) := by
  unfold fullName
  rw [String.toList_intercalate]
  rfl

theorem dot_mem_fullName {comps : List String} (h : ∀ c ∈ comps, '.' ∉ c.toList) :
    '.' ∈ (fullName comps).toList ↔ 2 ≤ comps.length := by
  rw [toList_fullName]
  match comps, h with
  | [], _ => simp [List.intercalate]
  | [a], h => rw [List.map_cons, List.map_nil, intercalate_dot]; simpa using h a (by simp)
  | a :: b :: r, _ => rw [List.map_cons, List.map_cons, intercalate_dot]; simp

theorem fullName_ne_nil {comps : List String} (h : 2 ≤ comps.length) : (fullName comps).toList ≠ [] := by
  rw [toList_fullName]
  match comps, h with
  | a :: b :: r, _ => rw [List.map_cons, List.map_cons, intercalate_dot]; simp

/-- Splitting the full name of dot-free components gives the components back: `self._name_components` are the components the
    name was joined from (`DSDLDefinition.__init__` joins, `CompositeType.__init__` splits). -/
theorem splitChars_intercalate : ∀ {l : List (List Char)}, l ≠ [] → (∀ c ∈ l, '.' ∉ c) →
    Py.splitChars '.' (['.'].intercalate l) = l := by
  have nodot : ∀ (a : List Char) (rest : List Char), '.' ∉ a → Py.splitChars '.' (a ++ '.' :: rest) = a :: Py.splitChars '.' rest := by
    intro a rest ha
    induction a with
    | nil => simp [Py.splitChars]
    | cons c cs ih =>
      have hc : c ≠ '.' := fun h => ha (by simp [h])
      have := ih (fun h => ha (by simp [h]))
      simp [Py.splitChars, hc, this]
  have single : ∀ (a : List Char), '.' ∉ a → Py.splitChars '.' a = [a] := by
    intro a ha
    induction a with
    | nil => rfl
    | cons c cs ih =>
      have hc : c ≠ '.' := fun h => ha (by simp [h])
      have := ih (fun h => ha (by simp [h]))
      simp [Py.splitChars, hc, this]
  intro l
  induction l with
  | nil => intro h; exact absurd rfl h
  | cons a r ih =>
    intro _ hall
    cases r with
    | nil => rw [intercalate_dot]; exact single a (hall a (by simp))
    | cons b r =>
      rw [intercalate_dot]
      simp only
      rw [nodot a _ (hall a (by simp)), ih (by simp) (fun c hc => hall c (by simp [hc]))]

/-- The three guards, on the name joined from dot-free components, are the shape part of the model's `compositeNameOk`:
    at least two components (a root namespace is specified) and at most 255 characters. -/
theorem check_name_shape_fullName {comps : List String} (h : ∀ c ∈ comps, '.' ∉ c.toList) :
    Gen.CompositeType.check_name_shape (fullName comps) = .ok () ↔ (2 ≤ comps.length ∧ (fullName comps).length ≤ 255) := by
  rw [check_name_shape_iff, dot_mem_fullName h]
  constructor
  · rintro ⟨_, h2, h3⟩; exact ⟨h2, h3⟩
  · rintro ⟨h2, h3⟩; exact ⟨fullName_ne_nil h2, h2, h3⟩

theorem nodot_of_checkName {c : String} (h : checkName c = true) : '.' ∉ c.toList := by
  unfold checkName at h
  split at h
  · cases h
  · rename_i d rest heq
    simp only [Bool.and_eq_true] at h
    intro hmem
    rw [heq] at hmem
    have := List.all_eq_true.mp h.1.1.2 '.' hmem
    exact absurd this (by decide)

/-- `compositeNameOk` of the model = the generated guards accept the joined name ∧ `check_name` accepts every component -/
theorem compositeNameOk_iff (comps : List String) :
    compositeNameOk comps = true ↔
      (Gen.CompositeType.check_name_shape (fullName comps) = .ok () ∧ comps.all checkName = true) := by
  unfold compositeNameOk
  simp only [Bool.and_eq_true, decide_eq_true_eq]
  constructor
  · rintro ⟨⟨h1, h2⟩, h3⟩
    exact ⟨(check_name_shape_fullName fun c hc => nodot_of_checkName (List.all_eq_true.mp h3 c hc)).mpr ⟨h1, h2⟩, h3⟩
  · rintro ⟨h1, h3⟩
    have := (check_name_shape_fullName fun c hc => nodot_of_checkName (List.all_eq_true.mp h3 c hc)).mp h1
    exact ⟨⟨this.1, this.2⟩, h3⟩

end Bridge.CompositeName
