import Bridge.Layout
import Props.C01
/-!
  Bridge for `DataSchemaBuilder.offset` (the `_offset_` intrinsic; translated into `Gen/Layout.lean` on every run): it picks
  `UnionType` / `StructureType` by the builder's union flag, calls `aggregate_bit_length_sets` and asserts that the result
  is a non-empty set (`len(out) > 0`, a numerical expansion); on constructible fields it returns the model's expression.
-/
set_option linter.unusedSimpArgs false
open Bls Layout

namespace Bridge

theorem blsLen_pos (o : Op) (h : o.wf = true) : 0 < Py.blsLen o := by
  unfold Py.blsLen
  have h1 := (C01.expand_exact o).2.2
  have h2 := C01.den_nonempty o h
  rw [h1]; exact Finset.card_pos.mpr h2

theorem aggStruct_wf (fs : List Ty) (h : ∀ f ∈ fs, f.wf = true) : (aggStruct fs).wf = true := by
  cases fs with
  | nil => simp [aggStruct, Op.wf]
  | cons f fs =>
    simp only [aggStruct]
    exact aggStructFrom_wf fs (fun g hg => bls_wf g (h g (by simp [hg]))) _ (bls_wf f (h f (by simp)))

theorem offset_struct_ok (fs : List Ty) (h : ∀ f ∈ fs, f.wf = true) :
    Gen.DataSchemaBuilder.offset false (fs.map tyI) = .ok (offsetIntrinsic false fs) := by
  have : (fs.map tyI).map (fun f => f) = fs.map tyI := by simp
  simp only [Gen.DataSchemaBuilder.offset, this, Bool.false_eq_true, if_false, aggStruct_ok, ok_bind, Bool.true_and,
    decide_eq_true (blsLen_pos _ (aggStruct_wf fs h)), assert_true, pure_eq_ok, offsetIntrinsic]

theorem aggUnion_wf (fs : List Ty) (h : ∀ f ∈ fs, f.wf = true) (h2 : 2 ≤ fs.length) : (aggUnion fs).wf = true := by
  match fs, h2 with
  | f :: g :: fs, _ =>
    have hm : wfs ((f :: g :: fs).map Ty.bls) = true := wfs_map_bls _ (fun x hx => bls_wf x (h x hx))
    simp [aggUnion, Op.wf, wfs, blsList_eq] at hm ⊢
    exact hm

theorem offset_union_ok (fs : List Ty) (h : ∀ f ∈ fs, f.wf = true) (h2 : 2 ≤ fs.length) (h64 : tagBits fs ≤ 64) :
    Gen.DataSchemaBuilder.offset true (fs.map tyI) = .ok (offsetIntrinsic true fs) := by
  have : (fs.map tyI).map (fun f => f) = fs.map tyI := by simp
  simp only [Gen.DataSchemaBuilder.offset, this, if_true, aggUnion_ok fs h2 h64, ok_bind, Bool.true_and,
    decide_eq_true (blsLen_pos _ (aggUnion_wf fs h h2)), assert_true, pure_eq_ok, offsetIntrinsic]

end Bridge
