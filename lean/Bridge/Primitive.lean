import Gen.Primitive
import Model.Const
import Bridge.Basic
/-!
  Bridge for the value-range kernels of `pydsdl/_serializable/_primitive.py` (translated into `Gen/Primitive.lean` on every run):
  the generated `inclusive_value_range` of signed and unsigned integer types return the model's ranges for every width.
-/
set_option linter.unusedSimpArgs false
namespace Bridge
open Robust

/-! `(1 << n) - 1` and `2 ** n - 1` are the same generated term (`1 << n` is emitted as `2 ^ n`); the model spells it `1 <<< n`. -/

theorem gen_uint_range (n : Nat) : Gen.UnsignedIntegerType.inclusive_value_range n = .ok (Ex.uintRange n) := by
  have h1 : 1 ≤ 2 ^ n := Nat.one_le_two_pow
  unfold Gen.UnsignedIntegerType.inclusive_value_range
  py_simp [Ex.uintRange, Prod.mk.injEq]
  omega

theorem gen_int_range (n : Nat) : Gen.SignedIntegerType.inclusive_value_range n = .ok (Ex.intRange n) := by
  have h1 : 1 ≤ 2 ^ n := Nat.one_le_two_pow
  unfold Gen.SignedIntegerType.inclusive_value_range
  py_simp [Ex.intRange, Prod.mk.injEq]
  omega

end Bridge
