import Gen.Primitive
import Model.Const
import Bridge.Basic
/-!
  Bridge for the value-range kernels of `pydsdl/_serializable/_primitive.py` (translated into `Gen/Primitive.lean` on every run):
  the generated `inclusive_value_range` of signed and unsigned integer types return the model's ranges for every width.
-/
set_option linter.unusedSimpArgs false
namespace Bridge

theorem one_le_shl (n : Nat) : 1 ≤ 1 <<< n := by
  rw [Nat.one_shiftLeft]; exact Nat.one_le_two_pow

theorem gen_uint_range (n : Nat) : Gen.UnsignedIntegerType.inclusive_value_range n = .ok (Ex.uintRange n) := by
  simp only [Gen.UnsignedIntegerType.inclusive_value_range, sub_le (one_le_shl n), ok_bind, pure_eq_ok, Ex.uintRange]
  congr 2
  have := one_le_shl n
  omega

theorem gen_int_range (n : Nat) : Gen.SignedIntegerType.inclusive_value_range n = .ok (Ex.intRange n) := by
  simp only [Gen.SignedIntegerType.inclusive_value_range, sub_le (one_le_shl n), ok_bind, pure_eq_ok, floordiv_pos (show 0 < 2 by omega),
    Ex.intRange]
  have := one_le_shl n
  congr 2 <;> omega

end Bridge
