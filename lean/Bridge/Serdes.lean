import Bridge.Basic
import Gen.Serdes
import Model.BitIO
import Proofs.BitIOReader
/-!
  Bridge for the bit-level writer and reader of `pydsdl/_serdes.py` (`_BitWriter`, `_BitReader`), translated into
  `Gen/Serdes.lean` on every run.

  The generated code works on byte buffers (`List Nat`, every element below 256) and passes the object state explicitly;
  `Model/BitIO.lean` works on the list of the bits of the buffer, least significant bit of each byte first.  `bytesToBits` is
  the representation function; `toW` / `toRd` map a generated state to the model's state.

  * reader: for every state whose data are bytes and whose position is not before its start, every generated method returns
    normally and its result is the model's (`gen_read_bits`, `gen_reader_align_to`, `gen_bounded_subreader`,
    `gen_remaining_bits`), path by path: bit-wise loop = `slowRead`, byte-aligned branch = `fastRead`, limit logic = `readBits`;
  * writer: for every state whose buffer consists of bytes and whose position is not behind the end of the buffer
    (`WInv`; weaker than the model's invariant `W.ok`), `write_bits` / `align_to` return normally, keep `WInv`, and their result is
    the model's -- on all three buffer cases of the byte-aligned branch and on the bit-wise loop.
-/
set_option linter.unusedSimpArgs false
set_option linter.unusedVariables false
open BitIO

namespace Bridge

/-! ### Bytes as bits -/

/-- the bits of a byte buffer, least significant bit of each byte first -/
def bytesToBits (l : List Nat) : List Bool := l.flatMap (natBits 8)

/-- every element is a byte -/
def IsBytes (l : List Nat) : Prop := ∀ b ∈ l, b < 256

@[simp] theorem bytesToBits_nil : bytesToBits [] = [] := rfl

theorem bytesToBits_cons (a : Nat) (l : List Nat) : bytesToBits (a :: l) = natBits 8 a ++ bytesToBits l := by
  simp [bytesToBits]

theorem bytesToBits_append (a b : List Nat) : bytesToBits (a ++ b) = bytesToBits a ++ bytesToBits b := by
  simp [bytesToBits]

@[simp] theorem bytesToBits_length (l : List Nat) : (bytesToBits l).length = 8 * l.length := by
  induction l with
  | nil => rfl
  | cons a l ih => simp only [bytesToBits_cons, List.length_append, natBits_length, ih, List.length_cons]; omega

theorem bytesToBits_take (l : List Nat) (k : Nat) : bytesToBits (l.take k) = (bytesToBits l).take (8 * k) := by
  induction l generalizing k with
  | nil => simp
  | cons a l ih =>
    cases k with
    | zero => simp
    | succ k =>
      have h8 : 8 * (k + 1) = (natBits 8 a).length + 8 * k := by rw [natBits_length]; omega
      rw [List.take_succ_cons, bytesToBits_cons, bytesToBits_cons, ih, h8, List.take_append]
      simp

theorem bytesToBits_drop (l : List Nat) (k : Nat) : bytesToBits (l.drop k) = (bytesToBits l).drop (8 * k) := by
  induction l generalizing k with
  | nil => simp
  | cons a l ih =>
    cases k with
    | zero => simp
    | succ k =>
      have h8 : 8 * (k + 1) = (natBits 8 a).length + 8 * k := by rw [natBits_length]; omega
      rw [List.drop_succ_cons, bytesToBits_cons, ih, h8, List.drop_append]
      simp

theorem natBits_zero_eq (k : Nat) : natBits k 0 = zeros k := natBits_zero_value k

theorem bytesToBits_replicate_zero (k : Nat) : bytesToBits (List.replicate k 0) = zeros (8 * k) := by
  induction k with
  | zero => rfl
  | succ k ih =>
    rw [List.replicate_succ, bytesToBits_cons, ih, natBits_zero_eq]
    simp only [zeros, ← List.replicate_add]
    congr 1; omega

theorem natBits_getD (k a i : Nat) : (natBits k a).getD i false = (decide (i < k) && a.testBit i) := by
  unfold natBits
  by_cases h : i < k
  · simp [List.getD_eq_getElem?_getD, h]
  · simp [List.getD_eq_getElem?_getD, h]

/-- a bit of the buffer is a bit of one of its bytes -/
theorem bitAt_bytesToBits (l : List Nat) (p : Nat) :
    bitAt (bytesToBits l) p = (l.getD (p / 8) 0).testBit (p % 8) := by
  induction l generalizing p with
  | nil => simp [bitAt]
  | cons a l ih =>
    rw [bytesToBits_cons]
    by_cases hp : p < 8
    · have h1 : p / 8 = 0 := by omega
      have h2 : p % 8 = p := by omega
      simp only [bitAt, List.getD_eq_getElem?_getD] at ih ⊢
      rw [List.getElem?_append_left (by rw [natBits_length]; exact hp), h1, h2]
      have := natBits_getD 8 a p
      simp only [List.getD_eq_getElem?_getD, hp, decide_true, Bool.true_and] at this
      simpa using this
    · obtain ⟨q, rfl⟩ : ∃ q, p = 8 + q := ⟨p - 8, by omega⟩
      have h1 : (8 + q) / 8 = q / 8 + 1 := by omega
      have h2 : (8 + q) % 8 = q % 8 := by omega
      have := ih q
      simp only [bitAt, List.getD_eq_getElem?_getD] at this ⊢
      rw [List.getElem?_append_right (by rw [natBits_length]; omega), natBits_length, h1, h2]
      simpa using this

theorem ofBits_natBits (k a : Nat) : ofBits (natBits k a) = a % 2 ^ k := by
  induction k with
  | zero => simp [natBits, ofBits, Nat.mod_one]
  | succ k ih =>
    rw [natBits_succ, ofBits_append, ih, natBits_length]
    have h := Nat.toNat_testBit a k
    have hm : a % 2 ^ (k + 1) = a % 2 ^ k + 2 ^ k * (a / 2 ^ k % 2) := by
      rw [Nat.pow_succ, Nat.mod_mul]
    rw [hm, ← h]
    cases a.testBit k <;> simp [ofBits]

/-- `int.from_bytes(b, "little")` is the value of the bits of `b` -/
theorem ofBits_bytesToBits (l : List Nat) (h : IsBytes l) : ofBits (bytesToBits l) = Py.fromBytesLittle l := by
  induction l with
  | nil => rfl
  | cons a l ih =>
    have ha : a < 256 := h a (by simp)
    rw [bytesToBits_cons, ofBits_append, ofBits_natBits, natBits_length, ih (fun b hb => h b (by simp [hb])),
      Py.fromBytesLittle, Nat.mod_eq_of_lt (by simpa using ha)]
    rfl

theorem isBytes_take {l : List Nat} (h : IsBytes l) (k : Nat) : IsBytes (l.take k) :=
  fun b hb => h b (List.mem_of_mem_take hb)
theorem isBytes_drop {l : List Nat} (h : IsBytes l) (k : Nat) : IsBytes (l.drop k) :=
  fun b hb => h b (List.mem_of_mem_drop hb)
theorem isBytes_append {a b : List Nat} (ha : IsBytes a) (hb : IsBytes b) : IsBytes (a ++ b) := by
  intro x hx; rcases List.mem_append.mp hx with h | h
  · exact ha x h
  · exact hb x h
theorem isBytes_replicate_zero (k : Nat) : IsBytes (List.replicate k 0) := by
  intro x hx; rw [(List.mem_replicate.mp hx).2]; decide

/-! ### PyLib facts -/

theorem index_lt {l : List Nat} {i : Nat} (h : i < l.length) : Py.index l i = .ok l[i] := by
  unfold Py.index; rw [List.getElem?_eq_getElem h]; rfl

theorem divmod_pos {b : Nat} (hb : 0 < b) (a : Nat) : Py.divmod a b = .ok (a / b, a % b) := by
  unfold Py.divmod; rw [if_neg (by omega)]; rfl

def bitNat (b : Bool) : Nat := if b then 1 else 0

theorem shift_and_one (x k : Nat) : (x >>> k) &&& 1 = bitNat (x.testBit k) := by
  rw [Nat.and_one_is_mod, Nat.shiftRight_eq_div_pow, ← Nat.toNat_testBit]; cases x.testBit k <;> rfl

/-- accumulating bits with `result |= bit << i` builds the value of the bit list -/
theorem foldl_or_bits (b : Nat → Bool) (n : Nat) :
    (List.range n).foldl (fun s i => s ||| bitNat (b i) <<< i) 0 = ofBits ((List.range n).map b) := by
  induction n with
  | zero => rfl
  | succ n ih =>
    rw [List.range_succ, List.foldl_append, ih, List.map_append, ofBits_append]
    simp only [List.foldl_cons, List.foldl_nil, List.map_cons, List.map_nil, List.length_map, List.length_range]
    have hlt := ofBits_lt ((List.range n).map b)
    simp only [List.length_map, List.length_range] at hlt
    rw [Nat.or_comm, ← Nat.shiftLeft_add_eq_or_of_lt hlt, Nat.shiftLeft_eq]
    cases b n <;> simp [bitNat, ofBits, Nat.add_comm, Nat.mul_comm]

/-! ### Reader -/

/-- the model's view of a generated reader state -/
def toRd (g : Gen.ReaderS) : Rd := ⟨bytesToBits g.data, g.start_offset, g.bit_offset, g.bit_limit⟩

/-- the same reader `n` bits further -/
def advance (g : Gen.ReaderS) (n : Nat) : Gen.ReaderS := { g with bit_offset := g.bit_offset + n }

/-- what the generated reader needs: the data are bytes, the position is not before the start of the (sub-)reader -/
def RdOk (g : Gen.ReaderS) : Prop := IsBytes g.data ∧ g.start_offset ≤ g.bit_offset

/-- the limit check at the head of `read_bits` lets the request through -/
def Thru (g : Gen.ReaderS) (n : Nat) : Prop :=
  ∀ lim, g.bit_limit = some lim →
    lim - (g.bit_offset - g.start_offset) ≠ 0 ∧ n ≤ lim - (g.bit_offset - g.start_offset)

theorem toRd_advance (g : Gen.ReaderS) (n : Nat) : toRd (advance g n) = { toRd g with off := g.bit_offset + n } := rfl

/-- the bit-wise loop of the generated `read_bits` is the model's -/
theorem read_loop (data : List Nat) (off n : Nat) (body : Nat → Nat → Py.M Nat)
    (hb : ∀ s i, body s i = (if decide ((off + i) / 8 < data.length) = true then do
              let t8 ← Py.index data ((off + i) / 8)
              pure (s ||| (t8 >>> ((off + i) % 8) &&& 1) <<< i)
            else pure (s ||| 0 <<< i))) :
    Py.forEach (Py.range n) 0 body = .ok (ofBits ((List.range n).map fun i => bitAt (bytesToBits data) (off + i))) := by
  rw [forEach_ok (Py.range n) 0 body (fun s i => s ||| bitNat (bitAt (bytesToBits data) (off + i)) <<< i), Py.range, foldl_or_bits]
  intro i _ s
  rw [hb, bitAt_bytesToBits]
  by_cases h : (off + i) / 8 < data.length
  · simp only [h, decide_true, if_true, index_lt h, ok_bind, pure_eq_ok, shift_and_one]
    rw [List.getD_eq_getElem?_getD, List.getElem?_eq_getElem h]; rfl
  · simp only [h, decide_false, Bool.false_eq_true, if_false, pure_eq_ok]
    rw [List.getD_eq_getElem?_getD, List.getElem?_eq_none (by omega)]
    simp [bitNat]

theorem read_slow (fuel : Nat) (g : Gen.ReaderS) (n : Nat) (ht : Thru g n) (hs : g.start_offset ≤ g.bit_offset)
    (hf : ¬ (g.bit_offset % 8 = 0 ∧ n ≥ 8)) :
    Gen.BitReader.read_bits_rec (fuel + 1) g n = .ok ((slowRead (toRd g) n).1, advance g n) := by
  have hc : (g.bit_offset % 8 == 0 && decide (n ≥ 8)) = false := by
    rw [Bool.and_eq_false_iff]; by_cases h : g.bit_offset % 8 = 0
    · right; simp at hf ⊢; exact hf h
    · left; simpa using h
  cases hl : g.bit_limit with
  | none =>
    simp only [Gen.BitReader.read_bits_rec, hl, hc, Bool.false_eq_true, if_false]
    rw [read_loop g.data g.bit_offset n _ (fun s i => rfl)]
    simp only [ok_bind, pure_eq_ok, slowRead, toRd, advance, hl]
  | some lim =>
    obtain ⟨h0, hn⟩ := ht lim hl
    have h1 : (Py.max0Sub lim (g.bit_offset - g.start_offset) == 0) = false := by simpa [Py.max0Sub] using h0
    have h2 : decide (n > Py.max0Sub lim (g.bit_offset - g.start_offset)) = false := by simpa [Py.max0Sub] using hn
    simp only [Gen.BitReader.read_bits_rec, hl, sub_le hs, ok_bind, h1, h2, hc, Bool.false_eq_true, if_false]
    rw [read_loop g.data g.bit_offset n _ (fun s i => rfl)]
    simp only [ok_bind, pure_eq_ok, slowRead, toRd, advance, hl]

theorem thru_step {g : Gen.ReaderS} {n : Nat} (ht : Thru g n) (hs : g.start_offset ≤ g.bit_offset) (hr : 0 < n % 8) :
    Thru (advance g (n / 8 * 8)) (n % 8) := by
  intro lim hl
  obtain ⟨h0, hn⟩ := ht lim hl
  simp only [advance] at *
  constructor <;> omega

/-- the bytes the aligned branch slices out and pads with zeros, seen as bits -/
theorem chunk_bits (data : List Nat) (hd : IsBytes data) (sb fb : Nat) :
    let chunk := Py.slice data sb (sb + fb)
    Py.fromBytesLittle (chunk ++ List.replicate (fb - chunk.length) 0) =
      ofBits (((bytesToBits data).drop (8 * sb)).take (8 * fb) ++
        zeros (8 * fb - (((bytesToBits data).drop (8 * sb)).take (8 * fb)).length)) := by
  intro chunk
  have hc : IsBytes chunk := isBytes_drop (isBytes_take hd _) _
  rw [← ofBits_bytesToBits _ (isBytes_append hc (isBytes_replicate_zero _)), bytesToBits_append, bytesToBits_replicate_zero]
  have e : bytesToBits chunk = ((bytesToBits data).drop (8 * sb)).take (8 * fb) := by
    simp only [chunk, Py.slice, bytesToBits_drop, bytesToBits_take, List.drop_take]
    congr 1; omega
  rw [e]
  congr 3
  have : (((bytesToBits data).drop (8 * sb)).take (8 * fb)).length = 8 * chunk.length := by
    rw [← e, bytesToBits_length]
  omega

/-- the value of the model's aligned branch in terms of the byte chunk of the generated code -/
theorem fast_value (data : List Nat) (hd : IsBytes data) (start off n : Nat) (limit : Option Nat) :
    (fastRead ⟨bytesToBits data, start, off, limit⟩ n).1 =
      if n % 8 > 0 then
        Py.fromBytesLittle (Py.slice data (off / 8) (off / 8 + n / 8) ++
            List.replicate (n / 8 - (Py.slice data (off / 8) (off / 8 + n / 8)).length) 0) |||
          (slowRead ⟨bytesToBits data, start, off + n / 8 * 8, limit⟩ (n % 8)).1 <<< (n / 8 * 8)
      else
        Py.fromBytesLittle (Py.slice data (off / 8) (off / 8 + n / 8) ++
            List.replicate (n / 8 - (Py.slice data (off / 8) (off / 8 + n / 8)).length) 0) := by
  have hcb := chunk_bits data hd (off / 8) (n / 8)
  simp only at hcb
  rw [Nat.mul_comm 8 (n / 8)] at hcb
  unfold fastRead
  simp only [Nat.mul_comm 8 (n / 8)]
  split <;> simp only [hcb]

theorem read_fast_aux (m : Nat) (g : Gen.ReaderS) (n : Nat)
    (hrec : ∀ g' k, Thru g' k → g'.start_offset ≤ g'.bit_offset → ¬ (g'.bit_offset % 8 = 0 ∧ k ≥ 8) →
      Gen.BitReader.read_bits_rec m g' k = .ok ((slowRead (toRd g') k).1, advance g' k))
    (ht : Thru g n) (hs : g.start_offset ≤ g.bit_offset)
    (hd : IsBytes g.data) (ha : g.bit_offset % 8 = 0) (hn8 : n ≥ 8) :
    Gen.BitReader.read_bits_rec (m + 1) g n = .ok ((fastRead (toRd g) n).1, advance g n) := by
  have hc : (g.bit_offset % 8 == 0 && decide (n ≥ 8)) = true := by simp [ha, hn8]
  have hstep : 0 < n % 8 → Gen.BitReader.read_bits_rec m (advance g (n / 8 * 8)) (n % 8) =
      .ok ((slowRead (toRd (advance g (n / 8 * 8))) (n % 8)).1, advance (advance g (n / 8 * 8)) (n % 8)) :=
    fun hr => hrec _ _ (thru_step ht hs hr) (by simp only [advance]; omega) (by omega)
  have hadv : advance (advance g (n / 8 * 8)) (n % 8) = advance g n := by
    simp only [advance, Gen.ReaderS.mk.injEq, true_and, and_true]; omega
  have hadv0 : n % 8 = 0 → advance g (n / 8 * 8) = advance g n := by
    intro h; simp only [advance, Gen.ReaderS.mk.injEq, true_and, and_true]; omega
  obtain ⟨data, start, off, limit⟩ := g
  simp only [advance, toRd] at ha hs hd hc hstep hadv hadv0 ⊢
  have hv := fast_value data hd start off n limit
  have hpre : Gen.BitReader.read_bits_rec (m + 1) ⟨data, start, off, limit⟩ n =
      (if decide ((Py.slice data (off / 8) (off / 8 + n / 8)).length < n / 8) = true then do
        let t5 ← Py.sub (n / 8) (Py.slice data (off / 8) (off / 8 + n / 8)).length
        if decide (n % 8 > 0) = true then do
            let __x ← Gen.BitReader.read_bits_rec m ⟨data, start, off + n / 8 * 8, limit⟩ (n % 8)
            pure (Py.fromBytesLittle (Py.slice data (off / 8) (off / 8 + n / 8) ++ Py.bytesRepeat [0] t5) |||
                    __x.1 <<< (n / 8 * 8), __x.2)
          else
            pure (Py.fromBytesLittle (Py.slice data (off / 8) (off / 8 + n / 8) ++ Py.bytesRepeat [0] t5),
                ⟨data, start, off + n / 8 * 8, limit⟩)
      else
        if decide (n % 8 > 0) = true then do
          let __x ← Gen.BitReader.read_bits_rec m ⟨data, start, off + n / 8 * 8, limit⟩ (n % 8)
          pure (Py.fromBytesLittle (Py.slice data (off / 8) (off / 8 + n / 8)) ||| __x.1 <<< (n / 8 * 8), __x.2)
        else
          pure (Py.fromBytesLittle (Py.slice data (off / 8) (off / 8 + n / 8)), ⟨data, start, off + n / 8 * 8, limit⟩)) := by
    rcases limit with _ | lim
    · simp only [Gen.BitReader.read_bits_rec, hc, if_true, divmod_pos (by decide : 0 < 8), ok_bind]
    · obtain ⟨h0, hn⟩ := ht lim rfl
      have h1 : (Py.max0Sub lim (off - start) == 0) = false := by simpa [Py.max0Sub] using h0
      have h2 : decide (n > Py.max0Sub lim (off - start)) = false := by simpa [Py.max0Sub] using hn
      simp only [Gen.BitReader.read_bits_rec, sub_le hs, ok_bind, h1, h2, Bool.false_eq_true, if_false, hc, if_true,
        divmod_pos (by decide : 0 < 8)]
  rw [hpre]
  by_cases hlen : (Py.slice data (off / 8) (off / 8 + n / 8)).length < n / 8 <;> by_cases hr : n % 8 > 0
  · simp only [hlen, hr, decide_true, if_true, sub_le (Nat.le_of_lt hlen), ok_bind, hstep hr, pure_eq_ok,
      Py.bytesRepeat_zero_byte, hadv] at hv ⊢
    rw [hv]
  · simp only [hlen, hr, decide_true, decide_false, Bool.false_eq_true, if_true, if_false, sub_le (Nat.le_of_lt hlen),
      ok_bind, pure_eq_ok, Py.bytesRepeat_zero_byte, hadv0 (by omega)] at hv ⊢
    rw [hv]
  · have hz : n / 8 - (Py.slice data (off / 8) (off / 8 + n / 8)).length = 0 := by omega
    simp only [hz, List.replicate_zero, List.append_nil] at hv
    simp only [hlen, hr, decide_true, decide_false, Bool.false_eq_true, if_true, if_false, ok_bind, hstep hr, pure_eq_ok,
      hadv] at hv ⊢
    rw [hv]
  · have hz : n / 8 - (Py.slice data (off / 8) (off / 8 + n / 8)).length = 0 := by omega
    simp only [hz, List.replicate_zero, List.append_nil] at hv
    simp only [hlen, hr, decide_false, Bool.false_eq_true, if_false, ok_bind, pure_eq_ok, hadv0 (by omega)] at hv ⊢
    rw [hv]

theorem read_raw (fuel : Nat) (g : Gen.ReaderS) (n : Nat) (ht : Thru g n) (hg : RdOk g) :
    Gen.BitReader.read_bits_rec (fuel + 2) g n = .ok ((rawRead (toRd g) n).1, advance g n) := by
  unfold rawRead
  by_cases hf : g.bit_offset % 8 = 0 ∧ n ≥ 8
  · rw [if_pos (by simpa [toRd] using hf)]
    exact read_fast_aux (fuel + 1) g n (fun g' k => read_slow fuel g' k) ht hg.2 hg.1 hf.1 hf.2
  · rw [if_neg (by simpa [toRd] using hf)]
    exact read_slow (fuel + 1) g n ht hg.2 hf

/-- **`read_bits`**: for every reader whose data are bytes and whose position is not before its start, the generated
    `read_bits` (fuel ≥ 3) returns normally, with the model's value, the reader moved forward by `n`. -/
theorem read_full (fuel : Nat) (g : Gen.ReaderS) (n : Nat) (hg : RdOk g) :
    Gen.BitReader.read_bits_rec (fuel + 3) g n = .ok ((readBits (toRd g) n).1, advance g n) := by
  obtain ⟨hd, hs⟩ := hg
  cases hl : g.bit_limit with
  | none =>
    have ht : Thru g n := fun lim h => by rw [hl] at h; cases h
    rw [read_raw (fuel + 1) g n ht ⟨hd, hs⟩]
    simp only [readBits, toRd, hl]
  | some lim =>
    by_cases h0 : lim - (g.bit_offset - g.start_offset) = 0
    · have h1 : (Py.max0Sub lim (g.bit_offset - g.start_offset) == 0) = true := by simpa [Py.max0Sub] using h0
      simp only [Gen.BitReader.read_bits_rec, hl, sub_le hs, ok_bind, h1, if_true, pure_eq_ok, readBits, toRd, h0, advance]
    · by_cases hn : n > lim - (g.bit_offset - g.start_offset)
      · have h1 : (Py.max0Sub lim (g.bit_offset - g.start_offset) == 0) = false := by simpa [Py.max0Sub] using h0
        have h2 : decide (n > Py.max0Sub lim (g.bit_offset - g.start_offset)) = true := by simpa [Py.max0Sub] using hn
        have ht : Thru g (lim - (g.bit_offset - g.start_offset)) := fun lim' h => by
          rw [hl] at h; cases h; exact ⟨h0, Nat.le_refl _⟩
        have hr := read_raw fuel g _ ht ⟨hd, hs⟩
        have hadv : advance (advance g (lim - (g.bit_offset - g.start_offset))) (n - (lim - (g.bit_offset - g.start_offset)))
            = advance g n := by
          simp only [advance, Gen.ReaderS.mk.injEq, true_and, and_true]; omega
        rw [Gen.BitReader.read_bits_rec]
        simp only [hl, sub_le hs, ok_bind, h1, h2, Bool.false_eq_true, if_false, if_true]
        have hm : Py.max0Sub lim (g.bit_offset - g.start_offset) = lim - (g.bit_offset - g.start_offset) := rfl
        simp only [hm, hr, ok_bind, sub_le (Nat.le_of_lt hn), pure_eq_ok]
        simp only [readBits, toRd, hl, h0, if_false, hn, if_true]
        rw [← hadv]
        rfl
      · have ht : Thru g n := fun lim' h => by
          rw [hl] at h; cases h; exact ⟨h0, by omega⟩
        rw [read_raw (fuel + 1) g n ht ⟨hd, hs⟩]
        simp only [readBits, toRd, hl, h0, if_false, hn]

theorem recursionLimit_eq : Py.recursionLimit = 997 + 3 := rfl

theorem rdOk_advance {g : Gen.ReaderS} (hg : RdOk g) (n : Nat) : RdOk (advance g n) :=
  ⟨hg.1, by simp only [advance]; have := hg.2; omega⟩

/-- **`_BitReader.read_bits`** (generated, started with CPython's recursion limit): returns normally; value and new state are
    the model's. -/
theorem gen_read_bits (g : Gen.ReaderS) (n : Nat) (hg : RdOk g) :
    Gen.BitReader.read_bits g n = .ok ((readBits (toRd g) n).1, advance g n) ∧
      toRd (advance g n) = (readBits (toRd g) n).2 := by
  refine ⟨?_, ?_⟩
  · unfold Gen.BitReader.read_bits; rw [recursionLimit_eq]; exact read_full 997 g n hg
  · rw [(readBits_spec (toRd g) n hg.2).2.1]; rfl

/-- **`_BitReader.align_to`**: for every state -/
theorem gen_reader_align_to (g : Gen.ReaderS) (a : Nat) :
    ∃ k, Gen.BitReader.align_to g a = .ok (advance g k) ∧ toRd (advance g k) = (toRd g).alignTo a := by
  by_cases ha : a = 0
  · refine ⟨0, ?_, ?_⟩
    · subst ha; simp only [Gen.BitReader.align_to, Nat.le_refl, decide_true, if_true, pure_eq_ok, advance, Nat.add_zero]
    · simp only [Rd.alignTo, ha, if_true, advance, Nat.add_zero]
  · have hpos : 0 < a := Nat.pos_of_ne_zero ha
    have h0 : decide (a ≤ 0) = false := by simpa using ha
    by_cases hr : g.bit_offset % a = 0
    · refine ⟨0, ?_, ?_⟩
      · have h1 : (g.bit_offset % a != 0) = false := by simp [hr]
        simp only [Gen.BitReader.align_to, h0, Bool.false_eq_true, if_false, mod_pos hpos, ok_bind, h1, pure_eq_ok, advance,
          Nat.add_zero]
      · simp only [Rd.alignTo, ha, if_false, toRd, hr, ne_eq, not_true_eq_false, advance, Nat.add_zero]
    · refine ⟨a - g.bit_offset % a, ?_, ?_⟩
      · have h1 : (g.bit_offset % a != 0) = true := by simp [hr]
        have hle : g.bit_offset % a ≤ a := Nat.le_of_lt (Nat.mod_lt _ hpos)
        simp only [Gen.BitReader.align_to, h0, Bool.false_eq_true, if_false, mod_pos hpos, ok_bind, h1, if_true, sub_le hle,
          pure_eq_ok, advance]
      · simp only [Rd.alignTo, ha, if_false, toRd, hr, ne_eq, not_false_eq_true, if_true, advance]

/-- **`_BitReader.__init__`** -/
theorem gen_reader_init (data : List Nat) (off : Nat) (lim : Option Nat) :
    Gen.BitReader.init data off lim = .ok ⟨data, off, off, lim⟩ := rfl

/-- **`_BitReader.bounded_subreader`**: for every state; the sub-reader shares the data, starts at the current position and is
    limited to `k` bits; the parent skips them. -/
theorem gen_bounded_subreader (g : Gen.ReaderS) (k : Nat) :
    Gen.BitReader.bounded_subreader g k = .ok (⟨g.data, g.bit_offset, g.bit_offset, some k⟩, advance g k) ∧
      toRd ⟨g.data, g.bit_offset, g.bit_offset, some k⟩ = ((toRd g).sub k).1 ∧ toRd (advance g k) = ((toRd g).sub k).2 :=
  ⟨rfl, rfl, rfl⟩

/-- **`_BitReader.remaining_bits`** -/
theorem gen_remaining_bits (g : Gen.ReaderS) (hs : g.start_offset ≤ g.bit_offset) :
    Gen.BitReader.remaining_bits g = .ok (toRd g).remaining := by
  cases hl : g.bit_limit with
  | none =>
    simp only [Gen.BitReader.remaining_bits, hl, pure_eq_ok, Rd.remaining, toRd, Py.max0Sub, bytesToBits_length,
      Nat.mul_comm]
  | some lim =>
    simp only [Gen.BitReader.remaining_bits, hl, sub_le hs, ok_bind, pure_eq_ok, Rd.remaining, toRd, Py.max0Sub]

theorem gen_reader_bit_offset (g : Gen.ReaderS) : Gen.BitReader.bit_offset g = .ok (toRd g).off := rfl

/-! ### Writer -/

/-- a `for i in range(n)` loop whose body is exception-free under an invariant -/
theorem forEach_range_inv {σ : Type} (n : Nat) (init : σ) (body : σ → Nat → Py.M σ) (f : σ → Nat → σ)
    (P : Nat → σ → Prop) (h0 : P 0 init)
    (hstep : ∀ i, i < n → ∀ s, P i s → body s i = .ok (f s i) ∧ P (i + 1) (f s i)) :
    Py.forEach (Py.range n) init body = .ok ((List.range n).foldl f init) ∧ P n ((List.range n).foldl f init) := by
  induction n with
  | zero => exact ⟨rfl, h0⟩
  | succ n ih =>
    obtain ⟨e, p⟩ := ih (fun i hi s hp => hstep i (by omega) s hp)
    obtain ⟨e2, p2⟩ := hstep n (by omega) _ p
    unfold Py.forEach Py.range at e ⊢
    rw [List.range_succ, List.foldlM_append, e]
    simp only [ok_bind, List.foldlM_cons, List.foldlM_nil, e2, List.foldl_append, List.foldl_cons, List.foldl_nil]
    exact ⟨rfl, p2⟩

/-- `x | (1 << k)` or `x & ~(1 << k)` -/
def setBit (x k : Nat) (b : Bool) : Nat := if b then x ||| 1 <<< k else Py.andNot x (1 <<< k)

theorem testBit_setBit (x k i : Nat) (b : Bool) : (setBit x k b).testBit i = if i = k then b else x.testBit i := by
  unfold setBit
  cases b
  · simp only [Bool.false_eq_true, if_false, Py.testBit_andNot, Nat.one_shiftLeft, Nat.testBit_two_pow]
    by_cases h : i = k
    · simp [h]
    · have : ¬ k = i := fun e => h e.symm
      simp [h, this]
  · simp only [if_true, Nat.testBit_or, Nat.one_shiftLeft, Nat.testBit_two_pow]
    by_cases h : i = k
    · simp [h]
    · have : ¬ k = i := fun e => h e.symm
      simp [h, this]

theorem setBit_lt (x k : Nat) (b : Bool) (hx : x < 256) (hk : k < 8) : setBit x k b < 256 := by
  apply Nat.lt_pow_two_of_testBit (n := 8)
  intro i hi
  rw [testBit_setBit, if_neg (by omega)]
  exact Nat.testBit_lt_two_pow (Nat.lt_of_lt_of_le hx (Nat.pow_le_pow_right (by decide : 2 > 0) hi))

theorem natBits_setBit (x k : Nat) (b : Bool) : natBits 8 (setBit x k b) = (natBits 8 x).set k b := by
  apply List.ext_getElem
  · simp [natBits_length]
  · intro i h1 h2
    simp only [natBits, List.getElem_map, List.getElem_range, List.getElem_set, testBit_setBit]
    by_cases h : i = k
    · simp [h]
    · have : ¬ k = i := fun e => h e.symm
      simp [h, this]

theorem bytesToBits_set (l : List Nat) (idx k : Nat) (hk : k < 8) (b : Bool) :
    bytesToBits (l.set idx (setBit (l.getD idx 0) k b)) = (bytesToBits l).set (8 * idx + k) b := by
  induction l generalizing idx with
  | nil => simp
  | cons a l ih =>
    cases idx with
    | zero =>
      simp only [List.set_cons_zero, bytesToBits_cons, List.getD_cons_zero, Nat.mul_zero, Nat.zero_add]
      rw [natBits_setBit, List.set_append_left _ _ (by rw [natBits_length]; exact hk)]
    | succ idx =>
      simp only [List.set_cons_succ, bytesToBits_cons, List.getD_cons_succ, ih]
      rw [List.set_append_right _ _ (by rw [natBits_length]; omega), natBits_length]
      congr 2; omega

/-- the model's view of a generated writer state -/
def toW (g : Gen.WriterS) : W := ⟨bytesToBits g.buffer, g.bit_offset⟩

/-- what the generated writer needs: the buffer consists of bytes and the position is not behind its end
    (weaker than the model's invariant `W.ok`, see `winv_of_ok`) -/
def WInv (g : Gen.WriterS) : Prop := IsBytes g.buffer ∧ g.bit_offset ≤ 8 * g.buffer.length

theorem setByte_ok {l : List Nat} {i v : Nat} (h : i < l.length) (hv : v < 256) : Py.setByte l i v = .ok (l.set i v) := by
  unfold Py.setByte; rw [if_pos h, if_pos hv]; rfl

/-- one iteration of the bit-wise loop on the byte buffer -/
def stepBuf (buf : List Nat) (pos : Nat) (b : Bool) : List Nat :=
  let buf1 := if pos / 8 ≥ buf.length then buf ++ [0] else buf
  buf1.set (pos / 8) (setBit (buf1.getD (pos / 8) 0) (pos % 8) b)

def stepG (v : Nat) (s : Gen.WriterS) (i : Nat) : Gen.WriterS :=
  ⟨stepBuf s.buffer (s.bit_offset + i) (v.testBit i), s.bit_offset⟩

theorem isBytes_set {l : List Nat} (h : IsBytes l) (i v : Nat) (hv : v < 256) : IsBytes (l.set i v) := by
  intro x hx
  rcases List.mem_or_eq_of_mem_set hx with h1 | h1
  · exact h x h1
  · rw [h1]; exact hv

theorem getD_lt_of_isBytes {l : List Nat} (h : IsBytes l) (i : Nat) : l.getD i 0 < 256 := by
  rw [List.getD_eq_getElem?_getD]
  by_cases hi : i < l.length
  · rw [List.getElem?_eq_getElem hi]; exact h _ (List.getElem_mem hi)
  · rw [List.getElem?_eq_none (by omega)]; decide

theorem stepBuf_spec (buf : List Nat) (pos : Nat) (b : Bool) (hb : IsBytes buf) (hp : pos ≤ 8 * buf.length) :
    IsBytes (stepBuf buf pos b) ∧ pos + 1 ≤ 8 * (stepBuf buf pos b).length ∧
      bytesToBits (stepBuf buf pos b) = slowStep (bytesToBits buf) pos b := by
  have hmod : pos % 8 < 8 := Nat.mod_lt _ (by decide)
  have hdm : 8 * (pos / 8) + pos % 8 = pos := Nat.div_add_mod pos 8
  unfold stepBuf slowStep
  have hl8 : (bytesToBits buf).length / 8 = buf.length := by rw [bytesToBits_length]; omega
  by_cases hge : pos / 8 ≥ buf.length
  · have hb1 : IsBytes (buf ++ [0]) := isBytes_append hb (by intro x hx; simp at hx; omega)
    simp only [hge, if_true, hl8]
    refine ⟨isBytes_set hb1 _ _ (setBit_lt _ _ _ (getD_lt_of_isBytes hb1 _) hmod), ?_, ?_⟩
    · simp only [List.length_set, List.length_append, List.length_singleton]; omega
    · rw [bytesToBits_set _ _ _ hmod, hdm, bytesToBits_append]; rfl
  · simp only [hge, if_false, hl8]
    refine ⟨isBytes_set hb _ _ (setBit_lt _ _ _ (getD_lt_of_isBytes hb _) hmod), ?_, ?_⟩
    · simp only [List.length_set]; omega
    · rw [bytesToBits_set _ _ _ hmod, hdm]

theorem bit_ne_zero (v i : Nat) : (v >>> i &&& 1 != 0) = v.testBit i := by
  rw [shift_and_one]; cases v.testBit i <;> rfl

/-- the body of the bit-wise loop of the generated `write_bits` (compared with the generated term by `rfl` in `write_slow`) -/
@[reducible] def writeBody (v : Nat) (s : Gen.WriterS) (i : Nat) : Py.M Gen.WriterS :=
  if decide ((s.bit_offset + i) / 8 ≥ s.buffer.length) = true then
    if (v >>> i &&& 1 != 0) = true then do
      let t5 ← Py.index (s.buffer ++ [0]) ((s.bit_offset + i) / 8)
      let t6 ← Py.setByte (s.buffer ++ [0]) ((s.bit_offset + i) / 8) (t5 ||| 1 <<< ((s.bit_offset + i) % 8))
      pure ({ buffer := t6, bit_offset := s.bit_offset } : Gen.WriterS)
    else do
      let t7 ← Py.index (s.buffer ++ [0]) ((s.bit_offset + i) / 8)
      let t6 ← Py.setByte (s.buffer ++ [0]) ((s.bit_offset + i) / 8) (Py.andNot t7 (1 <<< ((s.bit_offset + i) % 8)))
      pure { buffer := t6, bit_offset := s.bit_offset }
  else
    if (v >>> i &&& 1 != 0) = true then do
      let t5 ← Py.index s.buffer ((s.bit_offset + i) / 8)
      let t6 ← Py.setByte s.buffer ((s.bit_offset + i) / 8) (t5 ||| 1 <<< ((s.bit_offset + i) % 8))
      pure { buffer := t6, bit_offset := s.bit_offset }
    else do
      let t7 ← Py.index s.buffer ((s.bit_offset + i) / 8)
      let t6 ← Py.setByte s.buffer ((s.bit_offset + i) / 8) (Py.andNot t7 (1 <<< ((s.bit_offset + i) % 8)))
      pure { buffer := t6, bit_offset := s.bit_offset }

/-- it is `stepG`, and cannot raise when the position is not behind the end of the buffer -/
theorem write_step (v : Nat) (s : Gen.WriterS) (i : Nat) (hb : IsBytes s.buffer) (hp : s.bit_offset + i ≤ 8 * s.buffer.length) :
    writeBody v s i = .ok (stepG v s i) := by
  unfold writeBody
  have hmod : (s.bit_offset + i) % 8 < 8 := Nat.mod_lt _ (by decide)
  rw [bit_ne_zero]
  unfold stepG stepBuf
  by_cases hge : (s.bit_offset + i) / 8 ≥ s.buffer.length
  · have hb1 : IsBytes (s.buffer ++ [0]) := isBytes_append hb (by intro x hx; simp at hx; omega)
    have hidx : (s.bit_offset + i) / 8 < (s.buffer ++ [0]).length := by
      simp only [List.length_append, List.length_singleton]; omega
    have hget : (s.buffer ++ [0]).getD ((s.bit_offset + i) / 8) 0 = (s.buffer ++ [0])[(s.bit_offset + i) / 8] := by
      rw [List.getD_eq_getElem?_getD, List.getElem?_eq_getElem hidx]; rfl
    have hlt := getD_lt_of_isBytes hb1 ((s.bit_offset + i) / 8)
    rw [hget] at hlt
    cases hbit : v.testBit i
    · have := setByte_ok hidx (setBit_lt _ _ false hlt hmod)
      simp only [setBit, Bool.false_eq_true, if_false] at this
      simp only [hge, decide_true, if_true, Bool.false_eq_true, if_false, index_lt hidx, ok_bind, this, pure_eq_ok, hget, setBit]
    · have := setByte_ok hidx (setBit_lt _ _ true hlt hmod)
      simp only [setBit, if_true] at this
      simp only [hge, decide_true, if_true, index_lt hidx, ok_bind, this, pure_eq_ok, hget, setBit]
  · have hidx : (s.bit_offset + i) / 8 < s.buffer.length := by omega
    have hget : s.buffer.getD ((s.bit_offset + i) / 8) 0 = s.buffer[(s.bit_offset + i) / 8] := by
      rw [List.getD_eq_getElem?_getD, List.getElem?_eq_getElem hidx]; rfl
    have hlt := getD_lt_of_isBytes hb ((s.bit_offset + i) / 8)
    rw [hget] at hlt
    cases hbit : v.testBit i
    · have := setByte_ok hidx (setBit_lt _ _ false hlt hmod)
      simp only [setBit, Bool.false_eq_true, if_false] at this
      simp only [hge, decide_false, Bool.false_eq_true, if_false, index_lt hidx, ok_bind, this, pure_eq_ok, hget, setBit]
    · have := setByte_ok hidx (setBit_lt _ _ true hlt hmod)
      simp only [setBit, if_true] at this
      simp only [hge, decide_false, Bool.false_eq_true, if_false, if_true, index_lt hidx, ok_bind, this, pure_eq_ok, hget, setBit]

/-- the bit-wise loop: exception-free under `WInv`, and on bits it is the model's loop -/
theorem write_loop (g : Gen.WriterS) (v n : Nat) (hg : WInv g) (body : Gen.WriterS → Nat → Py.M Gen.WriterS)
    (hb : ∀ s i, body s i = writeBody v s i) :
    Py.forEach (Py.range n) g body = .ok ((List.range n).foldl (stepG v) g) ∧
      ((List.range n).foldl (stepG v) g).bit_offset = g.bit_offset ∧ IsBytes ((List.range n).foldl (stepG v) g).buffer ∧
      g.bit_offset + n ≤ 8 * ((List.range n).foldl (stepG v) g).buffer.length ∧
      bytesToBits ((List.range n).foldl (stepG v) g).buffer =
        (List.range n).foldl (fun buf j => slowStep buf (g.bit_offset + j) (v.testBit j)) (bytesToBits g.buffer) := by
  have hbody : body = writeBody v := funext fun s => funext fun i => hb s i
  subst hbody
  exact forEach_range_inv n g (writeBody v) (stepG v)
    (fun i s => s.bit_offset = g.bit_offset ∧ IsBytes s.buffer ∧ g.bit_offset + i ≤ 8 * s.buffer.length ∧
      bytesToBits s.buffer =
        (List.range i).foldl (fun buf j => slowStep buf (g.bit_offset + j) (v.testBit j)) (bytesToBits g.buffer))
    ⟨rfl, hg.1, by have := hg.2; omega, rfl⟩
    (by
      intro i hi s ⟨h1, h2, h3, h4⟩
      obtain ⟨q1, q2, q3⟩ := stepBuf_spec s.buffer (s.bit_offset + i) (v.testBit i) h2 (by omega)
      refine ⟨write_step v s i h2 (by omega), h1, q1, ?_, ?_⟩
      · simp only [stepG]; omega
      · rw [h4, h1] at q3
        simp only [stepG, h1, List.range_succ, List.foldl_append, List.foldl_cons, List.foldl_nil]
        exact q3)

theorem write_slow (fuel : Nat) (g : Gen.WriterS) (v n : Nat) (hg : WInv g) (hf : ¬ (g.bit_offset % 8 = 0 ∧ n ≥ 8)) :
    ∃ g', Gen.BitWriter.write_bits_rec (fuel + 1) g v n = .ok g' ∧ toW g' = slowWrite (toW g) v n ∧ WInv g' := by
  have hc : (g.bit_offset % 8 == 0 && decide (n ≥ 8)) = false := by
    rw [Bool.and_eq_false_iff]; by_cases h : g.bit_offset % 8 = 0
    · right; simp at hf ⊢; exact hf h
    · left; simpa using h
  simp only [Gen.BitWriter.write_bits_rec, hc, Bool.false_eq_true, if_false]
  rw [(write_loop g v n hg _ (fun s i => rfl)).1]
  obtain ⟨h1, h2, h3, h4⟩ := (write_loop g v n hg (writeBody v) (fun s i => rfl)).2
  refine ⟨_, rfl, ?_, ?_⟩
  · simp only [toW, slowWrite, h4, h1]
  · exact ⟨h2, by simp only [h1]; omega⟩

theorem bytesToBits_toBytesLittleAux (k x : Nat) : bytesToBits (Py.toBytesLittleAux k x) = natBits (8 * k) x := by
  induction k generalizing x with
  | zero => rfl
  | succ k ih =>
    have h8 : 8 * (k + 1) = 8 + 8 * k := by omega
    rw [Py.toBytesLittleAux, bytesToBits_cons, ih, h8, natBits_add, Nat.shiftRight_eq_div_pow]
    have : natBits 8 (x % 256) = natBits 8 x := natBits_mod 8 x
    rw [this]

/-- the three buffer cases of the byte-aligned branch of `write_bits` -/
def fastBuf (buf : List Nat) (sb fb : Nat) (data : List Nat) : List Nat :=
  if sb ≥ buf.length then buf ++ List.replicate (sb - buf.length) 0 ++ data
  else if sb + fb ≤ buf.length then Py.setSlice buf sb (sb + fb) data
  else Py.setSlice buf sb buf.length (data.take (buf.length - sb)) ++ data.drop (buf.length - sb)

theorem fastBuf_spec (buf : List Nat) (sb fb : Nat) (data : List Nat) (hb : IsBytes buf) (hd : IsBytes data)
    (hl : data.length = fb) :
    IsBytes (fastBuf buf sb fb data) ∧ sb + fb ≤ (fastBuf buf sb fb data).length ∧
      bytesToBits (fastBuf buf sb fb data) =
        (let bits := bytesToBits buf
         let dbits := bytesToBits data
         let len := bits.length / 8
         if sb ≥ len then bits ++ zeros (8 * (sb - len)) ++ dbits
         else if sb + fb ≤ len then bits.take (8 * sb) ++ dbits ++ bits.drop (8 * (sb + fb))
         else bits.take (8 * sb) ++ dbits.take (8 * (len - sb)) ++ dbits.drop (8 * (len - sb))) := by
  have hl8 : (bytesToBits buf).length / 8 = buf.length := by rw [bytesToBits_length]; omega
  simp only [hl8]
  unfold fastBuf
  by_cases h1 : sb ≥ buf.length
  · simp only [h1, if_true]
    refine ⟨isBytes_append (isBytes_append hb (isBytes_replicate_zero _)) hd, ?_, ?_⟩
    · simp only [List.length_append, List.length_replicate]; omega
    · rw [bytesToBits_append, bytesToBits_append, bytesToBits_replicate_zero]
  · simp only [h1, if_false]
    by_cases h2 : sb + fb ≤ buf.length
    · have e : Py.setSlice buf sb (sb + fb) data = buf.take sb ++ data ++ buf.drop (sb + fb) := by
        unfold Py.setSlice
        have a1 : min sb buf.length = sb := by omega
        have a2 : max sb (min (sb + fb) buf.length) = sb + fb := by omega
        simp only [a1, a2]
      simp only [h2, if_true, e]
      refine ⟨isBytes_append (isBytes_append (isBytes_take hb _) hd) (isBytes_drop hb _), ?_, ?_⟩
      · simp only [List.length_append, List.length_take, List.length_drop]; omega
      · rw [bytesToBits_append, bytesToBits_append, bytesToBits_take, bytesToBits_drop]
    · have e : Py.setSlice buf sb buf.length (data.take (buf.length - sb)) = buf.take sb ++ data.take (buf.length - sb) := by
        unfold Py.setSlice
        have a1 : min sb buf.length = sb := by omega
        have a2 : max sb (min buf.length buf.length) = buf.length := by omega
        simp only [a1, a2, List.drop_length, List.append_nil]
      simp only [h2, if_false, e]
      refine ⟨isBytes_append (isBytes_append (isBytes_take hb _) (isBytes_take hd _)) (isBytes_drop hd _), ?_, ?_⟩
      · simp only [List.length_append, List.length_take, List.length_drop]; omega
      · rw [bytesToBits_append, bytesToBits_append, bytesToBits_take, bytesToBits_take, bytesToBits_drop]

theorem write_fast_aux (m : Nat) (g : Gen.WriterS) (v n : Nat)
    (hrec : ∀ g' v' k, WInv g' → ¬ (g'.bit_offset % 8 = 0 ∧ k ≥ 8) →
      ∃ g'', Gen.BitWriter.write_bits_rec m g' v' k = .ok g'' ∧ toW g'' = slowWrite (toW g') v' k ∧ WInv g'')
    (hg : WInv g) (ha : g.bit_offset % 8 = 0) (hn8 : n ≥ 8) :
    ∃ g', Gen.BitWriter.write_bits_rec (m + 1) g v n = .ok g' ∧ toW g' = fastWrite (toW g) v n ∧ WInv g' := by
  have hc : (g.bit_offset % 8 == 0 && decide (n ≥ 8)) = true := by simp [ha, hn8]
  obtain ⟨buf, off⟩ := g
  obtain ⟨hb, hoff⟩ := hg
  simp only at ha hc hb hoff
  -- the bytes written
  have hsub : Py.sub (1 <<< (n / 8 * 8)) 1 = .ok (2 ^ (n / 8 * 8) - 1) := by
    rw [Nat.one_shiftLeft]; exact sub_le Nat.one_le_two_pow
  have hlt : v % 2 ^ (n / 8 * 8) < 256 ^ (n / 8) := by
    have : (256 : Nat) ^ (n / 8) = 2 ^ (n / 8 * 8) := by
      rw [Nat.mul_comm, Nat.pow_mul]
    rw [this]; exact Nat.mod_lt _ (Nat.two_pow_pos _)
  have hbytes : Py.toBytesLittle (v &&& 2 ^ (n / 8 * 8) - 1) (n / 8) = .ok (Py.toBytesLittleAux (n / 8) (v % 2 ^ (n / 8 * 8))) := by
    rw [Nat.and_two_pow_sub_one_eq_mod]; unfold Py.toBytesLittle; rw [if_pos hlt]; rfl
  generalize hdata : Py.toBytesLittleAux (n / 8) (v % 2 ^ (n / 8 * 8)) = data at hbytes
  have hdl : data.length = n / 8 := by rw [← hdata, Py.toBytesLittleAux_length]
  have hdb : IsBytes data := by rw [← hdata]; exact Py.toBytesLittleAux_lt _ _
  have hdbits : bytesToBits data = natBits (8 * (n / 8)) (v % 2 ^ (8 * (n / 8))) := by
    rw [← hdata, bytesToBits_toBytesLittleAux, Nat.mul_comm (n / 8) 8]
  obtain ⟨f1, f2, f3⟩ := fastBuf_spec buf (off / 8) (n / 8) data hb hdb hdl
  -- the state after the byte-aligned part
  have hg1 : WInv ⟨fastBuf buf (off / 8) (n / 8) data, off + n / 8 * 8⟩ := ⟨f1, by simp only; omega⟩
  have hpre : Gen.BitWriter.write_bits_rec (m + 1) ⟨buf, off⟩ v n =
      (if decide (n % 8 > 0) = true then
        Gen.BitWriter.write_bits_rec m ⟨fastBuf buf (off / 8) (n / 8) data, off + n / 8 * 8⟩ (v >>> (n / 8 * 8)) (n % 8)
      else pure ⟨fastBuf buf (off / 8) (n / 8) data, off + n / 8 * 8⟩) := by
    simp only [Gen.BitWriter.write_bits_rec, hc, if_true, divmod_pos (by decide : 0 < 8), ok_bind, hsub, hbytes]
    unfold fastBuf
    by_cases h1 : off / 8 ≥ buf.length
    · simp only [h1, decide_true, if_true, sub_le h1, ok_bind, Py.bytesRepeat_zero_byte, bind_pure]
    · by_cases h2 : off / 8 + n / 8 ≤ buf.length
      · simp only [h1, h2, decide_true, decide_false, Bool.false_eq_true, if_true, if_false, bind_pure]
      · simp only [h1, h2, decide_false, Bool.false_eq_true, if_false, sub_le (by omega : off / 8 ≤ buf.length), ok_bind,
          bind_pure]
  have hw1 : toW ⟨fastBuf buf (off / 8) (n / 8) data, off + n / 8 * 8⟩ =
      (let w := toW ⟨buf, off⟩
       let fb := n / 8
       let data := natBits (8 * fb) (v % 2 ^ (8 * fb))
       let sb := w.off / 8
       let eb := sb + fb
       let len := w.buf.length / 8
       ⟨if sb ≥ len then w.buf ++ zeros (8 * (sb - len)) ++ data
        else if eb ≤ len then w.buf.take (8 * sb) ++ data ++ w.buf.drop (8 * eb)
        else w.buf.take (8 * sb) ++ data.take (8 * (len - sb)) ++ data.drop (8 * (len - sb)), w.off + 8 * fb⟩) := by
    simp only [toW, f3, hdbits, Nat.mul_comm (n / 8) 8]
    rfl
  rw [hpre]
  by_cases hr : n % 8 > 0
  · obtain ⟨g'', e1, e2, e3⟩ := hrec _ (v >>> (n / 8 * 8)) (n % 8) hg1 (by omega)
    refine ⟨g'', by simp only [hr, decide_true, if_true, e1], ?_, e3⟩
    rw [e2, hw1]
    unfold fastWrite
    simp only [hr, if_true, Nat.mul_comm (n / 8) 8]
  · refine ⟨_, by simp only [hr, decide_false, Bool.false_eq_true, if_false, pure_eq_ok], ?_, hg1⟩
    rw [hw1]
    unfold fastWrite
    simp only [hr, if_false]

/-- **`write_bits`** with fuel ≥ 2: under `WInv` it returns normally, keeps `WInv`, and its result is the model's -/
theorem write_full (fuel : Nat) (g : Gen.WriterS) (v n : Nat) (hg : WInv g) :
    ∃ g', Gen.BitWriter.write_bits_rec (fuel + 2) g v n = .ok g' ∧ toW g' = writeBits (toW g) v n ∧ WInv g' := by
  unfold writeBits
  by_cases hf : g.bit_offset % 8 = 0 ∧ n ≥ 8
  · rw [if_pos (by simpa [toW] using hf)]
    exact write_fast_aux (fuel + 1) g v n (fun g' v' k => write_slow fuel g' v' k) hg hf.1 hf.2
  · rw [if_neg (by simpa [toW] using hf)]
    exact write_slow (fuel + 1) g v n hg hf

/-- **`_BitWriter.write_bits`** (generated, started with CPython's recursion limit) -/
theorem gen_write_bits (g : Gen.WriterS) (v n : Nat) (hg : WInv g) :
    ∃ g', Gen.BitWriter.write_bits g v n = .ok g' ∧ toW g' = writeBits (toW g) v n ∧ WInv g' := by
  unfold Gen.BitWriter.write_bits
  rw [show Py.recursionLimit = 998 + 2 from rfl]
  exact write_full 998 g v n hg

/-- **`_BitWriter.align_to`** -/
theorem gen_writer_align_to (g : Gen.WriterS) (a : Nat) (hg : WInv g) :
    ∃ g', Gen.BitWriter.align_to g a = .ok g' ∧ toW g' = alignTo (toW g) a ∧ WInv g' := by
  by_cases ha : a = 0
  · refine ⟨g, ?_, ?_, hg⟩
    · subst ha; simp only [Gen.BitWriter.align_to, Nat.le_refl, decide_true, if_true, pure_eq_ok]
    · simp only [alignTo, ha, if_true]
  · have hpos : 0 < a := Nat.pos_of_ne_zero ha
    have h0 : decide (a ≤ 0) = false := by simpa using ha
    by_cases hr : g.bit_offset % a = 0
    · refine ⟨g, ?_, ?_, hg⟩
      · have h1 : (g.bit_offset % a != 0) = false := by simp [hr]
        simp only [Gen.BitWriter.align_to, h0, Bool.false_eq_true, if_false, mod_pos hpos, ok_bind, h1, pure_eq_ok]
      · simp only [alignTo, ha, if_false, toW, hr, ne_eq, not_true_eq_false]
    · obtain ⟨g', e1, e2, e3⟩ := gen_write_bits g 0 (a - g.bit_offset % a) hg
      refine ⟨g', ?_, ?_, e3⟩
      · have h1 : (g.bit_offset % a != 0) = true := by simp [hr]
        have hle : g.bit_offset % a ≤ a := Nat.le_of_lt (Nat.mod_lt _ hpos)
        simp only [Gen.BitWriter.align_to, h0, Bool.false_eq_true, if_false, mod_pos hpos, ok_bind, h1, if_true, sub_le hle,
          e1, pure_eq_ok]
      · rw [e2]; simp only [alignTo, ha, if_false, toW, hr, ne_eq, not_false_eq_true, if_true]

/-- **`_BitWriter.__init__`**: the empty writer satisfies the generated code's and the model's invariant -/
theorem gen_writer_init :
    Gen.BitWriter.init = .ok ⟨[], 0⟩ ∧ WInv ⟨[], 0⟩ ∧ toW ⟨[], 0⟩ = ⟨[], 0⟩ ∧ (toW ⟨[], 0⟩).ok = true :=
  ⟨rfl, And.intro (fun _ h => nomatch h) (Nat.le_refl _), rfl, by decide⟩

/-- **`_BitWriter.finish`** returns the buffer, whose bits are the model's buffer -/
theorem gen_finish (g : Gen.WriterS) : Gen.BitWriter.finish g = .ok g.buffer ∧ bytesToBits g.buffer = (toW g).buf :=
  ⟨rfl, rfl⟩

theorem gen_writer_bit_offset (g : Gen.WriterS) : Gen.BitWriter.bit_offset g = .ok (toW g).off := rfl

/-- the model's writer invariant (buffer = written bits zero-padded to a byte) implies the generated code's -/
theorem winv_of_ok (g : Gen.WriterS) (hb : IsBytes g.buffer) (h : (toW g).ok = true) : WInv g := by
  have := ((ok_iff (toW g)).mp h).2
  simp only [toW, bytesToBits_length] at this
  exact ⟨hb, this⟩
end Bridge
