import Gen.FileName
import Model.Namespace
import Bridge.Basic
/-!
  Bridge between the file-name rules GENERATED from `pydsdl/_dsdl_definition.py` (`Gen/FileName.lean`, rewritten from the
  working tree of /repo on every run: `_parse_decimal` and the slice of `DSDLDefinition.__init__` from the check of the root
  directory name to `self._name`) and the model `Ns.parseFileName` / `Ns.mkDef` of `Model/Namespace.lean`.
-/
set_option linter.unusedSimpArgs false
set_option linter.unusedVariables false
open Ns

namespace Bridge.FileName

@[simp] theorem throw_eq {α : Type} (e : Py.Err) : (throw e : Py.M α) = Except.error e := rfl
@[simp] theorem error_bind {α β : Type} (e : Py.Err) (f : α → Py.M β) : (Except.error e >>= f) = Except.error e := rfl

/-! ### PyLib string primitives against the model's list functions -/

theorem splitChars_dot (s : List Char) : Py.splitChars '.' s = splitDots s := by
  induction s with
  | nil => rfl
  | cons c cs ih =>
    simp only [Py.splitChars, splitDots, ih]
    split
    · rfl
    · cases splitDots cs <;> rfl

theorem strContainsChar_dot (s : String) : Py.strContainsChar s '.' = hasDot s := by
  unfold Py.strContainsChar hasDot
  exact Eq.refl _

theorem dropWhile_id {p : Char → Bool} : ∀ {l : List Char}, (∀ c ∈ l, p c = false) → l.dropWhile p = l
  | [], _ => rfl
  | c :: r, h => by simp [List.dropWhile, h c (by simp)]

theorem digit_not_space {c : Char} (h : c.isDigit = true) : Py.isSpaceAscii c = false := by
  simp only [Char.isDigit, Bool.and_eq_true, decide_eq_true_eq] at h
  simp only [Py.isSpaceAscii, Bool.or_eq_false_iff, decide_eq_false_iff_not]
  have e : ∀ d : Char, c = d → c.val = d.val := fun d h => by rw [h]
  refine ⟨⟨⟨⟨⟨?_, ?_⟩, ?_⟩, ?_⟩, ?_⟩, ?_⟩ <;> intro hc <;> have := e _ hc <;> rw [this] at h <;> revert h <;> decide

theorem digit_ascii {c : Char} (h : c.isDigit = true) : Py.isAsciiChar c = true := by
  simp only [Char.isDigit, Bool.and_eq_true, decide_eq_true_eq] at h
  simp only [Py.isAsciiChar, decide_eq_true_eq]
  exact Nat.lt_of_le_of_lt (UInt32.le_iff_toNat_le.mp h.2) (by decide)

theorem stripAscii_digits {l : List Char} (h : l.all Char.isDigit = true) : Py.stripAscii l = l := by
  have hl : ∀ c ∈ l, Py.isSpaceAscii c = false := fun c hc => digit_not_space (List.all_eq_true.mp h c hc)
  unfold Py.stripAscii
  rw [dropWhile_id hl, dropWhile_id (fun c hc => hl c (List.mem_reverse.mp hc)), List.reverse_reverse]

theorem intSign_digits {l : List Char} (h : l.all Char.isDigit = true) : Py.intSign l = (false, l) := by
  cases l with
  | nil => rfl
  | cons c r =>
    have hc : c.isDigit = true := List.all_eq_true.mp h c (by simp)
    have h1 : c ≠ '-' := by rintro rfl; exact absurd hc (by decide)
    have h2 : c ≠ '+' := by rintro rfl; exact absurd hc (by decide)
    simp [Py.intSign, h1, h2]

theorem intDigits_digits : ∀ (l : List Char) (prev : Bool) (acc k : Nat), l.all Char.isDigit = true → l ≠ [] →
    Py.intDigits l prev acc k = some (Nat.ofDigitChars 10 l acc, k + l.length)
  | [], _, _, _, _, h => absurd rfl h
  | [c], prev, acc, k, hd, _ => by
    have hc : c.isDigit = true := by simpa using hd
    simp [Py.intDigits, hc, Nat.ofDigitChars]
  | c :: d :: r, prev, acc, k, hd, _ => by
    have hc : c.isDigit = true := List.all_eq_true.mp hd c (by simp)
    have hr : (d :: r).all Char.isDigit = true := by
      rw [List.all_cons] at hd; exact (Bool.and_eq_true _ _ ▸ hd).2
    rw [Py.intDigits, if_pos hc, intDigits_digits (d :: r) true _ _ hr (by simp)]
    simp [Nat.ofDigitChars, Nat.add_assoc, Nat.add_comm]

/-- `int(s)` on a plain decimal numeral: its value, unless CPython's digit limit refuses it -/
theorem intOfStr_digits {s : String} (h : isDigits s.toList = true) :
    Py.intOfStr s = if s.toList.length > Py.intMaxStrDigits then .error .valueError
      else .ok (Nat.ofDigitChars 10 s.toList 0 : Nat) := by
  simp only [isDigits, Bool.and_eq_true, Bool.not_eq_true', List.isEmpty_eq_false_iff] at h
  obtain ⟨hne, hall⟩ := h
  have hasc : Py.strIsascii s = true := by
    unfold Py.strIsascii
    exact List.all_eq_true.mpr fun c hc => digit_ascii (List.all_eq_true.mp hall c hc)
  unfold Py.intOfStr
  simp only [hasc, Bool.not_true, Bool.false_eq_true, if_false, stripAscii_digits hall, intSign_digits hall,
    intDigits_digits _ false 0 0 hall hne, Nat.zero_add]
  split <;> rfl

/-- `_parse_decimal` as generated: plain ASCII decimal numerals, everything else (and over-long numerals) is a `ValueError` -/
theorem parse_decimal_eq (s : String) :
    Gen.parse_decimal s = if isDigits s.toList = true ∧ s.toList.length ≤ Py.intMaxStrDigits
      then .ok (Nat.ofDigitChars 10 s.toList 0 : Nat) else .error .valueError := by
  unfold Gen.parse_decimal
  by_cases hasc : Py.strIsascii s = true
  · by_cases hd : isDigits s.toList = true
    · have hd' : (!s.toList.isEmpty && s.toList.all Char.isDigit) = true := hd
      simp only [hasc, if_true, Py.strIsdigit, hd', pure_eq_ok, ok_bind, Bool.not_true, Bool.false_eq_true, if_false,
        intOfStr_digits hd, hd, true_and]
      by_cases hl : s.toList.length > Py.intMaxStrDigits
      · simp [hl, Nat.not_le.mpr hl]
      · simp [hl, Nat.not_lt.mp hl]
    · have hd' : (!s.toList.isEmpty && s.toList.all Char.isDigit) = false := by simpa [isDigits] using hd
      simp [hasc, Py.strIsdigit, hd', hd]
  · have hd : ¬ isDigits s.toList = true := by
      intro hd
      simp only [isDigits, Bool.and_eq_true] at hd
      exact hasc (List.all_eq_true.mpr fun c hc => digit_ascii (List.all_eq_true.mp hd.2 c hc))
    simp [hasc, hd]

/-! ### `DSDLDefinition.__init__` -/

/-- a checking loop: the first element on which the body raises decides -/
theorem forEach_check {α : Type} (l : List α) (p : α → Bool) (e : Py.Err) (body : Unit → α → Py.M Unit)
    (h : ∀ x, body () x = if p x then .error e else .ok ()) :
    Py.forEach l () body = if l.any p then .error e else .ok () := by
  unfold Py.forEach
  induction l with
  | nil => rfl
  | cons a l ih =>
    rw [List.foldlM_cons, h a]
    by_cases hp : p a = true
    · simp [hp]
    · simp only [hp, Bool.false_eq_true, if_false, ok_bind, List.any_cons, Bool.false_or]
      simpa using ih

/-- `_parse_decimal` as a function on a component of the base name: plain ASCII decimal numerals of at most 4300 digits
    (CPython's conversion limit; the model's `parseNat` has no such limit) -/
def decimal (p : List Char) : Option Nat :=
  if isDigits p = true ∧ p.length ≤ Py.intMaxStrDigits then some (Nat.ofDigitChars 10 p 0) else none

theorem decimal_eq_parseNat {p : List Char} (hp : p.length ≤ Py.intMaxStrDigits) : decimal p = parseNat p := by
  unfold decimal parseNat
  by_cases hd : isDigits p = true <;> simp [hd, hp]

theorem parse_decimal_comp (p : List Char) :
    Gen.parse_decimal (String.ofList p) = match decimal p with
      | some n => .ok (n : Int)
      | none => .error .valueError := by
  rw [parse_decimal_eq, String.toList_ofList]
  unfold decimal
  split <;> rfl

def fnfe {α : Type} : Py.M α := .error (.other "FileNameFormatError")

/-- What the generated slice of `DSDLDefinition.__init__` computes, for every root directory name, base name and list of
    namespace directories (no hypothesis: any text, ASCII or not, of any length). -/
def initSpec (root basename : String) (parts : List String) : Py.M FileNameI :=
  if hasDot root then fnfe
  else match (splitDots basename.toList).dropLast with
    | [p, n, ma, mi] =>
      match decimal p, decimal ma, decimal mi with
      | some p, some ma, some mi =>
        if parts.any hasDot then fnfe else .ok ⟨joinDots (parts ++ [String.ofList n]), ma, mi, some (p : Int)⟩
      | _, _, _ => fnfe
    | [n, ma, mi] =>
      match decimal ma, decimal mi with
      | some ma, some mi => if parts.any hasDot then fnfe else .ok ⟨joinDots (parts ++ [String.ofList n]), ma, mi, none⟩
      | _, _ => fnfe
    | _ => fnfe

theorem tryExcept_ok {α : Type} (a : α) (c : Py.Err → Bool) (h : Py.M α) : Py.tryExcept (.ok a) c h = .ok a := rfl
theorem tryExcept_valueError {α : Type} (h : Py.M α) : Py.tryExcept (.error .valueError) Py.Err.isValueError h = h := rfl

theorem strSplit_dropLast (fname : String) :
    (Py.strSplitChar fname '.').dropLast = (splitDots fname.toList).dropLast.map String.ofList := by
  rw [Py.strSplitChar, splitChars_dot, List.map_dropLast]

/-- The slice of `DSDLDefinition.__init__` as generated, characterised for all inputs. -/
theorem init_eq_spec (root basename : String) (parts : List String) :
    Gen.DSDLDefinition.init root basename parts = initSpec root basename parts := by
  have loop : ∀ l : List String, Py.forEach l () (fun x nc =>
      if hasDot nc = true then Except.error (Py.Err.other "FileNameFormatError") else Except.ok ()) =
        if l.any hasDot then .error (.other "FileNameFormatError") else .ok () := fun l =>
    forEach_check l hasDot _ _ fun x => rfl
  simp only [Gen.DSDLDefinition.init, initSpec, strContainsChar_dot, strSplit_dropLast]
  by_cases hr : hasDot root = true
  · simp [hr, fnfe]
  · generalize (splitDots basename.toList).dropLast = comps
    have hr' : hasDot root = false := by simpa using hr
    -- one normal form per shape of the component list: every primitive unfolded, every numeral decided, then `simp`
    match comps with
    | [] => simp [hr', fnfe, Py.unpack2, Py.unpack3, Py.unpack4, Py.index]
    | [a] => simp [hr', fnfe, Py.unpack2, Py.unpack3, Py.unpack4, Py.index]
    | [a, b] => simp [hr', fnfe, Py.unpack2, Py.unpack3, Py.unpack4, Py.index]
    | [n, ma, mi] =>
      cases hma : decimal ma <;> cases hmi : decimal mi <;> by_cases hs : parts.any hasDot = true <;>
        simp [hr', Py.unpack2, Py.unpack3, Py.unpack4, Py.index, parse_decimal_comp, hma, hmi, fnfe, tryExcept_ok, tryExcept_valueError,
          hs, loop, Py.strJoin, joinDots]
    | [p, n, ma, mi] =>
      cases hp : decimal p <;> cases hma : decimal ma <;> cases hmi : decimal mi <;> by_cases hs : parts.any hasDot = true <;>
        simp [hr', Py.unpack2, Py.unpack3, Py.unpack4, Py.index, parse_decimal_comp, hp, hma, hmi, fnfe, tryExcept_ok,
          tryExcept_valueError, hs, loop, Py.strJoin, joinDots]
    | a :: b :: c :: d :: f :: r => simp [hr', fnfe, Py.unpack2, Py.unpack3, Py.unpack4, Py.index]

/-! ### ... against the model -/

/-- the model's definition object in the vocabulary of the generated code -/
def ofDef (d : Def) : FileNameI := ⟨d.name, d.major, d.minor, d.fpid.map Int.ofNat⟩

/-- every rejection of the model is a `FileNameFormatError` of the library -/
def expected : Except Ns.Err Def → Py.M FileNameI
  | .ok d => .ok (ofDef d)
  | .error _ => fnfe

/-- `self._root_namespace_path.name` -/
def rootNameOf (e : FileEntry) : String := e.dir.getLast?.getD ""

/-- The slice of `DSDLDefinition.__init__` as generated computes exactly the model's `mkDef`: the same name, version and
    port-ID, and a `FileNameFormatError` wherever the model rejects.  (`hlen`: no component beyond CPython's conversion limit
    of 4300 digits; file systems limit a base name to 255 bytes.) -/
theorem init_eq_mkDef (tgt : Bool) (e : FileEntry)
    (hlen : ∀ p ∈ (splitDots e.fname.toList).dropLast, p.length ≤ Py.intMaxStrDigits) :
    Gen.DSDLDefinition.init (rootNameOf e) e.fname (rootNameOf e :: e.sub) = expected (mkDef tgt e) := by
  rw [init_eq_spec]
  simp only [initSpec, mkDef, parseFileName] at hlen ⊢
  by_cases hr : hasDot (rootNameOf e) = true
  · simp [hr, expected, rootNameOf] at hr ⊢
  · generalize (splitDots e.fname.toList).dropLast = comps at *
    have hr' : hasDot (rootNameOf e) = false := by simpa using hr
    have hr'' : hasDot (e.dir.getLast?.getD "") = false := hr'
    simp only [hr', hr'', Bool.false_eq_true, if_false, List.any_cons, Bool.false_or]
    match comps, hlen with
    | [], _ => simp [expected]
    | [a], _ => simp [expected]
    | [a, b], _ => simp [expected]
    | [n, ma, mi], hlen =>
      dsimp only
      rw [decimal_eq_parseNat (hlen ma (by simp)), decimal_eq_parseNat (hlen mi (by simp))]
      cases parseNat ma <;> cases parseNat mi <;> by_cases hs : e.sub.any hasDot = true <;> simp [expected, hs, hr', hr'', ofDef, fnfe, rootNameOf]
    | [p, n, ma, mi], hlen =>
      dsimp only
      rw [decimal_eq_parseNat (hlen p (by simp)), decimal_eq_parseNat (hlen ma (by simp)), decimal_eq_parseNat (hlen mi (by simp))]
      cases parseNat p <;> cases parseNat ma <;> cases parseNat mi <;> by_cases hs : e.sub.any hasDot = true <;>
        simp [expected, hs, hr', hr'', ofDef, fnfe, rootNameOf]
    | a :: b :: c :: d :: f :: r, _ => simp [expected]

theorem length_le_of_mem_splitDots : ∀ {s p : List Char}, p ∈ splitDots s → p.length ≤ s.length
  | [], p, h => by simp [splitDots] at h; simp [h]
  | c :: cs, p, h => by
    simp only [splitDots] at h
    split at h
    · rcases List.mem_cons.mp h with rfl | h
      · simp
      · exact Nat.le_succ_of_le (length_le_of_mem_splitDots h)
    · split at h
      · rename_i q qs hq
        rcases List.mem_cons.mp h with rfl | h
        · have := length_le_of_mem_splitDots (s := cs) (p := q) (by rw [hq]; simp)
          simp; omega
        · exact Nat.le_succ_of_le (length_le_of_mem_splitDots (by rw [hq]; simp [h]))
      · rcases List.mem_singleton.mp h with rfl
        simp

/-- ... in particular for every base name of at most 4300 characters -/
theorem init_eq_mkDef_of_length (tgt : Bool) (e : FileEntry) (hlen : e.fname.length ≤ 4300) :
    Gen.DSDLDefinition.init (rootNameOf e) e.fname (rootNameOf e :: e.sub) = expected (mkDef tgt e) :=
  init_eq_mkDef tgt e fun p hp => by
    have := length_le_of_mem_splitDots (List.mem_of_mem_dropLast hp)
    rw [String.length_toList] at this
    exact Nat.le_trans this hlen

/-! ### consequences of the characterisation -/

theorem parseNat_of_decimal {p : List Char} {n : Nat} (h : decimal p = some n) : parseNat p = some n := by
  unfold decimal at h
  split at h
  · rename_i hc; unfold parseNat; rw [if_pos hc.1]; exact h
  · cases h

theorem decimal_none_of_not_digits {p : List Char} (h : isDigits p = false) : decimal p = none := by
  unfold decimal; simp [h]

/-- the components of a base name that must be numerals: `[port-id,] major, minor` -/
def numeralParts (basename : String) : List (List Char) :=
  match (splitDots basename.toList).dropLast with
  | [p, _, ma, mi] => [p, ma, mi]
  | [_, ma, mi] => [ma, mi]
  | _ => []

/-- either a value or `FileNameFormatError` -/
theorem initSpec_total (root basename : String) (parts : List String) :
    (∃ v, initSpec root basename parts = .ok v) ∨ initSpec root basename parts = fnfe := by
  unfold initSpec
  repeat' split
  all_goals first | exact Or.inr rfl | exact Or.inl ⟨_, rfl⟩

/-- an accepted path: no separator in a directory name, the base name has the model's shape, and the result carries exactly
    the components of the base name -/
theorem initSpec_ok {root basename : String} {parts : List String} {v : FileNameI} (h : initSpec root basename parts = .ok v) :
    hasDot root = false ∧ parts.any hasDot = false ∧ ∃ fn, parseFileName basename.toList = .ok fn ∧
      v = ⟨joinDots (parts ++ [String.ofList fn.short]), fn.major, fn.minor, fn.pid.map Int.ofNat⟩ := by
  unfold initSpec at h
  unfold parseFileName
  split at h
  · cases h
  · rename_i hr
    refine ⟨by simpa using hr, ?_⟩
    split at h
    · rename_i p n ma mi hc
      split at h
      · rename_i pv mav miv h0 h1 h2
        split at h
        · cases h
        · rename_i hs
          cases h
          refine ⟨by simpa using hs, ⟨some pv, n, mav, miv⟩, ?_, rfl⟩
          rw [hc]
          simp [parseNat_of_decimal h0, parseNat_of_decimal h1, parseNat_of_decimal h2]
      · cases h
    · rename_i n ma mi hc
      split at h
      · rename_i mav miv h1 h2
        split at h
        · cases h
        · rename_i hs
          cases h
          refine ⟨by simpa using hs, ⟨none, n, mav, miv⟩, ?_, rfl⟩
          rw [hc]
          simp [parseNat_of_decimal h1, parseNat_of_decimal h2]
      · cases h
    · cases h

theorem initSpec_bad_count {root basename : String} {parts : List String}
    (h3 : (splitDots basename.toList).dropLast.length ≠ 3) (h4 : (splitDots basename.toList).dropLast.length ≠ 4) :
    initSpec root basename parts = fnfe := by
  unfold initSpec
  split
  · rfl
  · split
    · rename_i hc; rw [hc] at h4; exact absurd rfl h4
    · rename_i hc; rw [hc] at h3; exact absurd rfl h3
    · rfl

theorem initSpec_bad_numeral {root basename : String} {parts : List String} {p : List Char}
    (hp : p ∈ numeralParts basename) (hd : isDigits p = false) : initSpec root basename parts = fnfe := by
  unfold initSpec
  unfold numeralParts at hp
  split
  · rfl
  · split
    · rename_i hc
      rw [hc] at hp
      simp only [List.mem_cons, List.mem_nil_iff, or_false] at hp
      rcases hp with rfl | rfl | rfl <;> simp [decimal_none_of_not_digits hd]
    · rename_i hc
      rw [hc] at hp
      simp only [List.mem_cons, List.mem_nil_iff, or_false] at hp
      rcases hp with rfl | rfl <;> simp [decimal_none_of_not_digits hd]
    · rfl

theorem initSpec_bad_directory {root basename : String} {parts : List String}
    (h : hasDot root = true ∨ parts.any hasDot = true) : initSpec root basename parts = fnfe := by
  unfold initSpec
  repeat' split
  all_goals first | rfl | (rcases h with h | h <;> simp_all)

end Bridge.FileName
