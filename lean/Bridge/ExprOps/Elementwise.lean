import Bridge.ExprOps.Sets
/-!
  Bridge for the operator semantics, part 3: a set and a primitive (element-wise application in both orientations, and the
  operators that are undefined for this combination).
-/
set_option linter.unusedSimpArgs false
set_option linter.unusedVariables false
set_option maxRecDepth 8000
namespace BridgeEx
open Py Ex PyEx Bridge

section
variable (nfc : List Nat → List Nat) (n : Nat)

local notation "env1" => Gen.Ex.env nfc (n + 1)
local notation "env0" => Gen.Ex.env nfc n
local notation "SN" => (StrNorm.mk nfc)
local notation "normS" => @normSc (StrNorm.mk nfc)
local notation "wrapper" => Gen.Ex._auto_swap.decorator.wrapper

/-- the primitives under the inner environment, stated with the normalisation function itself -/
theorem gen_scBin0 (k : Nat) (op : BinOp) (a b : Scalar) :
    genBin op (Gen.Ex.env nfc k) (embS a) (embS b) = convS (@scBin SN op a b) := by
  have h := gen_scBin (Gen.Ex.env nfc k) op a b
  rw [env_nfc] at h
  exact h

/-- what `Set._elementwise` returns, given the model's list of element results -/
def ewRes (r : R (List Scalar)) : E Obj :=
  match r with
  | .error e => .error (excOf e)
  | .ok ys => if ys = [] then .error .InvalidOperandError
              else if sameKinds ys then .ok (setObj (dedupK normS ys)) else .error .InvalidOperandError

theorem ew_left (op : BinOp) (raw : List Scalar) (y : Scalar) :
    Gen.Ex.Set._elementwise env1 (setObj raw) (genBin op env0) (embS y) (.bool false) =
      ewRes nfc (mapR (fun x => @scBin SN op x y) raw) := by
  rw [(gen_elementwise nfc n raw y _).1, mapM_conv _ (fun x => @scBin SN op x y) (fun x => gen_scBin0 nfc n op x y)]
  cases mapR (fun x => @scBin SN op x y) raw with
  | error e => rfl
  | ok ys => exact gen_set_new nfc n ys

theorem ew_right (op : BinOp) (raw : List Scalar) (y : Scalar) :
    Gen.Ex.Set._elementwise env1 (setObj raw) (genBin op env0) (embS y) (.bool true) =
      ewRes nfc (mapR (fun x => @scBin SN op y x) raw) := by
  rw [(gen_elementwise nfc n raw y _).2, mapM_conv _ (fun x => @scBin SN op y x) (fun x => gen_scBin0 nfc n op y x)]
  cases mapR (fun x => @scBin SN op y x) raw with
  | error e => rfl
  | ok ys => exact gen_set_new nfc n ys

theorem set_sc_unfold (op : BinOp) (hop : op.isArith = true) (raw : List Scalar) (y : Scalar) :
    genBin op env1 (setObj raw) (embS y) =
      wrapper env1 (fun _ _ => Gen.Ex.Set._elementwise env1 (setObj raw) (genBin op env0) (embS y) (.bool false))
        (fun _ _ => .error .UndefinedOperatorError) (setObj raw) (embS y) := by
  cases op <;> first
    | (simp [BinOp.isArith] at hop; done)
    | (cases y <;>
        (simp only [genBin, Gen.Ex.add, Gen.Ex.subtract, Gen.Ex.multiply, Gen.Ex.divide, Gen.Ex.modulo, Gen.Ex.power]
         conv_lhs => rw [wrapper_param]
         rfl))

theorem sc_set_unfold (op : BinOp) (hop : op.isArith = true) (raw : List Scalar) (y : Scalar) :
    genBin op env1 (embS y) (setObj raw) =
      wrapper env1 (fun _ _ => .error .UndefinedOperatorError)
        (fun _ _ => Gen.Ex.Set._elementwise env1 (setObj raw) (genBin op env0) (embS y) (.bool true)) (embS y) (setObj raw) := by
  cases op <;> first
    | (simp [BinOp.isArith] at hop; done)
    | (cases y <;>
        (simp only [genBin, Gen.Ex.add, Gen.Ex.subtract, Gen.Ex.multiply, Gen.Ex.divide, Gen.Ex.modulo, Gen.Ex.power]
         conv_lhs => rw [wrapper_param]
         rfl))

theorem kind_set_ne_sc (raw : List Scalar) (y : Scalar) : (Val.set raw).kind ≠ (Val.sc y).kind := by
  cases y <;> simp [Val.kind, Scalar.kind]

theorem wrapper_ew_left (raw : List Scalar) (y : Scalar) (r : R (List Scalar)) :
    wrapper env1 (fun _ _ => ewRes nfc r) (fun _ _ => .error .UndefinedOperatorError) (setObj raw) (embS y) = ewRes nfc r := by
  cases r with
  | error e =>
    by_cases he : excOf e = .UndefinedOperatorError
    · have := wrapper_undef_diff_err env1 (fun _ _ => ewRes nfc (.error e)) (fun _ _ => .error .UndefinedOperatorError)
        (.set raw) (.sc y) .UndefinedOperatorError (by show Except.error (excOf e) = _; rw [he]) (kind_set_ne_sc raw y) rfl
      rw [show ewRes nfc (.error e) = .error .UndefinedOperatorError from by show Except.error (excOf e) = _; rw [he]] at this ⊢
      exact this
    · exact wrapper_err env1 _ _ (.set raw) (.sc y) (excOf e) rfl (excMatch_undef_false _ he)
  | ok ys =>
    unfold ewRes
    by_cases h0 : ys = []
    · simp only [h0, ↓reduceIte]
      exact wrapper_err env1 _ _ (.set raw) (.sc y) .InvalidOperandError rfl rfl
    · by_cases hk : sameKinds ys = true
      · simp only [h0, hk, ↓reduceIte]
        exact wrapper_ok env1 _ _ (.set raw) (.sc y) (.set (dedupK normS ys)) rfl
      · simp only [h0, hk, ↓reduceIte]
        exact wrapper_err env1 _ _ (.set raw) (.sc y) .InvalidOperandError rfl rfl

theorem wrapper_ew_right (raw : List Scalar) (y : Scalar) (r : R (List Scalar)) :
    wrapper env1 (fun _ _ => .error .UndefinedOperatorError) (fun _ _ => ewRes nfc r) (embS y) (setObj raw) = ewRes nfc r := by
  have hk' : (Val.sc y).kind ≠ (Val.set raw).kind := fun h => kind_set_ne_sc raw y h.symm
  cases r with
  | error e => exact wrapper_undef_diff_err env1 _ _ (.sc y) (.set raw) (excOf e) rfl hk' rfl
  | ok ys =>
    unfold ewRes
    by_cases h0 : ys = []
    · simp only [h0, ↓reduceIte]
      exact wrapper_undef_diff_err env1 _ _ (.sc y) (.set raw) .InvalidOperandError rfl hk' rfl
    · by_cases hk : sameKinds ys = true
      · simp only [h0, hk, ↓reduceIte]
        exact wrapper_undef_diff_ok env1 _ _ (.sc y) (.set raw) (.set (dedupK normS ys)) rfl hk' rfl
      · simp only [h0, hk, ↓reduceIte]
        exact wrapper_undef_diff_err env1 _ _ (.sc y) (.set raw) .InvalidOperandError rfl hk' rfl

/-- the model's `mkSetS` on the normal forms of a list of element results, against `ewRes` -/
theorem agree_ewRes (r : R (List Scalar)) :
    Agree nfc (ewRes nfc r) ((r.map (List.map normS)).bind mkSetS) := by
  cases r with
  | error e => rfl
  | ok ys =>
    show Agree nfc (ewRes nfc (.ok ys)) (mkSetS (ys.map normS))
    unfold ewRes mkSetS
    by_cases h0 : ys = []
    · subst h0; rfl
    · have h1 : (ys.map normS).isEmpty = false := by cases ys with | nil => exact absurd rfl h0 | cons _ _ => rfl
      simp only [h0, h1, ↓reduceIte, Bool.false_eq_true, @sameKinds_map_normSc SN]
      by_cases hk : sameKinds ys = true
      · simp only [hk, ↓reduceIte]
        refine ⟨_, rfl, ?_⟩
        rw [dedup_map_normS]
        exact Abs.set _ (dedupK_ne_nil _ _ h0)
      · simp only [hk, ↓reduceIte]; rfl

/-- **A set and a primitive.** -/
theorem gen_set_sc (hl : NfcLaws nfc) (op : BinOp) (raw : List Scalar) (y : Scalar) :
    Agree nfc (genBin op env1 (setObj raw) (embS y)) (@evalBin SN op (.set (raw.map normS)) (.sc y)) := by
  by_cases hop : op.isArith = true
  · rw [set_sc_unfold nfc n op hop, ew_left, wrapper_ew_left]
    have : @evalBin SN op (.set (raw.map normS)) (.sc y) =
        ((mapR (fun x => @scBin SN op x y) raw).map (List.map normS)).bind mkSetS := by
      show (if op.isArith then (mapR (fun x => @scBinEl SN op x y) (raw.map normS)).bind mkSetS else _) = _
      rw [if_pos hop, mapR_map, mapR_congr _ _ raw (fun x => scBinEl_normS_left nfc hl op hop x y)]
      unfold scBinEl
      rw [mapR_post]
    rw [this]
    exact agree_ewRes nfc _
  · have hm : @evalBin SN op (.set (raw.map normS)) (.sc y) = inval .undefinedOp := by
      show (if op.isArith then _ else _) = _
      rw [if_neg hop]
    rw [hm]
    show _ = Except.error Exc.UndefinedOperatorError
    cases op <;> first | (simp [BinOp.isArith] at hop; done) | (cases y <;> rfl)

/-- **A primitive and a set.** -/
theorem gen_sc_set (hl : NfcLaws nfc) (op : BinOp) (raw : List Scalar) (y : Scalar) :
    Agree nfc (genBin op env1 (embS y) (setObj raw)) (@evalBin SN op (.sc y) (.set (raw.map normS))) := by
  by_cases hop : op.isArith = true
  · rw [sc_set_unfold nfc n op hop, ew_right, wrapper_ew_right]
    have : @evalBin SN op (.sc y) (.set (raw.map normS)) =
        ((mapR (fun x => @scBin SN op y x) raw).map (List.map normS)).bind mkSetS := by
      show (if op.isArith then (mapR (fun x => @scBinEl SN op y x) (raw.map normS)).bind mkSetS else _) = _
      rw [if_pos hop, mapR_map, mapR_congr _ _ raw (fun x => scBinEl_normS_right nfc hl op hop y x)]
      unfold scBinEl
      rw [mapR_post]
    rw [this]
    exact agree_ewRes nfc _
  · have hm : @evalBin SN op (.sc y) (.set (raw.map normS)) = inval .undefinedOp := by
      show (if op.isArith then _ else _) = _
      rw [if_neg hop]
    rw [hm]
    show _ = Except.error Exc.UndefinedOperatorError
    cases op <;> first | (simp [BinOp.isArith] at hop; done) | (cases y <;> rfl)

end
end BridgeEx
