import Bridge.ExprOps.Elementwise
/-!
  Bridge for the operator semantics, part 5: the attribute operator (`min`, `max`, `count` of a set; everything else undefined).
-/
set_option linter.unusedSimpArgs false
set_option linter.unusedTactic false
set_option linter.unreachableTactic false
set_option linter.unusedVariables false
set_option maxRecDepth 8000
namespace BridgeEx
open Py Ex PyEx Bridge

/-- an attribute name as the `str` the parser hands to `_operator.attribute` -/
def nameObj (name : String) : Obj := .str (name.toList.map Char.toNat)

theorem nameObj_inj (a b : String) (h : a.toList.map Char.toNat = b.toList.map Char.toNat) : a = b := by
  apply String.toList_inj.mp
  exact List.map_injective_iff.mpr (fun x y hxy => Char.toNat_inj.mp hxy) h

section
variable (nfc : List Nat → List Nat) (n : Nat)

local notation "env1" => Gen.Ex.env nfc (n + 1)
local notation "env0" => Gen.Ex.env nfc n
local notation "SN" => (StrNorm.mk nfc)
local notation "normS" => @normSc (StrNorm.mk nfc)

theorem attr_unfold (v : Val) (cps : List Nat) :
    Gen.Ex.attribute env1 (emb v) (.str cps) = Gen.Ex.dispatch._attribute env1 (emb v) (embS (.str cps)) := by
  rcases v with (_ | _ | _) | _ <;> rfl

theorem attr_scalar (s : Scalar) (cps : List Nat) :
    Gen.Ex.attribute env1 (embS s) (.str cps) = .error .UndefinedAttributeError := by
  cases s <;> rfl

theorem ev_native_value_str (env : Py.Env) (cps : List Nat) : Gen.Ex.dispatch.native_value env (embS (.str cps)) = .ok (.str cps) := rfl
theorem ev_eq_str (env : Py.Env) (a b : List Nat) : Py.eq env (.str a) (.str b) = .ok (.bool (a == b)) := rfl
theorem ev_reduce_set (f : Obj → Obj → E Obj) (x : Scalar) (xs : List Scalar) :
    Py.reduce env1 f (setObj (x :: xs)) = (xs.map embS).foldlM f (embS x) := rfl
theorem ev_element_type (env : Py.Env) (raw : List Scalar) : Gen.Ex.Set.element_type env (setObj raw) = .ok (headCls raw) := rfl
theorem ev_isinstance_kind (env : Py.Env) (r x : Scalar) :
    Py.isinstance Gen.Ex.mro env (embS r) (.cls (kindCls x)) = .ok (.bool (decide (kindCls r = kindCls x))) := by
  cases r <;> cases x <;> rfl
theorem ev_isinstance_any (env : Py.Env) (r : Scalar) : Py.isinstance Gen.Ex.mro env (embS r) (.cls .Any) = .ok (.bool true) := by
  cases r <;> rfl
theorem ev_truthy_B (t : Bool) : Py.truthy env1 (embS (.bool t)) = .ok t := rfl
theorem ev_glob_less : (env1).glob "_operator.less" = Gen.Ex.less env0 := rfl
theorem ev_glob_greater : (env1).glob "_operator.greater" = Gen.Ex.greater env0 := rfl

/-- what one step of the reduction behind `min` (`flip`: `max`) does on two primitives: keep the left one when it is smaller
    (greater), else take the right one; a comparison that is undefined for the pair ends the reduction -/
def pickSpec (flip : Bool) (a b : Scalar) : E Obj :=
  match @scBin SN (if flip then .gt else .lt) a b with
  | .ok (.bool true) => .ok (embS a)
  | .ok _ => .ok (embS b)
  | .error e => .error (excOf e)

/-- a left fold over the elements with any step function that meets `pickSpec` is the model's `reduceCmp` -/
theorem foldl_spec (flip : Bool) (f : Obj → Obj → E Obj) (hf : ∀ a b, f (embS a) (embS b) = pickSpec nfc flip a b)
    (xs : List Scalar) : ∀ x : Scalar, (xs.map embS).foldlM f (embS x) = convS (@reduceCmp SN flip x xs) := by
  induction xs with
  | nil => intro x; rfl
  | cons b rest ih =>
    intro x
    rw [List.map_cons, List.foldlM_cons, hf]
    unfold reduceCmp pickSpec
    cases h : @scBin SN (if flip then .gt else .lt) x b with
    | error e => rfl
    | ok v =>
      cases v with
      | bool t => cases t <;> simp only [ok_bind, ih]
      | rat q => simp only [ok_bind, ih]
      | str s => simp only [ok_bind, ih]

theorem less0 (a b : Scalar) : Gen.Ex.less env0 (embS a) (embS b) = convS (@scBin SN .lt a b) := gen_scBin0 nfc n .lt a b
theorem greater0 (a b : Scalar) : Gen.Ex.greater env0 (embS a) (embS b) = convS (@scBin SN .gt a b) := gen_scBin0 nfc n .gt a b
theorem ev_not_B (t : Bool) : Py.not_ env1 (embS (.bool t)) = .ok (.bool (!t)) := rfl

/-- closes `f (embS a) (embS b) = pickSpec flip a b` for a step function `f` that is written with `less` / `greater` of the
    inner environment, truth tests and conditionals -/
macro "pick_step" : tactic => `(tactic|
  (intro a b
   simp only [less0, greater0, pickSpec]
   cases a <;> cases b <;> try rfl
   all_goals
     (rename_i p q
      simp only [scBin, convS, ok_bind, ev_truthy_B, ev_not_B, truthy_bool, Bool.false_eq_true, ↓reduceIte, pure_eq_ok]
      first
        | (cases decide (p < q) <;> rfl)
        | (cases decide (q < p) <;> rfl))))

theorem scBin_cmp_kinds (op : BinOp) (hop : op = .lt ∨ op = .gt) (a b v : Scalar) (h : @scBin SN op a b = .ok v) :
    a.kind = .rat ∧ b.kind = .rat := by
  rcases hop with rfl | rfl <;> cases a <;> cases b <;> first | exact ⟨rfl, rfl⟩ | (simp [scBin, inval] at h)

theorem reduceCmp_kind (flip : Bool) (xs : List Scalar) : ∀ (x r : Scalar), @reduceCmp SN flip x xs = .ok r → r.kind = x.kind := by
  induction xs with
  | nil => intro x r h; simp [reduceCmp] at h; rw [h]
  | cons b rest ih =>
    intro x r h
    unfold reduceCmp at h
    cases hs : @scBin SN (if flip then .gt else .lt) x b with
    | error e => rw [hs] at h; cases h
    | ok v =>
      have hk := scBin_cmp_kinds nfc (if flip then .gt else .lt) (by cases flip <;> simp) x b v hs
      rw [hs] at h
      cases v with
      | bool t =>
        cases t
        · have := ih b r h; rw [this, hk.1, hk.2]
        · exact ih x r h
      | rat q => have := ih b r h; rw [this, hk.1, hk.2]
      | str s => have := ih b r h; rw [this, hk.1, hk.2]

theorem ev_iter_setObj (raw : List Scalar) : Py.iter env1 (setObj raw) = .ok (.list (raw.map embS)) := rfl
theorem ev_next_cons (env : Py.Env) (x : Obj) (xs : List Obj) : Py.next env (.list (x :: xs)) = .ok (x, .list xs) := rfl
theorem ev_forIn_list {σ : Type} (env : Py.Env) (l : List Obj) (init : σ) (body : σ → Obj → E σ) :
    Py.forIn env (.list l) init body = l.foldlM body init := rfl

theorem ev_getattr_et_set (env : Py.Env) (x : Scalar) (xs : List Scalar) :
    Py.getattr env (setObj (x :: xs)) "_element_type" = .ok (.cls (kindCls x)) := rfl

theorem ev_assert_t : Py.assert_ true = .ok () := rfl

theorem ev_len_value (env : Py.Env) (raw : List Scalar) :
    (do let t ← Py.getattr env (setObj raw) "_value"; let l ← Py.len env t; Gen.Ex.Rational.__new__ env l) =
      .ok (R' (raw.length : Int) 1) := by
  show Except.ok (R' ((raw.map embS).length : Int) 1) = _
  rw [List.length_map]

theorem set_attribute (x : Scalar) (xs : List Scalar) (cps : List Nat) :
    Gen.Ex.Set._attribute env1 (setObj (x :: xs)) (embS (.str cps)) =
      if cps = [109, 105, 110] then convS (@reduceCmp SN false x xs)
      else if cps = [109, 97, 120] then convS (@reduceCmp SN true x xs)
      else if cps = [99, 111, 117, 110, 116] then .ok (R' ((x :: xs).length : Int) 1)
      else .error .UndefinedAttributeError := by
  unfold Gen.Ex.Set._attribute
  simp only [ev_native_value_str, ok_bind, ev_eq_str, truthy_bool, ev_glob_less, ev_glob_greater, beq_iff_eq]
  by_cases h1 : cps = [109, 105, 110]
  · simp only [h1, ↓reduceIte]
    unfold_set_methods
    simp only [ev_reduce_set, ev_iter_setObj, ev_next_cons, ev_forIn_list, ok_bind, List.map_cons, bind_assoc, pure_eq_ok]
    rw [foldl_spec nfc false _ (by pick_step)]
    -- whatever assertions follow the reduction hold of its result
    cases h : @reduceCmp SN false x xs with
    | error e => rfl
    | ok r =>
      have hk : kindCls r = kindCls x := (kindCls_eq_iff r x).mpr (reduceCmp_kind nfc false xs x r h)
      simp only [convS, ok_bind, ev_getattr_et_set, ev_element_type, headCls, ev_isinstance_kind, hk, decide_true, truthy_bool,
        ev_isinstance_any, ev_assert_t, pure_eq_ok]
  · simp only [h1, ↓reduceIte]
    by_cases h2 : cps = [109, 97, 120]
    · simp only [h2, ↓reduceIte]
      unfold_set_methods
      simp only [ev_reduce_set, ev_iter_setObj, ev_next_cons, ev_forIn_list, ok_bind, List.map_cons, bind_assoc, pure_eq_ok]
      rw [foldl_spec nfc true _ (by pick_step)]
      cases h : @reduceCmp SN true x xs with
      | error e => rfl
      | ok r =>
        have hk : kindCls r = kindCls x := (kindCls_eq_iff r x).mpr (reduceCmp_kind nfc true xs x r h)
        simp only [convS, ok_bind, ev_getattr_et_set, ev_element_type, headCls, ev_isinstance_kind, hk, decide_true, truthy_bool,
          ev_isinstance_any, ev_assert_t, pure_eq_ok]
    · simp only [h2, ↓reduceIte]
      by_cases h3 : cps = [99, 111, 117, 110, 116]
      · simp only [h3, ↓reduceIte]
        show Except.ok (R' ((List.map embS (x :: xs)).length : Int) 1) = _
        rw [List.length_map]
      · simp only [h3, ↓reduceIte]; rfl

theorem cps_iff (name lit : String) (cps : List Nat) (hl : lit.toList.map Char.toNat = cps) :
    name.toList.map Char.toNat = cps ↔ name = lit := by
  constructor
  · intro h; exact nameObj_inj name lit (h.trans hl.symm)
  · rintro rfl; exact hl

theorem map_normS_id (raw : List Scalar) (h : ∀ x ∈ raw, normS x = x) : raw.map normS = raw := by
  induction raw with
  | nil => rfl
  | cons x xs ih => rw [List.map_cons, h x (by simp), ih fun y hy => h y (by simp [hy])]

theorem natCast_rat (k : Nat) : embS (.rat ((k : Nat) : Rat)) = R' (k : Int) 1 := by
  simp [embS, R']

/-- **Attributes of a primitive**: none. -/
theorem gen_attr_scalar (s : Scalar) (name : String) :
    Agree nfc (Gen.Ex.attribute env1 (embS s) (nameObj name)) (@evalAttr SN (.sc s) name) := by
  show Gen.Ex.attribute env1 (embS s) (.str _) = .error (excOf (.invalid .undefinedAttr))
  exact attr_scalar nfc n s _

/-- **Attributes of a set**: `count` is the number of elements; `min` / `max` reduce the elements with `<` / `>` (the result is
    one of the elements, so for these two the elements are taken in their normal form); any other name is undefined. -/
theorem gen_attr_set (raw : List Scalar) (hne : raw ≠ []) (name : String)
    (hnorm : name = "min" ∨ name = "max" → ∀ x ∈ raw, normS x = x) :
    Agree nfc (Gen.Ex.attribute env1 (setObj raw) (nameObj name)) (@evalAttr SN (.set (raw.map normS)) name) := by
  cases raw with
  | nil => exact absurd rfl hne
  | cons x xs =>
    have hu : Gen.Ex.attribute env1 (setObj (x :: xs)) (nameObj name) =
        Gen.Ex.Set._attribute env1 (setObj (x :: xs)) (embS (.str (name.toList.map Char.toNat))) :=
      attr_unfold nfc n (.set (x :: xs)) _
    rw [hu, set_attribute]
    have e1 := cps_iff name "min" [109, 105, 110] (by decide)
    have e2 := cps_iff name "max" [109, 97, 120] (by decide)
    have e3 := cps_iff name "count" [99, 111, 117, 110, 116] (by decide)
    by_cases h1 : name = "min"
    · have hm := map_normS_id nfc (x :: xs) (hnorm (Or.inl h1))
      rw [hm]
      subst h1
      simp only [e1.mpr rfl, ↓reduceIte]
      show Agree nfc _ ((@reduceCmp SN false x xs).map Val.sc)
      cases @reduceCmp SN false x xs with
      | error e => rfl
      | ok r => exact ⟨_, rfl, Abs.sc r⟩
    · have h1' : ¬ name.toList.map Char.toNat = [109, 105, 110] := fun h => h1 (e1.mp h)
      by_cases h2 : name = "max"
      · have hm := map_normS_id nfc (x :: xs) (hnorm (Or.inr h2))
        rw [hm]
        subst h2
        simp only [h1', e2.mpr rfl, ↓reduceIte]
        show Agree nfc _ ((@reduceCmp SN true x xs).map Val.sc)
        cases @reduceCmp SN true x xs with
        | error e => rfl
        | ok r => exact ⟨_, rfl, Abs.sc r⟩
      · have h2' : ¬ name.toList.map Char.toNat = [109, 97, 120] := fun h => h2 (e2.mp h)
        by_cases h3 : name = "count"
        · subst h3
          simp only [h1', h2', e3.mpr rfl, ↓reduceIte]
          show Agree nfc _ (.ok (.rat (((x :: xs).map normS).length : Nat)))
          refine ⟨_, rfl, ?_⟩
          have : R' (((x :: xs).length : Nat) : Int) 1 = embS (.rat ((((x :: xs).map normS).length : Nat) : Rat)) := by
            rw [natCast_rat, List.length_map]
          rw [this]
          exact Abs.sc _
        · have h3' : ¬ name.toList.map Char.toNat = [99, 111, 117, 110, 116] := fun h => h3 (e3.mp h)
          simp only [h1', h2', h3', ↓reduceIte]
          have : @evalAttr SN (.set ((x :: xs).map normS)) name = inval .undefinedAttr := by
            simp only [List.map_cons]
            unfold evalAttr
            split <;> first | rfl | exact absurd rfl h1 | exact absurd rfl h2 | exact absurd rfl h3
          rw [this]; rfl

end
end BridgeEx
