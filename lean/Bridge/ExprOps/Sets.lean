import Bridge.ExprOps.Prim
/-!
  Bridge for the operator semantics, part 2: sets (elements, `Set.__init__`, element-wise application, set algebra, attributes).
-/
set_option linter.unusedSimpArgs false
set_option linter.unusedTactic false
set_option linter.unreachableTactic false
set_option linter.unusedVariables false
set_option maxRecDepth 8000
namespace BridgeEx
open Py Ex PyEx Bridge

/-! ## Elements of sets: `__hash__` and `__eq__` of the primitives identify a string by its normal form -/

section sets
variable (nfc : List Nat → List Nat) (n : Nat)

local notation "env1" => Gen.Ex.env nfc (n + 1)

local notation "SN" => (StrNorm.mk nfc)
local notation "normS" => @normSc (StrNorm.mk nfc)

theorem env_nfc (k : Nat) : (Gen.Ex.env nfc k).nfc = nfc := by cases k <;> rfl

theorem hash_rat (p : Int) (d : Nat) : Py.hash env1 (R' p d) = .ok (if d = 1 then .int p else .frac p d) := rfl
theorem hash_bool (b : Bool) : Py.hash env1 (embS (.bool b)) = .ok (.int (if b then 1 else 0)) := rfl
theorem hash_str (cs : List Nat) : Py.hash env1 (embS (.str cs)) = .ok (.str (nfc cs)) := by cases n <;> rfl

theorem eqElem_rat (p q : Int) (d e : Nat) : Py.eqElem env1 (R' p d) (R' q e) = .ok (.bool (p == q && d == e)) := rfl
theorem eqElem_bool (a b : Bool) : Py.eqElem env1 (embS (.bool a)) (embS (.bool b)) = .ok (.bool (a == b)) := by
  cases a <;> cases b <;> rfl
theorem eqElem_str (a b : List Nat) : Py.eqElem env1 (embS (.str a)) (embS (.str b)) = .ok (.bool (nfc a == nfc b)) := by
  cases n <;> rfl

theorem truthy_bool (env : Py.Env) (b : Bool) : Py.truthy env (.bool b) = .ok b := rfl

theorem beq_int (a b : Int) : ((Obj.int a) == (Obj.int b)) = (a == b) := rfl
theorem beq_str (a b : List Nat) : ((Obj.str a) == (Obj.str b)) = (a == b) := rfl
theorem beq_frac (a b : Int) (c d : Nat) : ((Obj.frac a c) == (Obj.frac b d)) = (a == b && c == d) := rfl
theorem beq_int_frac (a b : Int) (d : Nat) : ((Obj.int a) == (Obj.frac b d)) = false := rfl
theorem beq_frac_int (a b : Int) (d : Nat) : ((Obj.frac b d) == (Obj.int a)) = false := rfl
theorem beq_int_str (a : Int) (b : List Nat) : ((Obj.int a) == (Obj.str b)) = false := rfl
theorem beq_str_int (a : Int) (b : List Nat) : ((Obj.str b) == (Obj.int a)) = false := rfl
theorem beq_frac_str (a : Int) (d : Nat) (b : List Nat) : ((Obj.frac a d) == (Obj.str b)) = false := rfl
theorem beq_str_frac (a : Int) (d : Nat) (b : List Nat) : ((Obj.str b) == (Obj.frac a d)) = false := rfl

theorem key_self (p : Int) (d : Nat) :
    ((if d = 1 then Obj.int p else Obj.frac p d) == (if d = 1 then Obj.int p else Obj.frac p d)) = true := by
  split <;> simp [beq_int, beq_frac]

/-- two primitives are one element of a set exactly when they are equal up to the normal form of strings -/
theorem sameSpec_embS : SameSpec env1 embS normS := by
  intro x y
  unfold Py.sameElem
  cases x with
  | rat p => cases y with
    | rat q =>
      rw [embS_rat, embS_rat, hash_rat, hash_rat]
      simp only [ok_bind, eqElem_rat, truthy_bool, normSc, pure_eq_ok]
      by_cases h : p = q
      · subst h; simp [key_self]
      · have h' : ¬ (Scalar.rat p = Scalar.rat q) := fun e => h (by injection e)
        have h2 : (p.num == q.num && p.den == q.den) = false := by
          rw [cmp_eq]; simpa using h
        simp only [h2, h', decide_false, ite_self]
    | bool b =>
      have he : Py.eqElem env1 (R' p.num p.den) (embS (.bool b)) = .ok (.bool false) := rfl
      have : ¬ (Scalar.rat p = Scalar.bool b) := fun e => by cases e
      rw [embS_rat, hash_rat, hash_bool]
      simp only [ok_bind, normSc, he, truthy_bool, pure_eq_ok, ite_self, this, decide_false]
    | str cs =>
      have he : Py.eqElem env1 (R' p.num p.den) (embS (.str cs)) = .ok (.bool false) := rfl
      have : ¬ (normS (Scalar.rat p) = normS (Scalar.str cs)) := fun e => by cases e
      rw [embS_rat, hash_rat, hash_str]
      simp only [ok_bind, he, truthy_bool, pure_eq_ok, ite_self, this, decide_false]
  | bool a => cases y with
    | rat q =>
      have he : Py.eqElem env1 (embS (.bool a)) (R' q.num q.den) = .ok (.bool false) := rfl
      have : ¬ (Scalar.bool a = Scalar.rat q) := fun e => by cases e
      rw [embS_rat, hash_rat, hash_bool]
      simp only [ok_bind, normSc, he, truthy_bool, pure_eq_ok, ite_self, this, decide_false]
    | bool b =>
      rw [hash_bool, hash_bool]
      simp only [ok_bind, eqElem_bool, truthy_bool, normSc]
      cases a <;> cases b <;> rfl
    | str cs =>
      have he : Py.eqElem env1 (embS (.bool a)) (embS (.str cs)) = .ok (.bool false) := rfl
      have : ¬ (normS (Scalar.bool a) = normS (Scalar.str cs)) := fun e => by cases e
      rw [hash_bool, hash_str]
      simp only [ok_bind, he, truthy_bool, pure_eq_ok, ite_self, this, decide_false]
  | str as => cases y with
    | rat q =>
      have he : Py.eqElem env1 (embS (.str as)) (R' q.num q.den) = .ok (.bool false) := rfl
      have : ¬ (normS (Scalar.str as) = normS (Scalar.rat q)) := fun e => by cases e
      rw [embS_rat, hash_rat, hash_str]
      simp only [ok_bind, he, truthy_bool, pure_eq_ok, ite_self, this, decide_false]
    | bool b =>
      have he : Py.eqElem env1 (embS (.str as)) (embS (.bool b)) = .ok (.bool false) := rfl
      have : ¬ (normS (Scalar.str as) = normS (Scalar.bool b)) := fun e => by cases e
      rw [hash_bool, hash_str]
      simp only [ok_bind, he, truthy_bool, pure_eq_ok, ite_self, this, decide_false]
    | str bs =>
      rw [hash_str, hash_str]
      simp only [ok_bind, eqElem_str, truthy_bool, normSc, beq_str, pure_eq_ok]
      by_cases h : nfc as = nfc bs
      · have : (Scalar.str (@StrNorm.nfc SN as) = Scalar.str (@StrNorm.nfc SN bs)) := by
          show Scalar.str (nfc as) = Scalar.str (nfc bs); rw [h]
        simp [h, this]
      · have : ¬ (Scalar.str (@StrNorm.nfc SN as) = Scalar.str (@StrNorm.nfc SN bs)) := fun e => h (by injection e)
        simp [h, this]

/-! ## `Set.__init__` -/

theorem ev_list_list (env : Py.Env) (xs : List Obj) : Py.list_ env (.list xs) = .ok (.list xs) := rfl
theorem ev_list_fset (env : Py.Env) (xs : List Obj) : Py.list_ env (.fset xs) = .ok (.list xs) := rfl
theorem ev_len_list (env : Py.Env) (xs : List Obj) : Py.len env (.list xs) = .ok (.int xs.length) := rfl
theorem ev_len_fset (env : Py.Env) (xs : List Obj) : Py.len env (.fset xs) = .ok (.int xs.length) := rfl
theorem ev_lt_int (env : Py.Env) (a b : Int) :
    Py.op_lt env (.int a) (.int b) = .ok (.bool (decide (a * ((1 : Nat) : Int) < b * ((1 : Nat) : Int)))) := rfl
theorem ev_ne_int (env : Py.Env) (a b : Int) : Py.ne env (.int a) (.int b) = .ok (.bool (!(a == b && (1 : Nat) == 1))) := rfl
theorem ev_eq_cls (env : Py.Env) (a b : Cls) : Py.eq env (.cls a) (.cls b) = .ok (.bool (a == b)) := rfl
theorem ev_setattr_nil (env : Py.Env) (c : Cls) (k : String) (v : Obj) : Py.setattr env (.inst c []) k v = .ok (.inst c [(k, v)]) := rfl
theorem ev_setattr_value (env : Py.Env) (c : Cls) (t v : Obj) :
    Py.setattr env (.inst c [("_element_type", t)]) "_value" v = .ok (.inst c [("_element_type", t), ("_value", v)]) := rfl
theorem ev_getattr_et (env : Py.Env) (c : Cls) (t v : Obj) :
    Py.getattr env (.inst c [("_element_type", t), ("_value", v)]) "_element_type" = .ok t := rfl
theorem ev_getattr_value (env : Py.Env) (c : Cls) (t v : Obj) :
    Py.getattr env (.inst c [("_element_type", t), ("_value", v)]) "_value" = .ok v := rfl
theorem ev_getitem_zero (env : Py.Env) (x : Obj) (xs : List Obj) : Py.getitem env (.list (x :: xs)) (.int 0) = .ok x := rfl
theorem ev_not_bool (env : Py.Env) (b : Bool) : Py.not_ env (.bool b) = .ok (.bool (!b)) := rfl
theorem ev_iter_list (env : Py.Env) (xs : List Obj) : Py.iterToList env (.list xs) = .ok xs := rfl
theorem ev_iter_fset (env : Py.Env) (xs : List Obj) : Py.iterToList env (.fset xs) = .ok xs := rfl
theorem ev_issubclass_any (env : Py.Env) (x : Scalar) :
    Py.issubclass Gen.Ex.mro env (.cls (kindCls x)) (.cls .Any) = .ok (.bool true) := by cases x <;> rfl

def clsObj (s : Scalar) : Obj := .cls (kindCls s)

theorem ev_map_type (env : Py.Env) (l : List Scalar) :
    Py.map_ env (Py.type_ env) (.list (l.map embS)) = .ok (.list (l.map clsObj)) := by
  unfold Py.map_
  rw [ev_iter_list]
  simp only [ok_bind]
  rw [mapM_ok (l.map embS) (Py.type_ env) (fun o => .cls (classOf o)) (fun _ _ => rfl)]
  simp only [ok_bind, pure_eq_ok, List.map_map]
  congr 2
  apply List.map_congr_left
  intro x _
  cases x <;> rfl

theorem sameSpec_cls (env : Py.Env) : SameSpec env clsObj kindCls := fun x y => sameElem_cls env _ _

theorem ev_frozenset_cls (env : Py.Env) (l : List Scalar) :
    Py.frozenset env (.list (l.map clsObj)) = .ok (.fset ((dedupK kindCls l).map clsObj)) := by
  unfold Py.frozenset
  rw [ev_iter_list]
  simp only [ok_bind, fsOfList_ok (sameSpec_cls env) l, pure_eq_ok]

theorem ev_frozenset_embS (l : List Scalar) :
    Py.frozenset env1 (.list (l.map embS)) = .ok (.fset ((dedupK normS l).map embS)) := by
  unfold Py.frozenset
  rw [ev_iter_list]
  simp only [ok_bind, fsOfList_ok (sameSpec_embS nfc n) l, pure_eq_ok]

theorem kindCls_eq_iff (x y : Scalar) : kindCls x = kindCls y ↔ x.kind = y.kind := by
  cases x <;> cases y <;> simp [kindCls, Scalar.kind]

theorem headCls_of (l : List Scalar) (hl : l ≠ []) (c : Cls) (hc : ∀ x ∈ l, kindCls x = c) : headCls l = .cls c := by
  cases l with
  | nil => exact absurd rfl hl
  | cons x xs => simp [headCls, hc x (by simp)]

open Lean Elab Tactic Meta in
/-- unfolds (one level, a few rounds) every generated method of `Set` that occurs in the goal: helper methods that a
    refactoring introduces are found through the goal, they need not be known by name -/
elab "unfold_set_methods" : tactic => withMainContext do
  for _ in [0:3] do
    let g ← getMainGoal
    let t ← instantiateMVars (← g.getType)
    let names := t.getUsedConstants.toList.filter fun nm => (`Gen.Ex.Set).isPrefixOf nm
    if names.isEmpty then break
    for nm in names do
      evalTactic (← `(tactic| try unfold $(mkIdent nm)))

/-! ### evaluation of PyLib primitives on lists of embedded primitives, and loops over them

  The proofs about `Set.__init__` do not follow the shape of the generated term: the term is rewritten with these facts into a
  normal form in which the emptiness test is a constant and the homogeneity test is `!sameKinds l`, whichever idiom the source uses
  (`len(xs) < 1` / `not xs`; `len(set(map(type, xs))) != 1` / `any(type(x) is not t for x in rest)` / …). -/

theorem ev_truthy_list (env : Py.Env) (xs : List Obj) : Py.truthy env (.list xs) = .ok (!xs.isEmpty) := rfl
theorem ev_not_list (env : Py.Env) (xs : List Obj) : Py.not_ env (.list xs) = .ok (.bool (!(!xs.isEmpty))) := rfl
theorem isEmpty_map_cons (x : Scalar) (xs : List Scalar) : (List.map embS (x :: xs)).isEmpty = false := rfl
theorem ev_type_embS (env : Py.Env) (y : Scalar) : Py.type_ env (embS y) = .ok (.cls (kindCls y)) := by cases y <;> rfl
theorem ev_is_cls (env : Py.Env) (a b : Cls) : Py.is_ env (.cls a) (.cls b) = .ok (.bool (a == b)) := rfl
theorem ev_is_not_cls (env : Py.Env) (a b : Cls) : Py.is_not env (.cls a) (.cls b) = .ok (.bool (!(a == b))) := rfl
theorem ev_ne_cls (env : Py.Env) (a b : Cls) : Py.ne env (.cls a) (.cls b) = .ok (.bool (!(a == b))) := rfl

theorem ev_unpack_head (env : Py.Env) (x : Scalar) (xs : List Scalar) :
    Py.unpack env (.list (List.map embS (x :: xs))) 1 true 0 = .ok [embS x, .list (xs.map embS)] := by
  simp [Py.unpack, Py.iterToList, Py.iterNative, pure_eq_ok]
theorem ev_nth_zero (a b : Obj) : Py.nth [a, b] 0 = a := rfl
theorem ev_nth_one (a b : Obj) : Py.nth [a, b] 1 = b := rfl
theorem ev_getitem_head (env : Py.Env) (x : Scalar) (xs : List Scalar) :
    Py.getitem env (.list (List.map embS (x :: xs))) (.int 0) = .ok (embS x) := rfl

/-- `any(…)` / `all(…)` over embedded primitives, with the loop body as a function of the primitive -/
def anyS (env : Py.Env) (f : Scalar → E Obj) : List Scalar → E Obj
  | [] => pure (.bool false)
  | y :: ys => do
    let v ← f y
    if ← Py.truthy env v then pure (.bool true) else anyS env f ys

def allS (env : Py.Env) (f : Scalar → E Obj) : List Scalar → E Obj
  | [] => pure (.bool true)
  | y :: ys => do
    let v ← f y
    if ← Py.truthy env v then allS env f ys else pure (.bool false)

theorem anyL_map_embS (env : Py.Env) (f : Obj → E Obj) (ys : List Scalar) :
    Py.anyL env f (ys.map embS) = anyS env (fun y => f (embS y)) ys := by
  induction ys with
  | nil => rfl
  | cons y ys ih => simp only [List.map_cons, Py.anyL, anyS, ih]

theorem allL_map_embS (env : Py.Env) (f : Obj → E Obj) (ys : List Scalar) :
    Py.allL env f (ys.map embS) = allS env (fun y => f (embS y)) ys := by
  induction ys with
  | nil => rfl
  | cons y ys ih => simp only [List.map_cons, Py.allL, allS, ih]

theorem ev_anyM_list (env : Py.Env) (f : Obj → E Obj) (l : List Obj) : Py.anyM env f (.list l) = Py.anyL env f l := rfl
theorem ev_allM_list (env : Py.Env) (f : Obj → E Obj) (l : List Obj) : Py.allM env f (.list l) = Py.allL env f l := rfl

theorem anyS_pure (env : Py.Env) (p : Scalar → Bool) (ys : List Scalar) :
    anyS env (fun y => .ok (.bool (p y))) ys = .ok (.bool (ys.any p)) := by
  induction ys with
  | nil => rfl
  | cons y ys ih =>
    simp only [anyS, ok_bind, truthy_bool, ih, List.any_cons]
    cases p y <;> rfl

theorem allS_pure (env : Py.Env) (p : Scalar → Bool) (ys : List Scalar) :
    allS env (fun y => .ok (.bool (p y))) ys = .ok (.bool (ys.all p)) := by
  induction ys with
  | nil => rfl
  | cons y ys ih =>
    simp only [allS, ok_bind, truthy_bool, ih, List.all_cons]
    cases p y <;> rfl

/-! ### the idioms of the two tests of `Set.__init__`, in normal form -/

theorem idiom_len_lt_one (k : Nat) : decide (((k + 1 : Nat) : Int) * ((1 : Nat) : Int) < 1 * ((1 : Nat) : Int)) = false := by
  rw [decide_eq_false_iff_not]; omega

theorem kindCls_beq (y x : Scalar) : (kindCls y == kindCls x) = (y.kind == x.kind) := by
  cases y <;> cases x <;> rfl

/-- `any(type(y) is not type(x) for y in rest)` and `not all(type(y) is type(x) …)` -/
theorem hetero_any (x : Scalar) (xs : List Scalar) :
    (xs.any fun y => !(kindCls y == kindCls x)) = !sameKinds (x :: xs) := by
  show _ = !(xs.all fun y => y.kind == x.kind)
  rw [List.all_eq_not_any_not, Bool.not_not]
  congr 1; funext y; rw [kindCls_beq]

theorem hetero_all (x : Scalar) (xs : List Scalar) :
    (xs.all fun y => kindCls y == kindCls x) = sameKinds (x :: xs) := by
  show _ = (xs.all fun y => y.kind == x.kind)
  congr 1; funext y; rw [kindCls_beq]

/-- `len(set(map(type, xs))) != 1` -/
theorem hetero_dedup (x : Scalar) (xs : List Scalar) :
    (!(((dedupK kindCls (x :: xs)).length : Int) == 1 && ((1 : Nat) == 1))) = !sameKinds (x :: xs) := by
  have hne : x :: xs ≠ [] := by simp
  by_cases hk : sameKinds (x :: xs) = true
  · have hall := (sameKinds_iff (x :: xs)).mp hk
    have hc : ∀ y ∈ x :: xs, kindCls y = kindCls x := fun y hy => (kindCls_eq_iff _ _).mpr (hall y hy x (by simp))
    obtain ⟨z, hz, _⟩ := dedupK_const kindCls (x :: xs) hne (kindCls x) hc
    rw [hz, hk]; rfl
  · have hlen2 : (dedupK kindCls (x :: xs)).length ≠ 1 := by
      intro h1
      apply hk
      rw [sameKinds_iff]
      intro a ha b hb
      exact (kindCls_eq_iff _ _).mp (dedupK_length_one kindCls (x :: xs) h1 a ha b hb)
    have h1 : ¬ (((dedupK kindCls (x :: xs)).length : Int) = 1) := by omega
    have hk' : sameKinds (x :: xs) = false := by simpa using hk
    rw [hk']; simp [h1]

/-- the element type, when it is taken from the set of the classes of a homogeneous list -/
theorem dedup_cls_of_same (x : Scalar) (xs : List Scalar) (hk : sameKinds (x :: xs) = true) :
    (dedupK kindCls (x :: xs)).map clsObj = [.cls (kindCls x)] := by
  have hall := (sameKinds_iff (x :: xs)).mp hk
  have hc : ∀ y ∈ x :: xs, kindCls y = kindCls x := fun y hy => (kindCls_eq_iff _ _).mpr (hall y hy x (by simp))
  obtain ⟨z, hz, hzl⟩ := dedupK_const kindCls (x :: xs) (by simp) (kindCls x) hc
  rw [hz]; simp [clsObj, hc z hzl]

theorem ev_issubclass_cls_any (env : Py.Env) (x : Scalar) :
    Py.issubclass Gen.Ex.mro env (.cls (kindCls x)) (.cls .Any) = .ok (.bool true) := by cases x <;> rfl

/-- `Set(elements)` on a list of primitives: empty and heterogeneous lists are rejected, otherwise the instance holds the
    elements without duplicates (strings identified by their normal form) -/
theorem gen_set_new (l : List Scalar) :
    Gen.Ex.Set.__new__ env1 (.list (l.map embS)) =
      if l = [] then .error .InvalidOperandError
      else if sameKinds l then .ok (setObj (dedupK normS l)) else .error .InvalidOperandError := by
  cases l with
  | nil => rfl
  | cons x xs =>
    have hne : x :: xs ≠ [] := by simp
    simp only [hne, ↓reduceIte]
    unfold Gen.Ex.Set.__new__ Gen.Ex.Set.__init__
    unfold_set_methods
    -- both tests in normal form
    simp only [ev_list_list, ok_bind, pure_eq_ok, truthy_bool, ev_truthy_list, ev_not_list, isEmpty_map_cons, ev_not_bool,
      ev_len_list, ev_lt_int, List.length_map, List.length_cons, idiom_len_lt_one,
      ev_map_type, ev_frozenset_cls, ev_len_fset, ev_ne_int, ev_eq_cls, hetero_dedup,
      ev_unpack_head, ev_nth_zero, ev_nth_one, ev_getitem_head, ev_type_embS, ev_anyM_list, ev_allM_list, anyL_map_embS, allL_map_embS,
      ev_is_cls, ev_is_not_cls, ev_ne_cls, anyS_pure, allS_pure, hetero_any, hetero_all,
      Bool.not_true, Bool.not_false, Bool.not_not, Bool.false_eq_true, ↓reduceIte]
    by_cases hk : sameKinds (x :: xs) = true
    · have hc : ∀ y ∈ x :: xs, kindCls y = kindCls x := fun y hy =>
        (kindCls_eq_iff _ _).mpr ((sameKinds_iff (x :: xs)).mp hk y hy x (by simp))
      have hhead : headCls (dedupK normS (x :: xs)) = .cls (kindCls x) :=
        headCls_of _ (dedupK_ne_nil _ _ hne) _ fun y hy => hc y (mem_of_mem_dedupK _ _ y hy)
      simp only [hk, Bool.not_true, Bool.false_eq_true, ↓reduceIte, ev_list_fset, dedup_cls_of_same x xs hk, ev_getitem_zero,
        ev_setattr_nil, ev_frozenset_embS, ev_setattr_value, ev_getattr_et, ev_issubclass_cls_any, ev_not_bool, truthy_bool,
        pure_eq_ok, ok_bind, setObj, hhead]
    · have hk' : sameKinds (x :: xs) = false := by simpa using hk
      simp only [hk', Bool.not_false, ↓reduceIte, Bool.false_eq_true]
      rfl

/-! ## Element-wise application -/

theorem ev_iter_set (raw : List Scalar) : Py.iterToList env1 (setObj raw) = .ok (raw.map embS) := rfl

theorem ev_genexp_set (raw : List Scalar) (f : Obj → E Obj) :
    Py.genexp env1 f (setObj raw) = ((raw.map embS).mapM f >>= fun l => pure (.list l)) := rfl

theorem ev_listcomp_set (raw : List Scalar) (f : Obj → E Obj) :
    Py.listcomp env1 f (setObj raw) = ((raw.map embS).mapM f >>= fun l => pure (.list l)) := rfl

theorem ev_isinstance_sc_set (env : Py.Env) (y : Scalar) : Py.isinstance Gen.Ex.mro env (embS y) (.cls .Set) = .ok (.bool false) := by
  cases y <;> rfl

theorem ev_forIn_set {σ : Type} (raw : List Scalar) (init : σ) (body : σ → Obj → E σ) :
    Py.forIn env1 (setObj raw) init body = (raw.map embS).foldlM body init := rfl

/-- a loop that appends one result per element to a list is the list comprehension -/
theorem foldlM_append (env : Py.Env) (f : Obj → E Obj) (l init : List Obj) :
    l.foldlM (fun acc x => f x >>= fun t => Py.list_append env acc t) (Obj.list init) =
      (l.mapM f >>= fun r => .ok (Obj.list (init ++ r))) := by
  induction l generalizing init with
  | nil => simp [pure_eq_ok]
  | cons a l ih =>
    rw [List.foldlM_cons, List.mapM_cons]
    cases h : f a with
    | error e => rfl
    | ok t =>
      have : Py.list_append env (Obj.list init) t = .ok (Obj.list (init ++ [t])) := rfl
      simp only [ok_bind, this, ih, bind_assoc, pure_eq_ok, List.append_assoc, List.singleton_append]

theorem gen_elementwise (raw : List Scalar) (y : Scalar) (impl : Obj → Obj → E Obj) :
    (Gen.Ex.Set._elementwise env1 (setObj raw) impl (embS y) (.bool false) =
      ((raw.map embS).mapM (fun x => impl x (embS y)) >>= fun l => Gen.Ex.Set.__new__ env1 (.list l))) ∧
    (Gen.Ex.Set._elementwise env1 (setObj raw) impl (embS y) (.bool true) =
      ((raw.map embS).mapM (fun x => impl (embS y) x) >>= fun l => Gen.Ex.Set.__new__ env1 (.list l))) := by
  constructor <;>
  · unfold Gen.Ex.Set._elementwise
    unfold_set_methods
    simp only [ev_isinstance_sc_set, ok_bind, ev_not_bool, truthy_bool, Bool.not_false, ↓reduceIte, ev_genexp_set, ev_listcomp_set,
      ev_forIn_set, foldlM_append, List.nil_append, Bool.false_eq_true, bind_assoc, pure_eq_ok, bind_pure]

theorem elementwise_set_set (ra rb : List Scalar) (impl : Obj → Obj → E Obj) (sw : Obj) :
    Gen.Ex.Set._elementwise env1 (setObj ra) impl (setObj rb) sw = .error .UndefinedOperatorError := rfl

/-- a list of primitives through a function that agrees with a model function on every primitive -/
def convL (r : R (List Scalar)) : E (List Obj) :=
  match r with
  | .ok ys => .ok (ys.map embS)
  | .error e => .error (excOf e)

theorem mapM_conv (f : Obj → E Obj) (g : Scalar → R Scalar) (h : ∀ x, f (embS x) = convS (g x)) (raw : List Scalar) :
    (raw.map embS).mapM f = convL (mapR g raw) := by
  induction raw with
  | nil => rfl
  | cons x xs ih =>
    rw [List.map_cons, List.mapM_cons, h x, ih]
    simp only [mapR]
    cases g x with
    | error e => rfl
    | ok y =>
      cases mapR g xs with
      | error e => rfl
      | ok ys => rfl

/-! ## What the bridge theorems state -/

/-- a Python object denotes a model value: primitives exactly; a `Set` instance holds primitives in their raw spelling, the
    model set their normal forms (the element identity of both sides) -/
inductive Abs : Obj → Val → Prop
  | sc (s : Scalar) : Abs (embS s) (.sc s)
  | set (raw : List Scalar) (h : raw ≠ []) : Abs (setObj raw) (.set (raw.map normS))

/-- the generated code and the model agree on an outcome: the same value, or the exception class of the model's error -/
def Agree (g : E Obj) (m : R Val) : Prop :=
  match m with
  | .ok v => ∃ o, g = .ok o ∧ Abs nfc o v
  | .error e => g = .error (excOf e)

/-- what the bridge needs to know about the normalisation function when a *string element of a set* is concatenated with
    a string: normalising an operand first does not change the normal form of the concatenation (true of NFC: canonical
    equivalence is a congruence for concatenation, and the normal form is a canonical representative) -/
structure NfcLaws : Prop where
  congL : ∀ a b, nfc (nfc a ++ b) = nfc (a ++ b)
  congR : ∀ a b, nfc (a ++ nfc b) = nfc (a ++ b)

theorem excMatch_undef (e : Exc) : Gen.Ex.excMatch e [.UndefinedOperatorError] = true ↔ e = .UndefinedOperatorError := by
  cases e <;> simp [Gen.Ex.excMatch, Gen.Ex.excMro]

theorem excMatch_undef_false (e : Exc) (h : e ≠ .UndefinedOperatorError) : Gen.Ex.excMatch e [.UndefinedOperatorError] = false := by
  rw [Bool.eq_false_iff]; intro h'; exact h ((excMatch_undef e).mp h')

theorem dedup_map_normS (l : List Scalar) : dedup (l.map normS) = (dedupK normS l).map normS := by
  induction l with
  | nil => rfl
  | cons x xs ih =>
    simp only [List.map_cons, dedup, dedupK, ih]
    split <;> simp

theorem mapR_map {α β γ : Type} (f : β → R γ) (g : α → β) (l : List α) : mapR f (l.map g) = mapR (fun x => f (g x)) l := by
  induction l with
  | nil => rfl
  | cons x xs ih => simp only [List.map_cons, mapR, ih]

theorem mapR_congr {α β : Type} (f g : α → R β) (l : List α) (h : ∀ x, f x = g x) : mapR f l = mapR g l := by
  have : f = g := funext h
  rw [this]

theorem mapR_post {α β γ : Type} (f : α → R β) (k : β → γ) (l : List α) :
    mapR (fun x => (f x).map k) l = (mapR f l).map (List.map k) := by
  induction l with
  | nil => rfl
  | cons x xs ih =>
    simp only [mapR, ih]
    cases f x with
    | error e => rfl
    | ok y => cases mapR f xs with
      | error e => rfl
      | ok ys => rfl

theorem scBinEl_normS_left (hl : NfcLaws nfc) (op : BinOp) (hop : op.isArith = true) (x y : Scalar) :
    @scBinEl SN op (normS x) y = @scBinEl SN op x y := by
  cases x with
  | rat p => rfl
  | bool b => rfl
  | str cs =>
    cases y with
    | rat q => cases op <;> rfl
    | bool b => cases op <;> rfl
    | str ds =>
      cases op <;> first | rfl | (simp [BinOp.isArith] at hop; done) | skip
      show Except.ok (Scalar.str (nfc (nfc cs ++ ds))) = Except.ok (Scalar.str (nfc (cs ++ ds)))
      rw [hl.congL]

theorem scBinEl_normS_right (hl : NfcLaws nfc) (op : BinOp) (hop : op.isArith = true) (x y : Scalar) :
    @scBinEl SN op x (normS y) = @scBinEl SN op x y := by
  cases y with
  | rat p => rfl
  | bool b => rfl
  | str ds =>
    cases x with
    | rat q => cases op <;> rfl
    | bool b => cases op <;> rfl
    | str cs =>
      cases op <;> first | rfl | (simp [BinOp.isArith] at hop; done) | skip
      show Except.ok (Scalar.str (nfc (cs ++ nfc ds))) = Except.ok (Scalar.str (nfc (cs ++ ds)))
      rw [hl.congR]

end sets

end BridgeEx
