import Bridge.Basic
import Gen.ExprOps
import Model.Expr
import Proofs.ExprPyLib
/-!
  Bridge for the operator semantics of the constant-expression evaluator: the definitions that `tools/py2lean_expr.py`
  generates from `pydsdl/_expression/{_any,_primitive,_container,_operator}.py` (`Gen/ExprOps.lean`, re-generated on every run)
  against the hand-written model `Model/Expr.lean` (`Ex.evalBin`, `Ex.evalUn`, `Ex.evalAttr`).
-/
set_option linter.unusedSimpArgs false
set_option linter.unusedTactic false
set_option linter.unreachableTactic false
set_option linter.unusedVariables false
set_option maxRecDepth 8000
namespace BridgeEx
open Py Ex PyEx Bridge

/-! ## Model values as Python objects -/

/-- a model scalar as an instance of `Rational` / `Boolean` / `String` -/
def embS : Scalar → Obj
  | .rat q => .inst .Rational [("_value", .frac q.num q.den)]
  | .bool b => .inst .Boolean [("_value", .bool b)]
  | .str cs => .inst .String [("_value", .str cs)]

def kindCls : Scalar → Cls
  | .rat _ => .Rational
  | .bool _ => .Boolean
  | .str _ => .String

def headCls : List Scalar → Obj
  | [] => .none
  | x :: _ => .cls (kindCls x)

/-- an instance of `Set` with the given elements (in the library a string element keeps its raw text) -/
def setObj (raw : List Scalar) : Obj :=
  .inst .Set [("_element_type", headCls raw), ("_value", .fset (raw.map embS))]

/-- the Python exception behind a model error -/
def excOf : Ex.Err → Exc
  | .invalid .undefinedOp => .UndefinedOperatorError
  | .invalid .undefinedAttr => .UndefinedAttributeError
  | .invalid .divZero => .InvalidOperandError
  | .invalid .nonInteger => .InvalidOperandError
  | .invalid .emptySet => .InvalidOperandError
  | .invalid .hetero => .InvalidOperandError
  | .invalid _ => .InvalidDefinitionError
  | .hazard .powComplex => .InvalidOperandError        -- rejected since the fix of `Rational._generic_arithmetic`
  | .hazard .powFloatOverflow => .InvalidOperandError
  | .hazard _ => .unmodelled "hazard"
  | .inexact => .unmodelled "float"
  | .unsupported => .unmodelled "hash"

def convS : R Scalar → E Obj
  | .ok s => .ok (embS s)
  | .error e => .error (excOf e)

/-- the function of `_operator.py` behind a binary operator of the grammar (`_parser.py`, `_visit_binary_operator_chain`) -/
def genBin : BinOp → Py.Env → Obj → Obj → E Obj
  | .lor => Gen.Ex.logical_or
  | .land => Gen.Ex.logical_and
  | .eq => Gen.Ex.equal
  | .ne => Gen.Ex.not_equal
  | .le => Gen.Ex.less_or_equal
  | .ge => Gen.Ex.greater_or_equal
  | .lt => Gen.Ex.less
  | .gt => Gen.Ex.greater
  | .bor => Gen.Ex.bitwise_or
  | .bxor => Gen.Ex.bitwise_xor
  | .band => Gen.Ex.bitwise_and
  | .add => Gen.Ex.add
  | .sub => Gen.Ex.subtract
  | .mul => Gen.Ex.multiply
  | .div => Gen.Ex.divide
  | .mod => Gen.Ex.modulo
  | .pow => Gen.Ex.power

def genUn : UnOp → Py.Env → Obj → E Obj
  | .pos => Gen.Ex.positive
  | .neg => Gen.Ex.negative
  | .not => Gen.Ex.logical_not

/-! ## Primitives -/

/-- every pair of primitives that is not a pair of rationals: evaluation is closed -/
theorem gen_scBin_easy (env : Py.Env) (op : BinOp) (a b : Scalar) (h : ¬ (∃ p q, a = .rat p ∧ b = .rat q)) :
    genBin op env (embS a) (embS b) = convS (@scBin ⟨env.nfc⟩ op a b) := by
  cases a with
  | rat p => cases b with
    | rat q => exact absurd ⟨p, q, rfl, rfl⟩ h
    | bool y => cases op <;> rfl
    | str y => cases op <;> rfl
  | bool x => cases b with
    | rat q => cases op <;> rfl
    | bool y => cases op <;> cases x <;> cases y <;> rfl
    | str y => cases op <;> rfl
  | str x => cases b with
    | rat q => cases op <;> rfl
    | bool y => cases op <;> rfl
    | str y =>
      -- `==` / `!=` may compare the two normal forms in either order
      cases op <;> first
        | rfl
        | (show Except.ok (embS (.bool (env.nfc y == env.nfc x))) = Except.ok (embS (.bool (env.nfc x == env.nfc y)))
           rw [Bool.beq_comm]; done)
        | (show Except.ok (embS (.bool (!(env.nfc y == env.nfc x)))) = Except.ok (embS (.bool (env.nfc x != env.nfc y)))
           rw [Bool.beq_comm]; rfl)

/-! ## The `_auto_swap` wrapper -/

def emb : Val → Obj
  | .sc s => embS s
  | .set raw => setObj raw

local notation "wrapper" => Gen.Ex._auto_swap.decorator.wrapper

/-- the wrapper looks at its two function arguments only through `direct left right` and `alt right left` -/
theorem wrapper_param (env : Py.Env) (direct alt : Obj → Obj → E Obj) (A B : Obj) :
    wrapper env direct alt A B = wrapper env (fun _ _ => direct A B) (fun _ _ => alt B A) A B := rfl

theorem wrapper_ok (env : Py.Env) (direct alt : Obj → Obj → E Obj) (a b v : Val)
    (h : direct (emb a) (emb b) = .ok (emb v)) : wrapper env direct alt (emb a) (emb b) = .ok (emb v) := by
  rw [wrapper_param, h]
  rcases a with (_ | _ | _) | _ <;> rcases b with (_ | _ | _) | _ <;> rcases v with (_ | _ | _) | _ <;> rfl

/-- an exception of the direct operator that is not `UndefinedOperatorError` (nor a subclass) passes -/
theorem wrapper_err (env : Py.Env) (direct alt : Obj → Obj → E Obj) (a b : Val) (e : Exc)
    (h : direct (emb a) (emb b) = .error e) (he : Gen.Ex.excMatch e [.UndefinedOperatorError] = false) :
    wrapper env direct alt (emb a) (emb b) = .error e := by
  rw [wrapper_param, h]
  rcases a with (_ | _ | _) | _ <;> rcases b with (_ | _ | _) | _ <;> cases e <;> first | rfl | exact absurd he (by decide)

/-- `UndefinedOperatorError` and operands of one class: re-raised -/
theorem wrapper_undef_same (env : Py.Env) (direct alt : Obj → Obj → E Obj) (a b : Val)
    (h : direct (emb a) (emb b) = .error .UndefinedOperatorError) (hk : a.kind = b.kind) :
    wrapper env direct alt (emb a) (emb b) = .error .UndefinedOperatorError := by
  rw [wrapper_param, h]
  rcases a with (_ | _ | _) | _ <;> rcases b with (_ | _ | _) | _ <;> first | rfl | (simp [Val.kind, Scalar.kind] at hk)

/-- `UndefinedOperatorError` and operands of different classes: the alternative method of the right operand decides -/
theorem wrapper_undef_diff_ok (env : Py.Env) (direct alt : Obj → Obj → E Obj) (a b v : Val)
    (h : direct (emb a) (emb b) = .error .UndefinedOperatorError) (hk : a.kind ≠ b.kind)
    (h2 : alt (emb b) (emb a) = .ok (emb v)) :
    wrapper env direct alt (emb a) (emb b) = .ok (emb v) := by
  rw [wrapper_param, h, h2]
  rcases a with (_ | _ | _) | _ <;> rcases b with (_ | _ | _) | _ <;>
    first | exact absurd rfl hk | (rcases v with (_ | _ | _) | _ <;> rfl)

theorem wrapper_undef_diff_err (env : Py.Env) (direct alt : Obj → Obj → E Obj) (a b : Val) (e : Exc)
    (h : direct (emb a) (emb b) = .error .UndefinedOperatorError) (hk : a.kind ≠ b.kind)
    (h2 : alt (emb b) (emb a) = .error e) :
    wrapper env direct alt (emb a) (emb b) = .error e := by
  rw [wrapper_param, h, h2]
  rcases a with (_ | _ | _) | _ <;> rcases b with (_ | _ | _) | _ <;> first | exact absurd rfl hk | rfl

/-! ## Rationals -/

/-- an instance of `Rational` by numerator and denominator -/
def R' (n : Int) (d : Nat) : Obj := .inst .Rational [("_value", .frac n d)]

theorem embS_rat (a : Rat) : embS (.rat a) = R' a.num a.den := rfl

local notation "GA" => Gen.Ex.Rational._generic_arithmetic

theorem GA_param (env : Py.Env) (impl : Obj → Obj → E Obj) (n m : Int) (d e : Nat) :
    GA env (R' n d) (R' m e) impl = GA env (R' n d) (R' m e) (fun _ _ => impl (.frac n d) (.frac m e)) := rfl

theorem GA_ok (env : Py.Env) (impl : Obj → Obj → E Obj) (n m p : Int) (d e q : Nat)
    (h : impl (.frac n d) (.frac m e) = .ok (.frac p q)) : GA env (R' n d) (R' m e) impl = .ok (R' p q) := by
  rw [GA_param, h]; rfl

theorem GA_complex (env : Py.Env) (impl : Obj → Obj → E Obj) (n m : Int) (d e : Nat)
    (h : impl (.frac n d) (.frac m e) = .ok .complex) : GA env (R' n d) (R' m e) impl = .error .InvalidOperandError := by
  rw [GA_param, h]; rfl

theorem GA_zerodiv (env : Py.Env) (impl : Obj → Obj → E Obj) (n m : Int) (d e : Nat)
    (h : impl (.frac n d) (.frac m e) = .error .ZeroDivisionError) : GA env (R' n d) (R' m e) impl = .error .InvalidOperandError := by
  rw [GA_param, h]; rfl

theorem GA_overflow (env : Py.Env) (impl : Obj → Obj → E Obj) (n m : Int) (d e : Nat)
    (h : impl (.frac n d) (.frac m e) = .error .OverflowError) : GA env (R' n d) (R' m e) impl = .error .InvalidOperandError := by
  rw [GA_param, h]; rfl

theorem GA_unmodelled (env : Py.Env) (impl : Obj → Obj → E Obj) (n m : Int) (d e : Nat) (s : String)
    (h : impl (.frac n d) (.frac m e) = .error (.unmodelled s)) : GA env (R' n d) (R' m e) impl = .error (.unmodelled s) := by
  rw [GA_param, h]; rfl

/-- the native operator behind an arithmetic method of `Rational` -/
def genImpl : BinOp → Py.Env → Obj → Obj → E Obj
  | .add => Py.op_add
  | .sub => Py.op_sub
  | .mul => Py.op_mul
  | .div => Py.op_truediv
  | .mod => Py.op_mod
  | _ => Py.op_pow

theorem arith_unfold (env : Py.Env) (op : BinOp) (hop : op.isArith = true) (n m : Int) (d e : Nat) :
    genBin op env (R' n d) (R' m e) =
      wrapper env (fun _ _ => GA env (R' n d) (R' m e) (genImpl op env))
        (fun _ _ => .error .UndefinedOperatorError) (R' n d) (R' m e) := by
  cases op <;> first | (simp [BinOp.isArith] at hop; done) | (simp only [genBin, Gen.Ex.add, Gen.Ex.subtract, Gen.Ex.multiply, Gen.Ex.divide, Gen.Ex.modulo, Gen.Ex.power]; conv_lhs => rw [wrapper_param]); rfl

theorem arith_rat_ok (env : Py.Env) (op : BinOp) (hop : op.isArith = true) (a b c : Rat)
    (h : genImpl op env (.frac a.num a.den) (.frac b.num b.den) = .ok (.frac c.num c.den)) :
    genBin op env (embS (.rat a)) (embS (.rat b)) = .ok (embS (.rat c)) := by
  rw [embS_rat, embS_rat, arith_unfold env op hop]
  exact wrapper_ok env _ _ (.sc (.rat a)) (.sc (.rat b)) (.sc (.rat c)) (by
    show GA env (R' _ _) (R' _ _) (genImpl op env) = _
    rw [GA_ok env (genImpl op env) _ _ _ _ _ _ h]; rfl)

theorem arith_rat_err (env : Py.Env) (op : BinOp) (hop : op.isArith = true) (a b : Rat) (e : Exc)
    (he : Gen.Ex.excMatch e [.UndefinedOperatorError] = false)
    (h : GA env (R' a.num a.den) (R' b.num b.den) (genImpl op env) = .error e) :
    genBin op env (embS (.rat a)) (embS (.rat b)) = .error e := by
  rw [embS_rat, embS_rat, arith_unfold env op hop]
  exact wrapper_err env _ _ (.sc (.rat a)) (.sc (.rat b)) e (by
    show GA env (R' _ _) (R' _ _) (genImpl op env) = _
    rw [h]) he

theorem gen_arith_rat (env : Py.Env) (op : BinOp) (hop : op.isArith = true) (a b : Rat) :
    genBin op env (embS (.rat a)) (embS (.rat b)) = convS (@scBin ⟨env.nfc⟩ op (.rat a) (.rat b)) := by
  cases op <;> try (simp [BinOp.isArith] at hop)
  · -- add
    exact arith_rat_ok env .add rfl a b (a + b) (by
      show Except.ok (mkFrac (a.num * b.den + b.num * a.den) (a.den * b.den)) = _
      rw [frac_add]; rfl)
  · exact arith_rat_ok env .sub rfl a b (a - b) (by
      show Except.ok (mkFrac (a.num * b.den - b.num * a.den) (a.den * b.den)) = _
      rw [frac_sub]; rfl)
  · exact arith_rat_ok env .mul rfl a b (a * b) (by
      show Except.ok (mkFrac (a.num * b.num) (a.den * b.den)) = _
      rw [frac_mul]; rfl)
  · -- div
    by_cases hb : b = 0
    · subst hb
      have h : genImpl .div env (.frac a.num a.den) (.frac (0 : Rat).num (0 : Rat).den) = .error .ZeroDivisionError := by
        show mkFracI (a.num * ((0 : Rat).den : Int)) ((a.den : Int) * (0 : Rat).num) = _
        exact frac_div_zero a _
      have := arith_rat_err env .div rfl a 0 .InvalidOperandError rfl (GA_zerodiv env (genImpl _ env) _ _ _ _ h)
      rw [this]; simp [scBin, convS, inval, excOf]
    · have h : genImpl .div env (.frac a.num a.den) (.frac b.num b.den) = .ok (.frac (a / b).num (a / b).den) :=
        frac_div a b hb
      rw [arith_rat_ok env .div rfl a b (a / b) h]; simp [scBin, hb, convS]
  · -- mod
    by_cases hb : b = 0
    · subst hb
      have h : genImpl .mod env (.frac a.num a.den) (.frac (0 : Rat).num (0 : Rat).den) = .error .ZeroDivisionError := by
        show (if (0 : Rat).num * (a.den : Int) = 0 then _ else _) = _
        simp; rfl
      have := arith_rat_err env .mod rfl a 0 .InvalidOperandError rfl (GA_zerodiv env (genImpl _ env) _ _ _ _ h)
      rw [this]; simp [scBin, convS, inval, excOf]
    · have hn : b.num ≠ 0 := fun h => hb (Rat.num_eq_zero.mp h)
      have hD : b.num * (a.den : Int) ≠ 0 := Int.mul_ne_zero hn (by exact_mod_cast a.den_nz)
      have h : genImpl .mod env (.frac a.num a.den) (.frac b.num b.den) = .ok (.frac (ratMod a b).num (ratMod a b).den) := by
        show (if b.num * (a.den : Int) = 0 then _ else pure (mkFrac (Int.fmod (a.num * b.den) (b.num * a.den)) (a.den * b.den))) = _
        rw [if_neg hD, frac_mod a b hb]; rfl
      rw [arith_rat_ok env .mod rfl a b (ratMod a b) h]; simp [scBin, hb, convS]
  · -- pow
    have h : genImpl .pow env (.frac a.num a.den) (.frac b.num b.den) = powRes (scPow a b) := fracPow_eq a b
    show _ = convS ((scPow a b).map Scalar.rat)
    rcases hs : scPow a b with e | c
    · rw [hs] at h
      have hcases : e = .invalid .divZero ∨ e = .hazard .powComplex ∨ e = .hazard .powFloatOverflow ∨ e = .inexact := by
        unfold scPow at hs
        split at hs
        · exact Or.inl (ratPowInt_err _ _ _ hs)
        · split at hs
          · cases hs; exact Or.inr (Or.inl rfl)
          · split at hs <;> cases hs
            · exact Or.inr (Or.inr (Or.inl rfl))
            · exact Or.inr (Or.inr (Or.inr rfl))
      rcases hcases with rfl | rfl | rfl | rfl
      · exact arith_rat_err env .pow rfl a b .InvalidOperandError rfl (GA_zerodiv env (genImpl _ env) _ _ _ _ h)
      · exact arith_rat_err env .pow rfl a b .InvalidOperandError rfl (GA_complex env (genImpl _ env) _ _ _ _ h)
      · exact arith_rat_err env .pow rfl a b .InvalidOperandError rfl (GA_overflow env (genImpl _ env) _ _ _ _ h)
      · exact arith_rat_err env .pow rfl a b (.unmodelled "float") rfl (GA_unmodelled env (genImpl _ env) _ _ _ _ _ h)
    · rw [hs] at h
      exact arith_rat_ok env .pow rfl a b c h

theorem gen_cmp_rat (env : Py.Env) (op : BinOp) (a b : Rat) (hop : op = .eq ∨ op = .ne ∨ op = .le ∨ op = .ge ∨ op = .lt ∨ op = .gt) :
    genBin op env (embS (.rat a)) (embS (.rat b)) = convS (@scBin ⟨env.nfc⟩ op (.rat a) (.rat b)) := by
  rcases hop with rfl | rfl | rfl | rfl | rfl | rfl
  · show Except.ok (embS (.bool (a.num == b.num && a.den == b.den))) = _
    rw [cmp_eq]; rfl
  · show Except.ok (embS (.bool (!(a.num == b.num && a.den == b.den)))) = _
    rw [cmp_eq]; rfl
  · show Except.ok (embS (.bool (decide (a.num * b.den ≤ b.num * a.den)))) = _
    rw [cmp_le]; rfl
  · show Except.ok (embS (.bool (decide (b.num * a.den ≤ a.num * b.den)))) = _
    rw [cmp_le]; rfl
  · show Except.ok (embS (.bool (decide (a.num * b.den < b.num * a.den)))) = _
    rw [cmp_lt]; rfl
  · show Except.ok (embS (.bool (decide (b.num * a.den < a.num * b.den)))) = _
    rw [cmp_lt]; rfl

/-- `|`, `^`, `&` on two `Rational`s: integers only, and then Python's integer operator -/
theorem gen_bit_raw (env : Py.Env) (n m : Int) (d e : Nat) :
    (Gen.Ex.bitwise_or env (R' n d) (R' m e) =
      if d = 1 ∧ e = 1 then .ok (R' (Py.intOr n m) 1) else .error .InvalidOperandError) ∧
    (Gen.Ex.bitwise_xor env (R' n d) (R' m e) =
      if d = 1 ∧ e = 1 then .ok (R' (Py.intXor n m) 1) else .error .InvalidOperandError) ∧
    (Gen.Ex.bitwise_and env (R' n d) (R' m e) =
      if d = 1 ∧ e = 1 then .ok (R' (Py.intAnd n m) 1) else .error .InvalidOperandError) := by
  match d, e with
  | 1, 1 => exact ⟨rfl, rfl, rfl⟩
  | 0, _ => exact ⟨rfl, rfl, rfl⟩
  | (k + 2), _ => exact ⟨rfl, rfl, rfl⟩
  | 1, 0 => exact ⟨rfl, rfl, rfl⟩
  | 1, (k + 2) => exact ⟨rfl, rfl, rfl⟩

theorem gen_bit_rat (env : Py.Env) (op : BinOp) (a b : Rat) (hop : op = .bor ∨ op = .bxor ∨ op = .band) :
    genBin op env (embS (.rat a)) (embS (.rat b)) = convS (@scBin ⟨env.nfc⟩ op (.rat a) (.rat b)) := by
  have h := gen_bit_raw env a.num b.num a.den b.den
  have key : ∀ (f : Int → Int → Int) (g : Int → Int → Int), (∀ x y, f x y = g x y) →
      (if a.den = 1 ∧ b.den = 1 then Except.ok (R' (f a.num b.num) 1) else .error .InvalidOperandError) =
        convS (bitwise g a b) := by
    intro f g hfg
    unfold bitwise Rat.isInt'
    by_cases h1 : a.den = 1 <;> by_cases h2 : b.den = 1 <;> simp [h1, h2, convS, inval, excOf, hfg, embS, R']
  rcases hop with rfl | rfl | rfl
  · exact h.1.trans (key _ _ intOr_eq)
  · exact h.2.1.trans (key _ _ intXor_eq)
  · exact h.2.2.trans (key _ _ intAnd_eq)

/-- **Primitives.**  On every pair of primitives every binary operator function of `_operator.py`, as translated, returns
    what the model's `scBin` returns: the same value or the exception class of the model's error. -/
theorem gen_scBin (env : Py.Env) (op : BinOp) (a b : Scalar) :
    genBin op env (embS a) (embS b) = convS (@scBin ⟨env.nfc⟩ op a b) := by
  by_cases h : ∃ p q, a = .rat p ∧ b = .rat q
  · obtain ⟨p, q, rfl, rfl⟩ := h
    cases op
    case lor => rfl
    case land => rfl
    case eq => exact gen_cmp_rat env _ p q (by simp)
    case ne => exact gen_cmp_rat env _ p q (by simp)
    case le => exact gen_cmp_rat env _ p q (by simp)
    case ge => exact gen_cmp_rat env _ p q (by simp)
    case lt => exact gen_cmp_rat env _ p q (by simp)
    case gt => exact gen_cmp_rat env _ p q (by simp)
    case bor => exact gen_bit_rat env _ p q (by simp)
    case bxor => exact gen_bit_rat env _ p q (by simp)
    case band => exact gen_bit_rat env _ p q (by simp)
    case add => exact gen_arith_rat env _ rfl p q
    case sub => exact gen_arith_rat env _ rfl p q
    case mul => exact gen_arith_rat env _ rfl p q
    case div => exact gen_arith_rat env _ rfl p q
    case mod => exact gen_arith_rat env _ rfl p q
    case pow => exact gen_arith_rat env _ rfl p q
  · exact gen_scBin_easy env op a b h

/-! ## Unary operators -/

def conv (r : R Val) : E Obj :=
  match r with
  | .ok v => .ok (emb v)
  | .error e => .error (excOf e)

theorem gen_evalUn (env : Py.Env) (op : UnOp) (v : Val) : genUn op env (emb v) = conv (evalUn op v) := by
  rcases v with (_ | _ | _) | _ <;> cases op <;> rfl

end BridgeEx
