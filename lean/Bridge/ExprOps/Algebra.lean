import Bridge.ExprOps.Elementwise
/-!
  Bridge for the operator semantics, part 4: two sets (comparison, union / intersection / symmetric difference, and the
  operators that are undefined for this combination).
-/
set_option linter.unusedSimpArgs false
set_option linter.unusedVariables false
set_option maxRecDepth 8000
namespace BridgeEx
open Py Ex PyEx Bridge

section
variable (nfc : List Nat → List Nat) (n : Nat)

local notation "env1" => Gen.Ex.env nfc (n + 1)
local notation "SN" => (StrNorm.mk nfc)
local notation "normS" => @normSc (StrNorm.mk nfc)
local notation "wrapper" => Gen.Ex._auto_swap.decorator.wrapper
local notation "homoW" => Gen.Ex.Set._Decorator.homotypic_binary_operator.wrapper

/-- the homotypic decorator: the element types (the class of the first element) must agree -/
theorem homo_eq (inferior : Obj → Obj → E Obj) (ra rb : List Scalar) (ha : ra ≠ []) (hb : rb ≠ []) :
    homoW env1 inferior (setObj ra) (setObj rb) =
      if setKind ra != setKind rb then .error .InvalidOperandError else inferior (setObj ra) (setObj rb) := by
  cases ra with
  | nil => exact absurd rfl ha
  | cons x xs => cases rb with
    | nil => exact absurd rfl hb
    | cons y ys => cases x <;> cases y <;> rfl

theorem ev_value_set (env : Py.Env) (raw : List Scalar) : Py.getattr env (setObj raw) "_value" = .ok (.fset (raw.map embS)) := rfl

/-- membership in the other set, on the normal forms -/
def memN (b : List Scalar) (x : Scalar) : Bool := decide (normS x ∈ b.map normS)

theorem w_is_equal (ra rb : List Scalar) :
    Gen.Ex.Set._is_equal_to.__wrapped__ env1 (setObj ra) (setObj rb) =
      .ok (.bool (ra.all (memN nfc rb) && rb.all (memN nfc ra))) := by
  show (do let l ← fsSubset env1 (ra.map embS) (rb.map embS); let r ← fsSubset env1 (rb.map embS) (ra.map embS); pure (Obj.bool (l && r))) = _
  rw [fsSubset_ok (sameSpec_embS nfc n), fsSubset_ok (sameSpec_embS nfc n)]
  rfl

theorem w_is_subset (ra rb : List Scalar) :
    Gen.Ex.Set._is_subset_of.__wrapped__ env1 (setObj ra) (setObj rb) = .ok (.bool (ra.all (memN nfc rb))) := by
  show (do let r ← fsSubset env1 (ra.map embS) (rb.map embS); pure (Obj.bool r)) = _
  rw [fsSubset_ok (sameSpec_embS nfc n)]
  rfl

theorem w_is_superset (ra rb : List Scalar) :
    Gen.Ex.Set._is_superset_of.__wrapped__ env1 (setObj ra) (setObj rb) = .ok (.bool (rb.all (memN nfc ra))) := by
  show (do let r ← fsSubset env1 (rb.map embS) (ra.map embS); pure (Obj.bool r)) = _
  rw [fsSubset_ok (sameSpec_embS nfc n)]
  rfl

theorem ev_isinstance_set_set (env : Py.Env) (r : List Scalar) : Py.isinstance Gen.Ex.mro env (setObj r) (.cls .Set) = .ok (.bool true) := rfl
theorem ev_bool_new (env : Py.Env) (t : Bool) : Gen.Ex.Boolean.__new__ env (.bool t) = .ok (embS (.bool t)) := rfl
theorem ev_isinstance_bool (env : Py.Env) (t : Bool) : Py.isinstance Gen.Ex.mro env (embS (.bool t)) (.cls .Boolean) = .ok (.bool true) := rfl
theorem ev_assert_true : Py.assert_ true = .ok () := rfl

/-- the result of a homotypic operator: rejected when the element types differ -/
def homoRes (ra rb : List Scalar) (v : E Obj) : E Obj :=
  if setKind ra != setKind rb then .error .InvalidOperandError else v

section decorated
variable (ra rb : List Scalar) (ha : ra ≠ []) (hb : rb ≠ [])
include ha hb

theorem d_is_equal : Gen.Ex.Set._is_equal_to env1 (setObj ra) (setObj rb) =
    homoRes ra rb (.ok (.bool (ra.all (memN nfc rb) && rb.all (memN nfc ra)))) := by
  unfold Gen.Ex.Set._is_equal_to; rw [homo_eq nfc n _ ra rb ha hb, w_is_equal]; rfl

theorem d_is_subset : Gen.Ex.Set._is_subset_of env1 (setObj ra) (setObj rb) =
    homoRes ra rb (.ok (.bool (ra.all (memN nfc rb)))) := by
  unfold Gen.Ex.Set._is_subset_of; rw [homo_eq nfc n _ ra rb ha hb, w_is_subset]; rfl

theorem d_is_superset : Gen.Ex.Set._is_superset_of env1 (setObj ra) (setObj rb) =
    homoRes ra rb (.ok (.bool (rb.all (memN nfc ra)))) := by
  unfold Gen.Ex.Set._is_superset_of; rw [homo_eq nfc n _ ra rb ha hb, w_is_superset]; rfl

theorem d_is_proper_subset : Gen.Ex.Set._is_proper_subset_of env1 (setObj ra) (setObj rb) =
    homoRes ra rb (.ok (.bool (ra.all (memN nfc rb) && !(ra.all (memN nfc rb) && rb.all (memN nfc ra))))) := by
  unfold Gen.Ex.Set._is_proper_subset_of; rw [homo_eq nfc n _ ra rb ha hb]
  unfold homoRes
  by_cases hk : (setKind ra != setKind rb) = true
  · simp only [hk, ↓reduceIte]
  · simp only [hk, Bool.false_eq_true, ↓reduceIte]
    unfold Gen.Ex.Set._is_proper_subset_of.__wrapped__
    rw [d_is_subset nfc n ra rb ha hb, d_is_equal nfc n ra rb ha hb]
    unfold homoRes
    simp only [hk, Bool.false_eq_true, ↓reduceIte, ok_bind, truthy_bool]
    cases ra.all (memN nfc rb) <;> cases rb.all (memN nfc ra) <;> rfl

theorem d_is_proper_superset : Gen.Ex.Set._is_proper_superset_of env1 (setObj ra) (setObj rb) =
    homoRes ra rb (.ok (.bool (rb.all (memN nfc ra) && !(ra.all (memN nfc rb) && rb.all (memN nfc ra))))) := by
  unfold Gen.Ex.Set._is_proper_superset_of; rw [homo_eq nfc n _ ra rb ha hb]
  unfold homoRes
  by_cases hk : (setKind ra != setKind rb) = true
  · simp only [hk, ↓reduceIte]
  · simp only [hk, Bool.false_eq_true, ↓reduceIte]
    unfold Gen.Ex.Set._is_proper_superset_of.__wrapped__
    rw [d_is_superset nfc n ra rb ha hb, d_is_equal nfc n ra rb ha hb]
    unfold homoRes
    simp only [hk, Bool.false_eq_true, ↓reduceIte, ok_bind, truthy_bool]
    cases ra.all (memN nfc rb) <;> cases rb.all (memN nfc ra) <;> rfl

end decorated

/-- a result of the direct operator that is a value or an `InvalidOperandError` passes through `_auto_swap` unchanged -/
theorem wrapper_pass (env : Py.Env) (direct alt : Obj → Obj → E Obj) (a b : Val) (r : E Obj)
    (h : direct (emb a) (emb b) = r) (hr : r = .error .InvalidOperandError ∨ ∃ v, r = .ok (emb v)) :
    wrapper env direct alt (emb a) (emb b) = r := by
  rcases hr with rfl | ⟨v, rfl⟩
  · exact wrapper_err env direct alt a b _ h rfl
  · exact wrapper_ok env direct alt a b v h

theorem homoRes_form (ra rb : List Scalar) (v : Val) :
    homoRes ra rb (.ok (emb v)) = .error .InvalidOperandError ∨ ∃ w, homoRes ra rb (.ok (emb v)) = .ok (emb w) := by
  unfold homoRes
  split
  · exact Or.inl rfl
  · exact Or.inr ⟨v, rfl⟩

def cmpRes (op : BinOp) (ra rb : List Scalar) : Bool :=
  match op with
  | .eq => ra.all (memN nfc rb) && rb.all (memN nfc ra)
  | .ne => !(ra.all (memN nfc rb) && rb.all (memN nfc ra))
  | .le => ra.all (memN nfc rb)
  | .ge => rb.all (memN nfc ra)
  | .lt => ra.all (memN nfc rb) && !(ra.all (memN nfc rb) && rb.all (memN nfc ra))
  | .gt => rb.all (memN nfc ra) && !(ra.all (memN nfc rb) && rb.all (memN nfc ra))
  | _ => false

section cmp
variable (ra rb : List Scalar) (ha : ra ≠ []) (hb : rb ≠ [])
include ha hb

theorem direct_cmp :
    (Gen.Ex.equal.__wrapped__ env1 (setObj ra) (setObj rb) = homoRes ra rb (.ok (emb (.sc (.bool (cmpRes nfc .eq ra rb)))))) ∧
    (Gen.Ex.less_or_equal.__wrapped__ env1 (setObj ra) (setObj rb) = homoRes ra rb (.ok (emb (.sc (.bool (cmpRes nfc .le ra rb)))))) ∧
    (Gen.Ex.greater_or_equal.__wrapped__ env1 (setObj ra) (setObj rb) = homoRes ra rb (.ok (emb (.sc (.bool (cmpRes nfc .ge ra rb)))))) ∧
    (Gen.Ex.less.__wrapped__ env1 (setObj ra) (setObj rb) = homoRes ra rb (.ok (emb (.sc (.bool (cmpRes nfc .lt ra rb)))))) ∧
    (Gen.Ex.greater.__wrapped__ env1 (setObj ra) (setObj rb) = homoRes ra rb (.ok (emb (.sc (.bool (cmpRes nfc .gt ra rb)))))) := by
  refine ⟨?_, ?_, ?_, ?_, ?_⟩
  · show (do let t ← Gen.Ex.Set._equal env1 (setObj ra) (setObj rb); let r := t; let t2 ← Py.isinstance Gen.Ex.mro env1 r (.cls .Boolean)
             let c ← Py.truthy env1 t2; Py.assert_ c; pure r) = _
    unfold Gen.Ex.Set._equal
    simp only [ev_isinstance_set_set, ok_bind, truthy_bool, ↓reduceIte, d_is_equal nfc n ra rb ha hb, homoRes, cmpRes]
    split <;> rfl
  · show (do let t ← Gen.Ex.Set._less_or_equal env1 (setObj ra) (setObj rb); let r := t; let t2 ← Py.isinstance Gen.Ex.mro env1 r (.cls .Boolean)
             let c ← Py.truthy env1 t2; Py.assert_ c; pure r) = _
    unfold Gen.Ex.Set._less_or_equal
    simp only [ev_isinstance_set_set, ok_bind, truthy_bool, ↓reduceIte, d_is_subset nfc n ra rb ha hb, homoRes, cmpRes]
    split <;> rfl
  · show (do let t ← Gen.Ex.Set._greater_or_equal env1 (setObj ra) (setObj rb); let r := t; let t2 ← Py.isinstance Gen.Ex.mro env1 r (.cls .Boolean)
             let c ← Py.truthy env1 t2; Py.assert_ c; pure r) = _
    unfold Gen.Ex.Set._greater_or_equal
    simp only [ev_isinstance_set_set, ok_bind, truthy_bool, ↓reduceIte, d_is_superset nfc n ra rb ha hb, homoRes, cmpRes]
    split <;> rfl
  · show (do let t ← Gen.Ex.Set._less env1 (setObj ra) (setObj rb); let r := t; let t2 ← Py.isinstance Gen.Ex.mro env1 r (.cls .Boolean)
             let c ← Py.truthy env1 t2; Py.assert_ c; pure r) = _
    unfold Gen.Ex.Set._less
    simp only [ev_isinstance_set_set, ok_bind, truthy_bool, ↓reduceIte, d_is_proper_subset nfc n ra rb ha hb, homoRes, cmpRes]
    split <;> rfl
  · show (do let t ← Gen.Ex.Set._greater env1 (setObj ra) (setObj rb); let r := t; let t2 ← Py.isinstance Gen.Ex.mro env1 r (.cls .Boolean)
             let c ← Py.truthy env1 t2; Py.assert_ c; pure r) = _
    unfold Gen.Ex.Set._greater
    simp only [ev_isinstance_set_set, ok_bind, truthy_bool, ↓reduceIte, d_is_proper_superset nfc n ra rb ha hb, homoRes, cmpRes]
    split <;> rfl

/-- comparison of two sets: `==` / `!=` extensional, `<=` `>=` sub / superset, `<` `>` proper; rejected when the element types differ -/
theorem gen_set_cmp (op : BinOp) (hop : op = .eq ∨ op = .ne ∨ op = .le ∨ op = .ge ∨ op = .lt ∨ op = .gt) :
    genBin op env1 (setObj ra) (setObj rb) = homoRes ra rb (.ok (emb (.sc (.bool (cmpRes nfc op ra rb))))) := by
  have hw : ∀ (o : BinOp) (direct alt : Obj → Obj → E Obj),
      direct (setObj ra) (setObj rb) = homoRes ra rb (.ok (emb (.sc (.bool (cmpRes nfc o ra rb))))) →
      wrapper env1 direct alt (setObj ra) (setObj rb) = homoRes ra rb (.ok (emb (.sc (.bool (cmpRes nfc o ra rb))))) :=
    fun o direct alt h => wrapper_pass env1 direct alt (.set ra) (.set rb) _ h (homoRes_form ra rb _)
  have hd := direct_cmp nfc n ra rb ha hb
  have heq := hw .eq (Gen.Ex.equal.__wrapped__ env1) (Gen.Ex.dispatch._equal env1) hd.1
  rcases hop with rfl | rfl | rfl | rfl | rfl | rfl
  · exact heq
  · show (do let t ← Gen.Ex.equal env1 (setObj ra) (setObj rb); let t2 ← Gen.Ex.logical_not env1 t; let r := t2
             let t3 ← Py.isinstance Gen.Ex.mro env1 r (.cls .Boolean); let c ← Py.truthy env1 t3; Py.assert_ c; pure r) = _
    show (do let t ← wrapper env1 (Gen.Ex.equal.__wrapped__ env1) (Gen.Ex.dispatch._equal env1) (setObj ra) (setObj rb); _) = _
    rw [heq]
    unfold homoRes cmpRes
    split
    · rfl
    · cases (ra.all (memN nfc rb) && rb.all (memN nfc ra)) <;> rfl
  · exact hw .le (Gen.Ex.less_or_equal.__wrapped__ env1) (Gen.Ex.dispatch._greater_or_equal env1) hd.2.1
  · exact hw .ge (Gen.Ex.greater_or_equal.__wrapped__ env1) (Gen.Ex.dispatch._less_or_equal env1) hd.2.2.1
  · exact hw .lt (Gen.Ex.less.__wrapped__ env1) (Gen.Ex.dispatch._greater env1) hd.2.2.2.1
  · exact hw .gt (Gen.Ex.greater.__wrapped__ env1) (Gen.Ex.dispatch._less env1) hd.2.2.2.2

end cmp

/-! ### union, intersection, symmetric difference -/

theorem ev_fs_union (env : Py.Env) (xs ys : List Obj) :
    Py.fs_union env (.fset xs) (.fset ys) = (fsOfList env (xs ++ ys) >>= fun s => pure (.fset s)) := rfl
theorem ev_fs_intersection (env : Py.Env) (xs ys : List Obj) :
    Py.fs_intersection env (.fset xs) (.fset ys) = (filterE (fun e => fsContains env ys e) xs >>= fun s => pure (.fset s)) := rfl
theorem ev_fs_symdiff (env : Py.Env) (xs ys : List Obj) :
    Py.fs_symmetric_difference env (.fset xs) (.fset ys) =
      (filterE (fun e => do pure (!(← fsContains env ys e))) xs >>= fun l =>
        filterE (fun e => do pure (!(← fsContains env xs e))) ys >>= fun r =>
          fsOfList env (l ++ r) >>= fun s => pure (.fset s)) := rfl
theorem ev_op_or_fset (env : Py.Env) (xs ys : List Obj) : Py.op_or env (.fset xs) (.fset ys) = Py.fs_union env (.fset xs) (.fset ys) := rfl
theorem ev_op_and_fset (env : Py.Env) (xs ys : List Obj) :
    Py.op_and env (.fset xs) (.fset ys) = Py.fs_intersection env (.fset xs) (.fset ys) := rfl
theorem ev_op_xor_fset (env : Py.Env) (xs ys : List Obj) :
    Py.op_xor env (.fset xs) (.fset ys) = Py.fs_symmetric_difference env (.fset xs) (.fset ys) := rfl
theorem ev_set_new_fset (xs : List Obj) : Gen.Ex.Set.__new__ env1 (.fset xs) = Gen.Ex.Set.__new__ env1 (.list xs) := rfl

theorem set_new_ewRes (l : List Scalar) : Gen.Ex.Set.__new__ env1 (.list (l.map embS)) = ewRes nfc (.ok l) := gen_set_new nfc n l

theorem w_union (ra rb : List Scalar) :
    Gen.Ex.Set._create_union_with.__wrapped__ env1 (setObj ra) (setObj rb) = ewRes nfc (.ok (dedupK normS (ra ++ rb))) := by
  unfold Gen.Ex.Set._create_union_with.__wrapped__
  simp only [ev_value_set, ok_bind, ev_op_or_fset, ev_fs_union, ← List.map_append, fsOfList_ok (sameSpec_embS nfc n), pure_eq_ok, ev_set_new_fset,
    set_new_ewRes]

theorem w_intersection (ra rb : List Scalar) :
    Gen.Ex.Set._create_intersection_with.__wrapped__ env1 (setObj ra) (setObj rb) = ewRes nfc (.ok (ra.filter (memN nfc rb))) := by
  unfold Gen.Ex.Set._create_intersection_with.__wrapped__
  simp only [ev_value_set, ok_bind, ev_op_and_fset, ev_fs_intersection, filterE_contains_ok (sameSpec_embS nfc n), pure_eq_ok, ev_set_new_fset,
    set_new_ewRes]
  rfl

theorem w_symdiff (ra rb : List Scalar) :
    Gen.Ex.Set._create_disjunctive_union_with.__wrapped__ env1 (setObj ra) (setObj rb) =
      ewRes nfc (.ok (dedupK normS (ra.filter (fun x => !memN nfc rb x) ++ rb.filter (fun x => !memN nfc ra x)))) := by
  unfold Gen.Ex.Set._create_disjunctive_union_with.__wrapped__
  simp only [ev_value_set, ok_bind, ev_op_xor_fset, ev_fs_symdiff, filterE_not_contains_ok (sameSpec_embS nfc n)]
  simp only [ok_bind, pure_eq_ok, ← List.map_append, fsOfList_ok (sameSpec_embS nfc n), ev_set_new_fset, set_new_ewRes]
  rfl

theorem ewRes_form (l : List Scalar) :
    ewRes nfc (.ok l) = .error .InvalidOperandError ∨ ∃ w, ewRes nfc (.ok l) = .ok (emb w) := by
  show (if l = [] then _ else if sameKinds l then _ else _) = _ ∨ ∃ w, (if l = [] then _ else if sameKinds l then _ else _) = _
  split
  · exact Or.inl rfl
  · split
    · exact Or.inr ⟨.set _, rfl⟩
    · exact Or.inl rfl

theorem homoRes_form' (ra rb : List Scalar) (r : E Obj) (hr : r = .error .InvalidOperandError ∨ ∃ w, r = .ok (emb w)) :
    homoRes ra rb r = .error .InvalidOperandError ∨ ∃ w, homoRes ra rb r = .ok (emb w) := by
  unfold homoRes
  split
  · exact Or.inl rfl
  · exact hr

/-- the list of elements the set algebra operators hand to `Set(...)` -/
def algList (op : BinOp) (ra rb : List Scalar) : List Scalar :=
  match op with
  | .bor => dedupK normS (ra ++ rb)
  | .band => ra.filter (memN nfc rb)
  | _ => dedupK normS (ra.filter (fun x => !memN nfc rb x) ++ rb.filter (fun x => !memN nfc ra x))

/-- `|`, `&`, `^` on two sets; rejected when the element types differ or the result is empty -/
theorem gen_set_alg (ra rb : List Scalar) (ha : ra ≠ []) (hb : rb ≠ []) (op : BinOp) (hop : op = .bor ∨ op = .band ∨ op = .bxor) :
    genBin op env1 (setObj ra) (setObj rb) = homoRes ra rb (ewRes nfc (.ok (algList nfc op ra rb))) := by
  rcases hop with rfl | rfl | rfl
  · refine wrapper_pass env1 _ _ (.set ra) (.set rb) _ ?_ (homoRes_form' ra rb _ (ewRes_form nfc _))
    show Gen.Ex.Set._bitwise_or env1 (setObj ra) (setObj rb) = _
    unfold Gen.Ex.Set._bitwise_or Gen.Ex.Set._create_union_with
    simp only [ev_isinstance_set_set, ok_bind, truthy_bool, ↓reduceIte, homo_eq nfc n _ ra rb ha hb, w_union]
    rfl
  · refine wrapper_pass env1 _ _ (.set ra) (.set rb) _ ?_ (homoRes_form' ra rb _ (ewRes_form nfc _))
    show Gen.Ex.Set._bitwise_and env1 (setObj ra) (setObj rb) = _
    unfold Gen.Ex.Set._bitwise_and Gen.Ex.Set._create_intersection_with
    simp only [ev_isinstance_set_set, ok_bind, truthy_bool, ↓reduceIte, homo_eq nfc n _ ra rb ha hb, w_intersection]
    rfl
  · refine wrapper_pass env1 _ _ (.set ra) (.set rb) _ ?_ (homoRes_form' ra rb _ (ewRes_form nfc _))
    show Gen.Ex.Set._bitwise_xor env1 (setObj ra) (setObj rb) = _
    unfold Gen.Ex.Set._bitwise_xor Gen.Ex.Set._create_disjunctive_union_with
    simp only [ev_isinstance_set_set, ok_bind, truthy_bool, ↓reduceIte, homo_eq nfc n _ ra rb ha hb, w_symdiff]
    rfl

/-! ### against the model -/

theorem setKind_map (ra : List Scalar) : setKind (ra.map normS) = setKind ra := by
  cases ra with
  | nil => rfl
  | cons x xs => simp [setKind, @normSc_kind SN]

theorem subsetL_map (ra rb : List Scalar) : subsetL (ra.map normS) (rb.map normS) = ra.all (memN nfc rb) := by
  unfold subsetL memN
  rw [List.all_map]
  rfl

theorem dedup_of_nodup (l : List Scalar) (h : l.Nodup) : dedup l = l := by
  induction l with
  | nil => rfl
  | cons x xs ih =>
    rw [List.nodup_cons] at h
    simp only [dedup, ih h.2, h.1, ↓reduceIte]

theorem mkSetS_dedup (es : List Scalar) : mkSetS (dedup es) = mkSetS es := by
  unfold mkSetS
  have h1 : (dedup es).isEmpty = es.isEmpty := by
    cases es with
    | nil => rfl
    | cons x xs =>
      have : dedup (x :: xs) ≠ [] := fun h => by
        have := (dedup_eq_nil (x :: xs)).mp h; cases this
      cases hd : dedup (x :: xs) with
      | nil => exact absurd hd this
      | cons _ _ => rfl
  have h2 : sameKinds (dedup es) = sameKinds es := by
    rw [Bool.eq_iff_iff, sameKinds_iff, sameKinds_iff]
    constructor
    · intro h x hx y hy; exact h x ((mem_dedup x es).mpr hx) y ((mem_dedup y es).mpr hy)
    · intro h x hx y hy; exact h x ((mem_dedup x es).mp hx) y ((mem_dedup y es).mp hy)
  rw [h1, h2, dedup_of_nodup _ (nodup_dedup es)]

theorem filter_map_normS (p : Scalar → Bool) (l : List Scalar) :
    (l.map normS).filter p = (l.filter (fun x => p (normS x))).map normS := by
  rw [List.filter_map]; rfl

/-- the model's list for a set algebra operator is the list of normal forms of the generated code's list, up to the
    duplicates that `Set(...)` removes anyway -/
theorem mkSetS_algList (ra rb : List Scalar) (op : BinOp) (hop : op = .bor ∨ op = .band ∨ op = .bxor) :
    mkSetS ((algList nfc op ra rb).map normS) =
      (match op with
       | .bor => mkSetS (ra.map normS ++ rb.map normS)
       | .band => mkSetS ((ra.map normS).filter (· ∈ rb.map normS))
       | _ => mkSetS ((ra.map normS).filter (· ∉ rb.map normS) ++ (rb.map normS).filter (· ∉ ra.map normS))) := by
  rcases hop with rfl | rfl | rfl
  · show mkSetS ((dedupK normS (ra ++ rb)).map normS) = _
    rw [← dedup_map_normS, mkSetS_dedup, List.map_append]
  · show mkSetS ((ra.filter (memN nfc rb)).map normS) = mkSetS ((ra.map normS).filter (· ∈ rb.map normS))
    rw [filter_map_normS]; rfl
  · show mkSetS ((dedupK normS (ra.filter (fun x => !memN nfc rb x) ++ rb.filter (fun x => !memN nfc ra x))).map normS) = _
    have e : ∀ a b : List Scalar, (a.map normS).filter (· ∉ b.map normS) = (a.filter (fun x => !memN nfc b x)).map normS := by
      intro a b
      rw [filter_map_normS]; congr 1; apply List.filter_congr; intro x _
      show decide (¬ normS x ∈ b.map normS) = !decide (normS x ∈ b.map normS)
      exact decide_not
    rw [← dedup_map_normS, mkSetS_dedup, List.map_append, e, e]

/-- **Two sets.** -/
theorem gen_set_set (ra rb : List Scalar) (ha : ra ≠ []) (hb : rb ≠ []) (op : BinOp) :
    Agree nfc (genBin op env1 (setObj ra) (setObj rb)) (@evalBin SN op (.set (ra.map normS)) (.set (rb.map normS))) := by
  show Agree nfc _ (setSet op (ra.map normS) (rb.map normS))
  have hcmp : ∀ o : BinOp, (o = .eq ∨ o = .ne ∨ o = .le ∨ o = .ge ∨ o = .lt ∨ o = .gt) →
      Agree nfc (genBin o env1 (setObj ra) (setObj rb))
        (if setKind ra != setKind rb then inval .hetero else .ok (.bool (cmpRes nfc o ra rb))) := by
    intro o ho
    rw [gen_set_cmp nfc n ra rb ha hb o ho]
    unfold homoRes
    split
    · rfl
    · exact ⟨_, rfl, (Abs.sc (Scalar.bool (cmpRes nfc o ra rb)) : Abs nfc (embS _) (.sc _))⟩
  have halg : ∀ o : BinOp, (o = .bor ∨ o = .band ∨ o = .bxor) →
      Agree nfc (genBin o env1 (setObj ra) (setObj rb))
        (if setKind ra != setKind rb then inval .hetero else mkSetS ((algList nfc o ra rb).map normS)) := by
    intro o ho
    rw [gen_set_alg nfc n ra rb ha hb o ho]
    unfold homoRes
    split
    · rfl
    · exact agree_ewRes nfc (.ok _)
  cases op
  case lor => rfl
  case land => rfl
  case add => rfl
  case sub => rfl
  case mul => rfl
  case div => rfl
  case mod => rfl
  case pow => rfl
  case eq => simpa only [setSet, setKind_map, setEq, subsetL_map, cmpRes] using hcmp .eq (by simp)
  case ne => simpa only [setSet, setKind_map, setEq, subsetL_map, cmpRes] using hcmp .ne (by simp)
  case le => simpa only [setSet, setKind_map, setEq, subsetL_map, cmpRes] using hcmp .le (by simp)
  case ge => simpa only [setSet, setKind_map, setEq, subsetL_map, cmpRes] using hcmp .ge (by simp)
  case lt => simpa only [setSet, setKind_map, setEq, subsetL_map, cmpRes] using hcmp .lt (by simp)
  case gt => simpa only [setSet, setKind_map, setEq, subsetL_map, cmpRes] using hcmp .gt (by simp)
  case bor =>
    have := halg .bor (by simp)
    rw [mkSetS_algList nfc ra rb .bor (by simp)] at this
    simpa only [setSet, setKind_map] using this
  case band =>
    have := halg .band (by simp)
    rw [mkSetS_algList nfc ra rb .band (by simp)] at this
    simpa only [setSet, setKind_map] using this
  case bxor =>
    have := halg .bxor (by simp)
    rw [mkSetS_algList nfc ra rb .bxor (by simp)] at this
    simpa only [setSet, setKind_map] using this

end
end BridgeEx
