import PyLib
import Proofs.BlsLists
/-!
  Generic facts used by every bridge between generated code (`Gen/*.lean`) and the models: reasoning about `Except`
  programs, loops (`Py.forEach`, `mapM`) and the PyLib primitives.  Deliberately independent of every generated module, so
  that a change in one translated source file breaks only the bridge of that file.
-/
set_option linter.unusedSimpArgs false
set_option linter.unusedVariables false
open Bls

namespace Bridge

/-! ### Reasoning about `Except` programs -/

@[simp] theorem ok_bind {ε α β : Type} (a : α) (f : α → Except ε β) : (Except.ok a >>= f) = f a := rfl
@[simp] theorem pure_eq_ok {ε α : Type} (a : α) : (pure a : Except ε α) = Except.ok a := rfl

theorem mapM_ok {ε α β : Type} (l : List α) (f : α → Except ε β) (g : α → β) (h : ∀ x ∈ l, f x = .ok (g x)) :
    l.mapM f = .ok (l.map g) := by
  induction l with
  | nil => rfl
  | cons a l ih =>
    rw [List.mapM_cons, h a (by simp), ih fun x hx => h x (by simp [hx])]
    rfl

theorem forEach_ok {α σ : Type} (l : List α) (init : σ) (body : σ → α → Py.M σ) (f : σ → α → σ)
    (h : ∀ x ∈ l, ∀ s, body s x = .ok (f s x)) : Py.forEach l init body = .ok (l.foldl f init) := by
  unfold Py.forEach
  induction l generalizing init with
  | nil => rfl
  | cons a l ih =>
    rw [List.foldlM_cons, h a (by simp)]
    exact ih _ fun x hx => h x (by simp [hx])

/-- the value of a successful computation (used to name the results the induction hypotheses promise) -/
def val {α : Type} [Inhabited α] : Py.M α → α
  | .ok a => a
  | .error _ => default

theorem eq_ok_val {α : Type} [Inhabited α] {x : Py.M α} {a : α} (h : x = .ok a) : x = .ok (val x) := by
  subst h; rfl

/-! ### PyLib facts -/

theorem mod_pos {b : Nat} (hb : 0 < b) (a : Nat) : Py.mod a b = .ok (a % b) := by
  unfold Py.mod; rw [if_neg (by omega)]; rfl

theorem floordiv_pos {b : Nat} (hb : 0 < b) (a : Nat) : Py.floordiv a b = .ok (a / b) := by
  unfold Py.floordiv; rw [if_neg (by omega)]; rfl

theorem sub_le {a b : Nat} (h : b ≤ a) : Py.sub a b = .ok (a - b) := by
  unfold Py.sub; rw [if_pos h]; rfl

/-- normal form of commuted sums in the reduction of the repetition count -/
theorem mod_add_comm (k d : Nat) : k % d + d = d + k % d := Nat.add_comm _ _

@[simp] theorem assert_true : Py.assert true = .ok () := rfl

theorem minOf_ne_nil {l : List Nat} (h : l ≠ []) : Py.minOf l = .ok (minL l) := by
  cases l with
  | nil => exact absurd rfl h
  | cons x xs => rfl

theorem maxOf_ne_nil {l : List Nat} (h : l ≠ []) : Py.maxOf l = .ok (maxL l) := by
  cases l with
  | nil => exact absurd rfl h
  | cons x xs => rfl

@[simp] theorem toFinset_set (l : List Nat) : (Py.set l).toFinset = l.toFinset := toFinset_dedup l

theorem set_ne_nil {l : List Nat} (h : l ≠ []) : Py.set l ≠ [] := by
  obtain ⟨x, hx⟩ := List.exists_mem_of_ne_nil l h
  intro h0
  have : x ∈ Py.set l := (mem_dedup l x).mpr hx
  rw [h0] at this; cases this

@[simp] theorem mem_setAdd (s : List Nat) (x y : Nat) : y ∈ Py.setAdd s x ↔ y = x ∨ y ∈ s := by
  unfold Py.setAdd; split <;> simp_all

theorem mem_foldl_setAdd {α : Type} (l : List α) (g : α → Nat) (init : List Nat) (y : Nat) :
    y ∈ l.foldl (fun s x => Py.setAdd s (g x)) init ↔ y ∈ init ∨ ∃ x ∈ l, y = g x := by
  induction l generalizing init with
  | nil => simp
  | cons a l ih => rw [List.foldl_cons, ih]; simp only [mem_setAdd, List.mem_cons]; grind

@[simp] theorem mem_setUnion (s t : List Nat) (y : Nat) : y ∈ Py.setUnion s t ↔ y ∈ s ∨ y ∈ t := by
  unfold Py.setUnion
  have := mem_foldl_setAdd t id s y
  simpa using this

theorem minL_eq_of_toFinset {l l' : List Nat} (h : l.toFinset = l'.toFinset) (hl : l ≠ []) : minL l = minL l' := by
  have hl' : l' ≠ [] := by
    intro h0; subst h0
    obtain ⟨x, hx⟩ := List.exists_mem_of_ne_nil l hl
    have : x ∈ l.toFinset := by simpa using hx
    rw [h] at this; simp at this
  have mem : ∀ x, x ∈ l ↔ x ∈ l' := fun x => by
    have := congrArg (fun s => x ∈ s) h; simpa using this
  apply Nat.le_antisymm
  · exact minL_le l _ ((mem _).mpr (minL_mem l' hl'))
  · exact minL_le l' _ ((mem _).mp (minL_mem l hl))

theorem maxL_eq_of_toFinset {l l' : List Nat} (h : l.toFinset = l'.toFinset) (hl : l ≠ []) : maxL l = maxL l' := by
  have hl' : l' ≠ [] := by
    intro h0; subst h0
    obtain ⟨x, hx⟩ := List.exists_mem_of_ne_nil l hl
    have : x ∈ l.toFinset := by simpa using hx
    rw [h] at this; simp at this
  have mem : ∀ x, x ∈ l ↔ x ∈ l' := fun x => by
    have := congrArg (fun s => x ∈ s) h; simpa using this
  apply Nat.le_antisymm
  · exact le_maxL l' _ ((mem _).mp (maxL_mem l hl))
  · exact le_maxL l _ ((mem _).mpr (maxL_mem l' hl'))



/-! ### Added for robustness against behaviour-preserving refactorings (generic; nothing here mentions a generated module)

  * arithmetic below a unary minus (`Py.imod`, `Py.ifloordiv`, `Py.toNat`): closed forms on the naturals, so that `(-x) % r` and
    `-(-x // r)` reduce to the same normal forms as their subtraction-free spellings;
  * every spelling of "round up to a multiple" the translator can emit (operands are sorted, so both orders occur) → `padTo`;
  * every spelling of the reduced repetition count → `min`;
  * accumulation loops as finite sets: `foldl` of `Py.setAdd` / `Py.setUnion` is the image / union (set comprehensions, `set(map …)`
    and hand-written loops are all translated to such loops). -/

theorem imod_natCast {b : Nat} (hb : 0 < b) (x : Nat) : Py.imod (x : Int) (b : Int) = .ok ((x % b : Nat) : Int) := by
  unfold Py.imod; rw [if_neg (by omega)]
  simp only [pure_eq_ok, Except.ok.injEq]
  rw [Int.fmod_eq_emod_of_nonneg _ (by omega)]; omega

theorem ifloordiv_natCast {b : Nat} (hb : 0 < b) (x : Nat) : Py.ifloordiv (x : Int) (b : Int) = .ok ((x / b : Nat) : Int) := by
  unfold Py.ifloordiv; rw [if_neg (by omega)]
  simp only [pure_eq_ok, Except.ok.injEq]
  rw [Int.fdiv_eq_ediv_of_nonneg _ (by omega)]; omega

/-- `(-x) % b` for naturals `x`, `b > 0` (Python: in `[0, b)`) -/
theorem imod_neg_natCast {b : Nat} (hb : 0 < b) (x : Nat) : Py.imod (-(x : Int)) (b : Int) = .ok (((b - x % b) % b : Nat) : Int) := by
  unfold Py.imod; rw [if_neg (by omega)]
  simp only [pure_eq_ok, Except.ok.injEq]
  rw [Int.fmod_eq_emod_of_nonneg _ (by omega)]
  have hle : x % b ≤ b := Nat.le_of_lt (Nat.mod_lt _ hb)
  rw [Int.natCast_mod, Int.natCast_sub hle, Int.natCast_mod]
  have e1 : (-(x : Int)) % (b : Int) = ((0 : Int) - (x : Int) % b) % b := by
    rw [← Int.zero_sub, Int.sub_emod, Int.zero_emod]
  have e2 : ((b : Int) - (x : Int) % b) % b = ((0 : Int) - (x : Int) % b) % b := by
    rw [Int.sub_emod, Int.emod_self, Int.emod_emod]
  rw [e1, e2]

/-- `-x // b` for naturals `x`, `b > 0`: minus the ceiling of `x / b` -/
theorem ifloordiv_neg_natCast {b : Nat} (hb : 0 < b) (x : Nat) :
    Py.ifloordiv (-(x : Int)) (b : Int) = .ok (-(((x + b - 1) / b : Nat) : Int)) := by
  unfold Py.ifloordiv; rw [if_neg (by omega)]
  simp only [pure_eq_ok, Except.ok.injEq]
  rw [Int.fdiv_eq_ediv_of_nonneg _ (by omega)]
  generalize hc : (x + b - 1) / b = c
  have h1 : c * b ≤ x + b - 1 := by rw [← hc]; exact Nat.div_mul_le_self _ _
  have h2 : x + b - 1 < c * b + b := by rw [← hc]; exact Nat.lt_div_mul_add hb
  have hb' : (0 : Int) < (b : Int) := by omega
  have key := (Int.ediv_emod_unique hb' (a := -(x : Int)) (q := -(c : Int)) (r := (c : Int) * b - x)).mpr
  have hcb : ((c * b : Nat) : Int) = (c : Int) * (b : Int) := Int.natCast_mul c b
  refine (key ⟨?_, ?_, ?_⟩).1
  · rw [Int.mul_neg, Int.mul_comm (b : Int) (c : Int)]; omega
  · omega
  · omega

@[simp] theorem toNat_natCast (n : Nat) : Py.toNat (n : Int) = .ok n := by
  unfold Py.toNat; rw [if_pos (by omega)]; simp

/-- casts are pulled outwards (towards `Py.toNat`), double negations vanish -/
theorem natCast_add_symm (a b : Nat) : (a : Int) + (b : Int) = ((a + b : Nat) : Int) := (Int.natCast_add a b).symm
theorem natCast_mul_symm (a b : Nat) : (a : Int) * (b : Int) = ((a * b : Nat) : Int) := (Int.natCast_mul a b).symm
theorem int_neg_neg (a : Int) : - -a = a := Int.neg_neg a
theorem int_neg_mul_neg (a b : Int) : -a * -b = a * b := Int.neg_mul_neg a b

theorem eq_padTo_of_dvd {a x y : Nat} (ha : 1 ≤ a) (hd : a ∣ y) (hx : x ≤ y) (hlt : y < x + a) : y = padTo a x := by
  apply Nat.le_antisymm
  · obtain ⟨m, rfl⟩ := hd
    obtain ⟨n, hn⟩ := padTo_dvd a x
    have hxp := le_padTo a x ha
    rw [hn] at hxp ⊢
    have h1 : a * m < a * (n + 1) := by rw [Nat.mul_add, Nat.mul_one]; omega
    have h2 := Nat.lt_of_mul_lt_mul_left h1
    exact Nat.mul_le_mul_left a (by omega)
  · exact padTo_least a x y ha hd hx

theorem padTo_form1 (a x : Nat) : (x + a - 1) / a * a = padTo a x := rfl
theorem padTo_form2 (a x : Nat) : (a + x - 1) / a * a = padTo a x := by rw [Nat.add_comm a x]; rfl
theorem padTo_form3 (a x : Nat) : a * ((x + a - 1) / a) = padTo a x := by rw [Nat.mul_comm]; rfl
theorem padTo_form4 (a x : Nat) : a * ((a + x - 1) / a) = padTo a x := by rw [Nat.mul_comm, Nat.add_comm a x]; rfl
/-- `x + (-x) % a` -/
theorem padTo_form5 {a : Nat} (ha : 1 ≤ a) (x : Nat) : x + (a - x % a) % a = padTo a x := by
  apply eq_padTo_of_dvd ha
  · by_cases h : x % a = 0
    · rw [h, Nat.sub_zero, Nat.mod_self, Nat.add_zero]; exact Nat.dvd_of_mod_eq_zero h
    · have hlt := Nat.mod_lt x (show 0 < a by omega)
      rw [Nat.mod_eq_of_lt (by omega)]
      have := Nat.div_add_mod x a
      have e : x + (a - x % a) = a * (x / a + 1) := by rw [Nat.mul_add, Nat.mul_one]; omega
      rw [e]; exact Nat.dvd_mul_right _ _
  · omega
  · have := Nat.mod_lt (a - x % a) (show 0 < a by omega); omega
theorem padTo_form6 {a : Nat} (ha : 1 ≤ a) (x : Nat) : (a - x % a) % a + x = padTo a x := by
  rw [Nat.add_comm]; exact padTo_form5 ha x

/-- spellings of `min` -/
theorem ite_le_eq_min (a b : Nat) : (if a ≤ b then a else b) = min a b := (Nat.min_def).symm
theorem ite_lt_eq_min (a b : Nat) : (if a < b then a else b) = min a b := by
  rw [Nat.min_def]; split <;> split <;> omega
theorem ite_le_eq_min' (a b : Nat) : (if a ≤ b then a else b) = min b a := by rw [Nat.min_comm]; exact ite_le_eq_min a b
theorem ite_lt_eq_min' (a b : Nat) : (if a < b then a else b) = min b a := by rw [Nat.min_comm]; exact ite_lt_eq_min a b

theorem mapM_ok_fun {ε α β : Type} (l : List α) (g : α → β) :
    l.mapM (fun x => (Except.ok (g x) : Except ε β)) = .ok (l.map g) := mapM_ok l _ g (fun _ _ => rfl)

theorem forEach_ok_fun {α σ : Type} (l : List α) (init : σ) (f : σ → α → σ) :
    Py.forEach l init (fun s x => (Except.ok (f s x) : Py.M σ)) = .ok (l.foldl f init) :=
  forEach_ok l init _ f (fun _ _ _ => rfl)

theorem mem_foldl_foldl_setAdd {α β : Type} (ks : List α) (L : α → List β) (g : α → β → Nat) (init : List Nat) (y : Nat) :
    y ∈ ks.foldl (fun out k => (L k).foldl (fun out el => Py.setAdd out (g k el)) out) init
      ↔ y ∈ init ∨ ∃ k ∈ ks, ∃ el ∈ L k, y = g k el := by
  induction ks generalizing init with
  | nil => simp
  | cons a ks ih =>
    rw [List.foldl_cons, ih, mem_foldl_setAdd]
    simp only [List.mem_cons]; grind

theorem mem_foldl_setUnion {α : Type} (l : List α) (g : α → List Nat) (init : List Nat) (y : Nat) :
    y ∈ l.foldl (fun s x => Py.setUnion s (g x)) init ↔ y ∈ init ∨ ∃ x ∈ l, y ∈ g x := by
  induction l generalizing init with
  | nil => simp
  | cons a l ih => rw [List.foldl_cons, ih]; simp only [mem_setUnion, List.mem_cons]; grind

/-- an accumulation loop that starts from the empty set is, as a finite set, the image -/
theorem toFinset_foldl_setAdd {α : Type} (l : List α) (g : α → Nat) :
    (l.foldl (fun s x => Py.setAdd s (g x)) []).toFinset = (l.map g).toFinset := by
  ext y; simp only [List.mem_toFinset, mem_foldl_setAdd, List.not_mem_nil, false_or, List.mem_map]
  constructor
  · rintro ⟨x, hx, rfl⟩; exact ⟨x, hx, rfl⟩
  · rintro ⟨x, hx, rfl⟩; exact ⟨x, hx, rfl⟩

theorem toFinset_foldl_foldl_setAdd {α β : Type} (ks : List α) (L : α → List β) (g : α → β → Nat) :
    (ks.foldl (fun out k => (L k).foldl (fun out el => Py.setAdd out (g k el)) out) []).toFinset
      = (ks.flatMap fun k => (L k).map (g k)).toFinset := by
  ext y; simp only [List.mem_toFinset, mem_foldl_foldl_setAdd, List.not_mem_nil, false_or, List.mem_flatMap, List.mem_map]
  constructor
  · rintro ⟨k, hk, el, hel, rfl⟩; exact ⟨k, hk, el, hel, rfl⟩
  · rintro ⟨k, hk, el, hel, rfl⟩; exact ⟨k, hk, el, hel, rfl⟩

theorem toFinset_foldl_setUnion {α : Type} (l : List α) (g : α → List Nat) :
    (l.foldl (fun s x => Py.setUnion s (g x)) []).toFinset = (l.flatMap g).toFinset := by
  ext y; simp only [List.mem_toFinset, mem_foldl_setUnion, List.not_mem_nil, false_or, List.mem_flatMap]

/-! ### Normal forms for refactoring-robust bridges (namespace `Bridge.Robust`; used by the layout / rules / namespace bridges)

  The bridge lemmas unfold a generated definition and normalise it with `py_simp [facts]`: `simp` with the lemmas below, side
  conditions (`0 < d`, `b ≤ a`, …) discharged by `omega` over the hypotheses.  Local helper functions, hoisted temporaries and
  early returns are β / ζ / `if`-reductions; comprehensions and loops without a raising step both become `List.foldl`
  (`maxOf_cons`, `forEach_pure`, `List.foldl_map`); `max` / `min` / `+` are put into one order (`max_comm'` …). -/

namespace Robust

theorem throw_err {α : Type} (e : Py.Err) : (throw e : Py.M α) = Except.error e := rfl
theorem err_bind {α β : Type} (e : Py.Err) (f : α → Py.M β) : (Except.error e >>= f) = Except.error e := rfl
theorem bind_pure_unit (x : Py.M Unit) : (x >>= fun _ => Except.ok ()) = x := by
  cases x with
  | ok u => cases u; rfl
  | error e => rfl

theorem assert_decide {p : Prop} [Decidable p] (h : p) : Py.assert (decide p) = .ok () := by
  simp [Py.assert, h]
theorem assert_false' : Py.assert false = .error .assertion := rfl
theorem assert_eq_true {b : Bool} (h : b = true) : Py.assert b = .ok () := by subst h; rfl

theorem blsPad_pos (a : Bls.Op) {n : Nat} (hn : 1 ≤ n) : Py.blsPad a n = .ok (.pad a n) := by
  unfold Py.blsPad; rw [if_neg (by omega)]; rfl
theorem isAligned_pos (a : Bls.Op) {d : Nat} (hd : 1 ≤ d) : Py.blsIsAlignedAt a d = .ok (Bls.isAlignedAt a d) := by
  unfold Py.blsIsAlignedAt; rw [if_neg (by omega)]; rfl
theorem blsUnite_cons (a : Bls.Op) (l : List Bls.Op) : Py.blsUnite (a :: l) = .ok (.uni (a :: l)) := rfl
theorem index_cons_zero {α : Type} (a : α) (l : List α) : Py.index (a :: l) 0 = .ok a := rfl
theorem maxOf_cons (a : Nat) (l : List Nat) : Py.maxOf (a :: l) = .ok (l.foldl max a) := rfl
theorem minOf_cons (a : Nat) (l : List Nat) : Py.minOf (a :: l) = .ok (l.foldl min a) := rfl
theorem ceilLog2_pos {x : Nat} (hx : 1 ≤ x) : Py.ceilLog2 x = .ok (Py.ceilLog2Aux x x 0 1) := by
  unfold Py.ceilLog2; rw [if_neg (by omega)]; rfl

theorem forEach_nil {α σ : Type} (s : σ) (body : σ → α → Py.M σ) : Py.forEach [] s body = .ok s := rfl
theorem forEach_cons {α σ : Type} (a : α) (l : List α) (s : σ) (body : σ → α → Py.M σ) :
    Py.forEach (a :: l) s body = (body s a >>= fun s' => Py.forEach l s' body) := by
  unfold Py.forEach; rw [List.foldlM_cons]
theorem forEach_pure {α σ : Type} (l : List α) (s : σ) (f : σ → α → σ) :
    Py.forEach l s (fun s x => Except.ok (f s x)) = .ok (l.foldl f s) := forEach_ok l s _ f (fun _ _ _ => rfl)
theorem forEach_map {α β σ : Type} (l : List α) (g : α → β) (s : σ) (body : σ → β → Py.M σ) :
    Py.forEach (l.map g) s body = Py.forEach l s (fun s x => body s (g x)) := by
  unfold Py.forEach; rw [List.foldlM_map]

theorem max_comm' (a b : Nat) : max a b = max b a := Nat.max_comm a b
theorem max_left_comm' (a b c : Nat) : max a (max b c) = max b (max a c) := by omega
theorem max_assoc' (a b c : Nat) : max (max a b) c = max a (max b c) := by omega
theorem min_comm' (a b : Nat) : min a b = min b a := Nat.min_comm a b
theorem min_left_comm' (a b c : Nat) : min a (min b c) = min b (min a c) := by omega
theorem min_assoc' (a b c : Nat) : min (min a b) c = min a (min b c) := by omega

/-- `xs.foldl` of a function that is `max` in either operand order -/
theorem foldl_max_swap {α : Type} (l : List α) (g : α → Nat) (a : Nat) :
    l.foldl (fun r x => max (g x) r) a = l.foldl (fun r x => max r (g x)) a := by
  congr 1; funext r x; exact Nat.max_comm _ _

/-! #### Programs that only check: which exception, and whether -/

/-- the computation raises -/
def raises {α : Type} : Py.M α → Bool
  | .ok _ => false
  | .error _ => true
/-- the only exception the computation can raise is `e` -/
def onlyThrows {α : Type} (e : Py.Err) (m : Py.M α) : Prop := ∀ e', m = .error e' → e' = e

theorem eq_of_onlyThrows {e : Py.Err} {m : Py.M Unit} (h : onlyThrows e m) : m = if raises m then .error e else .ok () := by
  cases m with
  | ok u => cases u; rfl
  | error e' => rw [h e' rfl]; rfl

@[simp] theorem raises_ok {α : Type} (a : α) : raises (Except.ok a : Py.M α) = false := rfl
@[simp] theorem raises_pure {α : Type} (a : α) : raises (pure a : Py.M α) = false := rfl
@[simp] theorem raises_error {α : Type} (e : Py.Err) : raises (Except.error e : Py.M α) = true := rfl
@[simp] theorem raises_throw {α : Type} (e : Py.Err) : raises (throw e : Py.M α) = true := rfl
@[simp] theorem raises_ite {α : Type} (c : Prop) [Decidable c] (x y : Py.M α) :
    raises (if c then x else y) = if c then raises x else raises y := by split <;> rfl
@[simp] theorem raises_bind_unit {β : Type} (x : Py.M Unit) (f : Unit → Py.M β) :
    raises (x >>= f) = (raises x || raises (f ())) := by
  cases x with
  | ok u => cases u; rfl
  | error e => rfl
@[simp] theorem raises_forEach_unit {α : Type} (l : List α) (body : Unit → α → Py.M Unit) :
    raises (Py.forEach l () body) = l.any (fun x => raises (body () x)) := by
  induction l with
  | nil => rfl
  | cons a l ih =>
    rw [forEach_cons, List.any_cons]
    cases h : body () a with
    | ok u => cases u; simpa [raises] using ih
    | error e => rfl

@[simp] theorem onlyThrows_ok {α : Type} (e : Py.Err) (a : α) : onlyThrows e (Except.ok a : Py.M α) := by
  intro e' h; cases h
@[simp] theorem onlyThrows_pure {α : Type} (e : Py.Err) (a : α) : onlyThrows e (pure a : Py.M α) := by
  intro e' h; cases h
@[simp] theorem onlyThrows_error {α : Type} (e : Py.Err) : onlyThrows e (Except.error e : Py.M α) := by
  intro e' h; cases h; rfl
@[simp] theorem onlyThrows_throw {α : Type} (e : Py.Err) : onlyThrows e (throw e : Py.M α) := onlyThrows_error e
theorem onlyThrows_ite {α : Type} (e : Py.Err) (c : Prop) [Decidable c] (x y : Py.M α) (hx : onlyThrows e x) (hy : onlyThrows e y) :
    onlyThrows e (if c then x else y) := by split <;> assumption
theorem onlyThrows_bind {α β : Type} (e : Py.Err) (x : Py.M α) (f : α → Py.M β) (hx : onlyThrows e x) (hf : ∀ a, onlyThrows e (f a)) :
    onlyThrows e (x >>= f) := by
  cases x with
  | ok a => exact hf a
  | error e' => intro e'' h; exact hx e'' (by simpa [err_bind] using h)
theorem onlyThrows_forEach {α σ : Type} (e : Py.Err) (l : List α) (s : σ) (body : σ → α → Py.M σ)
    (h : ∀ s x, onlyThrows e (body s x)) : onlyThrows e (Py.forEach l s body) := by
  induction l generalizing s with
  | nil => intro e' h'; cases h'
  | cons a l ih => rw [forEach_cons]; exact onlyThrows_bind e _ _ (h s a) (fun s' => ih s')

/-- structural proof that a checking program raises nothing but `e` -/
macro "only_throws" : tactic =>
  `(tactic| repeat (first
      | exact onlyThrows_ok _ _ | exact onlyThrows_pure _ _ | exact onlyThrows_error _ | exact onlyThrows_throw _
      | (apply onlyThrows_ite) | (apply onlyThrows_forEach; intro _ _) | (apply onlyThrows_bind; on_goal 2 => intro _)
      | (intro _)))

theorem ok_iff_not_raises (m : Py.M Unit) : m = .ok () ↔ raises m = false := by
  cases m with
  | ok u => cases u; simp [raises]
  | error e => simp [raises]

theorem and_any {α : Type} (b : Bool) (l : List α) (f : α → Bool) : (b && l.any f) = l.any (fun x => b && f x) := by
  induction l with
  | nil => simp
  | cons a l ih => simp only [List.any_cons, Bool.and_or_distrib_left, ih]
theorem any_any_congr {α : Type} (l : List α) (f g : α → α → Bool) (h : ∀ a b, f a b = g a b) :
    l.any (fun a => l.any (f a)) = l.any (fun a => l.any (g a)) := by
  congr 1; funext a; congr 1; funext b; exact h a b

/-- side conditions of the PyLib lemmas -/
macro "py_disch" : tactic =>
  `(tactic| first
    | assumption
    | omega
    | (simp only [Bool.or_eq_true, Bool.and_eq_true, Bool.not_eq_true', beq_iff_eq, bne_iff_ne, ne_eq, decide_eq_true_eq,
        decide_eq_false_iff_not]; omega))

/-- normal form of generated code: see the section comment -/
macro "py_simp" "[" ts:Lean.Parser.Tactic.simpLemma,* "]" : tactic =>
  `(tactic| simp (disch := py_disch) only [ok_bind, pure_eq_ok, throw_err, err_bind, bind_pure_unit, bind_pure, assert_true, assert_decide, assert_eq_true,
      sub_le, mod_pos, floordiv_pos, blsPad_pos, isAligned_pos, blsUnite_cons, index_cons_zero, maxOf_cons, minOf_cons, ceilLog2_pos,
      forEach_nil, forEach_pure, forEach_map, Py.blsAdd, Py.blsOfInt, Py.blsRepeat, Py.blsRepeatRange, Py.range,
      List.singleton_append, List.cons_append, List.nil_append, List.foldl_map, List.map_map, List.map_id', List.map_cons, List.map_nil,
      List.length_cons, List.length_nil, List.length_map, List.drop_succ_cons, List.drop_zero, List.foldl_cons, List.foldl_nil,
      Function.comp_def, Nat.one_shiftLeft, foldl_max_swap,
      Nat.zero_lt_succ, Nat.succ_ne_zero, Nat.add_one_ne_zero, Nat.lt_add_one_iff, Nat.le_add_left, Nat.zero_le,
      beq_iff_eq, bne_iff_ne, ne_eq, beq_self_eq_true, bne_self_eq_false, decide_true, decide_false, decide_eq_true_eq, ↓decide_eq_true_eq, decide_not,
      Bool.and_true, Bool.true_and, Bool.and_false, Bool.false_and, Bool.or_true, Bool.true_or, Bool.or_false, Bool.false_or,
      Bool.not_true, Bool.not_false, Bool.false_eq_true, Bool.and_eq_true, Bool.or_eq_true, Bool.not_eq_true',
      if_true, if_false, ite_true, ite_false, reduceIte, if_pos, if_neg, List.drop_nil, Except.ok.injEq, not_true_eq_false, not_false_eq_true, eq_self_iff_true,
      $ts,*])

end Robust

end Bridge
