import PyLib
import Proofs.BlsLists
/-!
  Generic facts used by every bridge between generated code (`Gen/*.lean`) and the models: reasoning about `Except`
  programs, loops (`Py.forEach`, `mapM`) and the PyLib primitives.  Deliberately independent of every generated module, so
  that a change in one translated source file breaks only the bridge of that file.
-/
set_option linter.unusedSimpArgs false
set_option linter.unusedVariables false
open Bls

namespace Bridge

/-! ### Reasoning about `Except` programs -/

@[simp] theorem ok_bind {ε α β : Type} (a : α) (f : α → Except ε β) : (Except.ok a >>= f) = f a := rfl
@[simp] theorem pure_eq_ok {ε α : Type} (a : α) : (pure a : Except ε α) = Except.ok a := rfl

theorem mapM_ok {ε α β : Type} (l : List α) (f : α → Except ε β) (g : α → β) (h : ∀ x ∈ l, f x = .ok (g x)) :
    l.mapM f = .ok (l.map g) := by
  induction l with
  | nil => rfl
  | cons a l ih =>
    rw [List.mapM_cons, h a (by simp), ih fun x hx => h x (by simp [hx])]
    rfl

theorem forEach_ok {α σ : Type} (l : List α) (init : σ) (body : σ → α → Py.M σ) (f : σ → α → σ)
    (h : ∀ x ∈ l, ∀ s, body s x = .ok (f s x)) : Py.forEach l init body = .ok (l.foldl f init) := by
  unfold Py.forEach
  induction l generalizing init with
  | nil => rfl
  | cons a l ih =>
    rw [List.foldlM_cons, h a (by simp)]
    exact ih _ fun x hx => h x (by simp [hx])

/-- the value of a successful computation (used to name the results the induction hypotheses promise) -/
def val {α : Type} [Inhabited α] : Py.M α → α
  | .ok a => a
  | .error _ => default

theorem eq_ok_val {α : Type} [Inhabited α] {x : Py.M α} {a : α} (h : x = .ok a) : x = .ok (val x) := by
  subst h; rfl

/-! ### PyLib facts -/

theorem mod_pos {b : Nat} (hb : 0 < b) (a : Nat) : Py.mod a b = .ok (a % b) := by
  unfold Py.mod; rw [if_neg (by omega)]; rfl

theorem floordiv_pos {b : Nat} (hb : 0 < b) (a : Nat) : Py.floordiv a b = .ok (a / b) := by
  unfold Py.floordiv; rw [if_neg (by omega)]; rfl

theorem sub_le {a b : Nat} (h : b ≤ a) : Py.sub a b = .ok (a - b) := by
  unfold Py.sub; rw [if_pos h]; rfl

/-- normal form of commuted sums in the reduction of the repetition count -/
theorem mod_add_comm (k d : Nat) : k % d + d = d + k % d := Nat.add_comm _ _

@[simp] theorem assert_true : Py.assert true = .ok () := rfl

theorem minOf_ne_nil {l : List Nat} (h : l ≠ []) : Py.minOf l = .ok (minL l) := by
  cases l with
  | nil => exact absurd rfl h
  | cons x xs => rfl

theorem maxOf_ne_nil {l : List Nat} (h : l ≠ []) : Py.maxOf l = .ok (maxL l) := by
  cases l with
  | nil => exact absurd rfl h
  | cons x xs => rfl

@[simp] theorem toFinset_set (l : List Nat) : (Py.set l).toFinset = l.toFinset := toFinset_dedup l

theorem set_ne_nil {l : List Nat} (h : l ≠ []) : Py.set l ≠ [] := by
  obtain ⟨x, hx⟩ := List.exists_mem_of_ne_nil l h
  intro h0
  have : x ∈ Py.set l := (mem_dedup l x).mpr hx
  rw [h0] at this; cases this

@[simp] theorem mem_setAdd (s : List Nat) (x y : Nat) : y ∈ Py.setAdd s x ↔ y = x ∨ y ∈ s := by
  unfold Py.setAdd; split <;> simp_all

theorem mem_foldl_setAdd {α : Type} (l : List α) (g : α → Nat) (init : List Nat) (y : Nat) :
    y ∈ l.foldl (fun s x => Py.setAdd s (g x)) init ↔ y ∈ init ∨ ∃ x ∈ l, y = g x := by
  induction l generalizing init with
  | nil => simp
  | cons a l ih => rw [List.foldl_cons, ih]; simp only [mem_setAdd, List.mem_cons]; grind

@[simp] theorem mem_setUnion (s t : List Nat) (y : Nat) : y ∈ Py.setUnion s t ↔ y ∈ s ∨ y ∈ t := by
  unfold Py.setUnion
  have := mem_foldl_setAdd t id s y
  simpa using this

theorem minL_eq_of_toFinset {l l' : List Nat} (h : l.toFinset = l'.toFinset) (hl : l ≠ []) : minL l = minL l' := by
  have hl' : l' ≠ [] := by
    intro h0; subst h0
    obtain ⟨x, hx⟩ := List.exists_mem_of_ne_nil l hl
    have : x ∈ l.toFinset := by simpa using hx
    rw [h] at this; simp at this
  have mem : ∀ x, x ∈ l ↔ x ∈ l' := fun x => by
    have := congrArg (fun s => x ∈ s) h; simpa using this
  apply Nat.le_antisymm
  · exact minL_le l _ ((mem _).mpr (minL_mem l' hl'))
  · exact minL_le l' _ ((mem _).mp (minL_mem l hl))

theorem maxL_eq_of_toFinset {l l' : List Nat} (h : l.toFinset = l'.toFinset) (hl : l ≠ []) : maxL l = maxL l' := by
  have hl' : l' ≠ [] := by
    intro h0; subst h0
    obtain ⟨x, hx⟩ := List.exists_mem_of_ne_nil l hl
    have : x ∈ l.toFinset := by simpa using hx
    rw [h] at this; simp at this
  have mem : ∀ x, x ∈ l ↔ x ∈ l' := fun x => by
    have := congrArg (fun s => x ∈ s) h; simpa using this
  apply Nat.le_antisymm
  · exact le_maxL l' _ ((mem _).mp (maxL_mem l hl))
  · exact le_maxL l _ ((mem _).mpr (maxL_mem l' hl'))


end Bridge
