import Driver.Json
import Model.Wire
/-! Suite `wire` (C06, C07, C14 wire half).

  Type description   ["bool"] ["uint",n,"sat"|"trunc"] ["sint",n,c] ["float",n,c] ["byte"] ["utf8"] ["void",n]
                     ["farr",T,cap] ["varr",T,cap] ["struct",[T…],null|extent] ["union",[T…],null|extent]
  Input value        true/false, integer, {"bits":b} (float leaf: pattern of the field's width), {"x":hex} (str/bytes),
                     [..] (list/tuple), {"d":[[fieldIndex,value],…]} (dict), null
  Canonical value    bool, integer, {"f":bits}|"nan", {"x":hex} for byte/utf8 arrays, [..], {"s":[non-padding fields]},
                     {"u":[tag,value]}

  Cases   {"op":"enc","ty":T,"val":I,"relaxed":b,"hdr":b}          -> res, hex, back
          {"op":"dec","ty":T,"hex":h,"hdr":b,"ext":[suffix hex…]}  -> res, val, re, ext:[{res,val}…]
          {"op":"xrev","tyW":T,"tyR":T',"val":I,"hdr":b}           -> res, hex, val
          a "dec" case may carry "alts":[hex…] (other complete byte strings decoded with the same type) -> alt:[{res,val}…]
          {"op":"seq","hdr":false,"steps":[case…]}                 -> res:"seq", steps:[outcome…]
          (a history of enc / dec cases over several types; the model is a pure function, so every step is
           computed exactly as if it stood alone)
-/
namespace DriverWire
open Lean DJ Wire

partial def parseTy (j : Json) : R Ty := do
  let a ← arr j
  let tag ← str (← nth a 0)
  let cast (j : Json) : R Cast := do
    match ← str j with
    | "sat" => pure .sat
    | "trunc" => pure .trunc
    | s => throw s!"bad cast {s}"
  let mode (j : Json) : R Mode :=
    if j.isNull then pure .sealed else do pure (.delimited (← nat j))
  match tag with
  | "bool" => pure .bool
  | "byte" => pure .byte
  | "utf8" => pure .utf8
  | "uint" => pure (.uint (← nat (← nth a 1)) (← cast (← nth a 2)))
  | "sint" => pure (.sint (← nat (← nth a 1)) (← cast (← nth a 2)))
  | "float" => pure (.float (← nat (← nth a 1)) (← cast (← nth a 2)))
  | "void" => pure (.void (← nat (← nth a 1)))
  | "farr" => pure (.farr (← parseTy (← nth a 1)) (← nat (← nth a 2)))
  | "varr" => pure (.varr (← parseTy (← nth a 1)) (← nat (← nth a 2)))
  | "struct" => pure (.struct (← (← arr (← nth a 1)).mapM parseTy) (← mode (← nth a 2)))
  | "union" => pure (.union (← (← arr (← nth a 1)).mapM parseTy) (← mode (← nth a 2)))
  | t => throw s!"bad type {t}"

def hexVal (c : Char) : R Nat :=
  if '0' ≤ c && c ≤ '9' then pure (c.toNat - '0'.toNat)
  else if 'a' ≤ c && c ≤ 'f' then pure (c.toNat - 'a'.toNat + 10)
  else throw "bad hex"

def hexToBytes (s : String) : R (List Nat) := do
  let cs := s.toList.toArray
  if cs.size % 2 != 0 then throw "odd hex"
  let mut out : Array Nat := Array.mkEmpty (cs.size / 2)
  for i in [0:cs.size / 2] do
    out := out.push ((← hexVal cs[2*i]!) * 16 + (← hexVal cs[2*i+1]!))
  pure out.toList

def bytesToBits (bs : List Nat) : List Bool := Id.run do
  let mut out : Array Bool := Array.mkEmpty (bs.length * 8)
  for b in bs do
    for k in [0:8] do
      out := out.push ((b >>> k) % 2 == 1)
  pure out.toList

def hexDigit (n : Nat) : Char := if n < 10 then Char.ofNat (48 + n) else Char.ofNat (87 + n)

def bytesToHex (bs : List Nat) : String := Id.run do
  let mut s : String := ""
  for b in bs do
    s := (s.push (hexDigit (b / 16 % 16))).push (hexDigit (b % 16))
  pure s

/-- bits to bytes, zero padded to a whole byte (`_BitWriter.finish`) -/
def bitsToBytes (bits : List Bool) : List Nat := Id.run do
  let a := bits.toArray
  let n := (a.size + 7) / 8
  let mut out : Array Nat := Array.mkEmpty n
  for i in [0:n] do
    let mut v := 0
    for k in [0:8] do
      if a.getD (8*i + k) false then v := v + (1 <<< k)
    out := out.push v
  pure out.toList

partial def parseInp (j : Json) : R Inp := do
  match j with
  | .null => pure .none
  | .bool b => pure (.bool b)
  | .num _ => pure (.int (← int j))
  | .arr a => pure (.list (← a.toList.mapM parseInp))
  | .obj _ =>
      match fieldOpt j "bits" with
      | some b => pure (.flt (← nat b))
      | none =>
      match fieldOpt j "x" with
      | some h => pure (.bytes (← hexToBytes (← str h)))
      | none => do
        let kvs ← arr (← field j "d")
        let l ← kvs.mapM fun kv => do
          let p ← arr kv
          pure ((← nat (← nth p 0)), (← parseInp (← nth p 1)))
        pure (.dict l)
  | _ => throw "bad input value"

def isNanBits (n bits : Nat) : Bool :=
  let (e, m) := if n == 16 then (5, 10) else if n == 32 then (8, 23) else (11, 52)
  (bits >>> m) % (2^e) == 2^e - 1 && bits % (2^m) != 0

partial def valJson : Ty → Val → Json
  | _, .bool b => Json.bool b
  | _, .int i => toJson i
  | .float n _, .flt b => if isNanBits n b then Json.str "nan" else Json.mkObj [("f", toJson b)]
  | _, .flt b => Json.mkObj [("f", toJson b)]
  | _, .unit => Json.null
  | .farr e _, .arr vs => arrJson e vs
  | .varr e _, .arr vs => arrJson e vs
  | .struct fs _, .recd vs =>
      Json.mkObj [("s", ofList (((fs.zip vs).filter fun p => !p.1.isVoid).map fun p => valJson p.1 p.2))]
  | .union fs _, .var tag v => Json.mkObj [("u", ofList [toJson tag, valJson (fs.getD tag .bool) v])]
  | _, _ => Json.str "ill-typed"
where
  arrJson (e : Ty) (vs : List Val) : Json :=
    match e with
    | .byte | .utf8 => Json.mkObj [("x", Json.str (bytesToHex (vs.map Val.byteOf)))]
    | _ => ofList (vs.map (valJson e))

def errName : Err → String
  | .arrayLength => "serdes:ArrayLengthError"
  | .unionTag => "serdes:UnionTagError"
  | .delimiterHeader => "serdes:DelimiterHeaderError"
  | .unionField => "serdes:UnionFieldError"
  | .value => "valueerror"
  | .type => "foreign:TypeError"

def rejected (e : Err) : List (String × Json) :=
  match e with
  | .type => [("res", Json.str "foreign:TypeError"), ("soft_cls", Json.str (errName e))]
  | _ => [("res", Json.str "rejected"), ("soft_cls", Json.str (errName e))]

def decOutcome (t : Ty) (bits : List Bool) (hdr : Bool) (withRe : Bool) : List (String × Json) :=
  match deserialize t bits hdr with
  | .error e => rejected e
  | .ok v =>
      let base := [("res", Json.str "ok"), ("val", valJson t v)]
      if withRe then
        base ++ [("re", Json.str (bytesToHex (bitsToBytes (enc (if hdr then t else t.inner) v 0))))]
      else base

def handle1 (j : Json) : R Json := do
  let op ← str (← field j "op")
  let hdr ← bool (← field j "hdr")
  match op with
  | "enc" =>
      let t ← parseTy (← field j "ty")
      let x ← parseInp (← field j "val")
      let relaxed ← bool (← field j "relaxed")
      match serialize t x hdr relaxed with
      | .error e => pure (Json.mkObj (rejected e))
      | .ok (_, bits) =>
          let bytes := bitsToBytes bits
          let back := decOutcome t (bytesToBits bytes) hdr false
          pure (Json.mkObj [("res", Json.str "ok"), ("hex", Json.str (bytesToHex bytes)), ("back", Json.mkObj back)])
  | "dec" =>
      let t ← parseTy (← field j "ty")
      let bytes ← hexToBytes (← str (← field j "hex"))
      let exts ← (← arr (← field j "ext")).mapM fun e => do hexToBytes (← str e)
      let main := decOutcome t (bytesToBits bytes) hdr true
      let extOut := exts.map fun e => Json.mkObj (decOutcome t (bytesToBits (bytes ++ e)) hdr false)
      let altOut ← match fieldOpt j "alts" with
        | none => pure []
        | some a => do
            let alts ← (← arr a).mapM fun e => do hexToBytes (← str e)
            pure [("alt", ofList (alts.map fun e => Json.mkObj (decOutcome t (bytesToBits e) hdr false)))]
      pure (Json.mkObj (main ++ [("ext", ofList extOut)] ++ altOut))
  | "xrev" =>
      let tw ← parseTy (← field j "tyW")
      let tr ← parseTy (← field j "tyR")
      let x ← parseInp (← field j "val")
      match serialize tw x hdr false with
      | .error e => pure (Json.mkObj (rejected e))
      | .ok (_, bits) =>
          let bytes := bitsToBytes bits
          let out := decOutcome tr (bytesToBits bytes) hdr false
          pure (Json.mkObj ([("hex", Json.str (bytesToHex bytes))] ++ out))
  | o => throw s!"bad op {o}"

def handle (j : Json) : R Json := do
  let op ← str (← field j "op")
  if op == "seq" then
    let outs ← (← arr (← field j "steps")).mapM handle1
    pure (Json.mkObj [("res", Json.str "seq"), ("steps", ofList outs)])
  else handle1 j

end DriverWire
