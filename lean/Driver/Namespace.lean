import Driver.Json
import Model.Namespace
/-! Suite `ns`: namespace trees (C09, C10, C11, C15, C19).  The case carries the enumeration of the files of all
    directories with abstract texts and one call (`read_namespace` or `read_files`) in canonical form; optionally a
    replacement of one file (second outcome `out2`). -/
namespace DriverNs
open Lean DJ Ns

def strs (j : Json) : R (List String) := do (← arr j).mapM str

def parseStmt (j : Json) : R Stmt := do
  let a ← arr j
  match ← str (← nth a 0) with
  | "ref" => pure (.ref ⟨← str (← nth a 1), ← nat (← nth a 2), ← nat (← nth a 3)⟩)
  | "prim" => pure (.prim (← nat (← nth a 1)))
  | "print" => pure (.print (← nat (← nth a 1)))
  | "bad" => pure .bad
  | t => throw s!"bad stmt {t}"

def parseMode (j : Json) : R Mode := do
  let a ← arr j
  match ← str (← nth a 0) with
  | "sealed" => pure .sealed
  | "extent" => pure (.extent (← nat (← nth a 1)))
  | "none" => pure .none
  | t => throw s!"bad mode {t}"

def parseSect (j : Json) : R Sect := do
  pure ⟨← (← arr (← field j "stmts")).mapM parseStmt, ← parseMode (← field j "mode")⟩

def parseText (j : Json) : R Text := do
  let secs ← (← arr (← field j "secs")).mapM parseSect
  let g ← bool (← field j "g")
  match secs with
  | [a] => pure ⟨g, a, none⟩
  | [a, b] => pure ⟨g, a, some b⟩
  | _ => throw "bad secs"

def parseFile (j : Json) : R FileEntry := do
  pure ⟨← strs (← field j "dir"), ← strs (← field j "sub"), ← str (← field j "fname"), ← parseText (← field j "text")⟩

def slash (p : Path) : String := "/".intercalate p

def tyJson (t : Ty) : Json :=
  let i := t.info
  let secs := if i.isService then [i.req, i.resp] else [i.req]
  Json.mkObj [
    ("n", i.name), ("v", ofNats [i.major, i.minor]), ("k", if i.isService then "srv" else "msg"),
    ("pid", match i.fpid with | some p => (p : Nat) | none => Json.null),
    ("sealed", ofList (secs.map fun s => (s.sealed : Bool))),
    ("extent", ofNats (secs.map (·.extent))),
    ("refs", ofList (t.nested.map fun n => (s!"{n.info.name}.{n.info.major}.{n.info.minor}" : String))),
    ("path", slash i.path), ("root", slash i.root)]

def errName : Err → String
  | .fileName => "fileName" | .undefinedType => "undefinedType" | .collision => "collision"
  | .nameCollision => "nameCollision" | .localInvalid => "localInvalid" | .portCollision => "portCollision"
  | .minorKind => "minorKind" | .minorPortId => "minorPortId" | .minorExtent => "minorExtent"
  | .minorSealing => "minorSealing" | .nestedRoot => "nestedRoot" | .rootNameCollision => "rootNameCollision"
  | .serviceField => "serviceField" | .assertion => "assertion" | .dupKey => "dupKey"

def outcomeJson (isNs : Bool) (o : Outcome) : Json :=
  match o.res with
  | .ok (d, t) =>
    Json.mkObj [("res", "ok"), ("direct", ofList (d.map tyJson)),
                ("transitive", if isNs then Json.null else ofList (t.map tyJson)), ("prints", ofNats o.prints)]
  | .error e =>
    let cls := if e.isInvalid then "invalid" else if e == .dupKey then "dupkey" else "internal"
    Json.mkObj [("res", cls), ("soft_cls", errName e), ("prints", ofNats o.prints)]

def runCall (files : List FileEntry) (call : Json) : R Json := do
  let allowUnreg ← bool (← field call "allow_unreg")
  let lookups ← (← arr (← field call "lookups")).mapM strs
  match ← str (← field call "fn") with
  | "ns" =>
    let root ← strs (← field call "root")
    let allowColl ← bool (← field call "allow_collision")
    pure (outcomeJson true (readNamespace files root lookups allowColl allowUnreg))
  | "files" =>
    let tix ← nats (← field call "targets")
    let targets ← tix.mapM (nth files)
    let roots ← (← arr (← field call "roots")).mapM strs
    pure (outcomeJson false (readFiles files targets roots lookups allowUnreg))
  | t => throw s!"bad fn {t}"

def handle (j : Json) : R Json := do
  let files ← (← arr (← field j "files")).mapM parseFile
  let call ← field j "call"
  let out ← runCall files call
  match fieldOpt j "perturb" with
  | some (Json.null) | none => pure (Json.mkObj [("out", out)])
  | some p =>
    let idx ← nat (← field p "idx")
    let f ← parseFile (← field p "file")
    let files2 := files.set idx f
    let out2 ← runCall files2 call
    pure (Json.mkObj [("out", out), ("out2", out2)])

end DriverNs
