import Driver.Json
import Model.Rules
/-! Suite `rules`: an abstract definition (header from the file path + statements with structured types);
    outcome = accepted / rejected / internal error (C05). -/
namespace DriverRules
open Lean DJ Rules

def cast (j : Json) : R Cast := do
  match (← str j) with
  | "s" => pure .saturated
  | "t" => pure .truncated
  | s => throw s!"bad cast mode {s}"

def scalar (j : Json) : R Scalar := do
  let a ← arr j
  match (← str (← nth a 0)) with
  | "bool" => pure .bool
  | "byte" => pure .byte
  | "utf8" => pure .utf8
  | "uint" => pure (.uint (← nat (← nth a 1)) (← cast (← nth a 2)))
  | "int" => pure (.int (← nat (← nth a 1)) (← cast (← nth a 2)))
  | "float" => pure (.float (← nat (← nth a 1)) (← cast (← nth a 2)))
  | "void" => pure (.void (← nat (← nth a 1)))
  | "comp" => pure (.comp ⟨← bool (← nth a 1), ← bool (← nth a 2), ← nat (← nth a 3)⟩)
  | s => throw s!"bad scalar {s}"

def ty (j : Json) : R Ty := do
  let a ← arr j
  match (← str (← nth a 0)) with
  | "s" => pure (.scalar (← scalar (← nth a 1)))
  | "fa" => pure (.fixedArr (← scalar (← nth a 1)) (← int (← nth a 2)))
  | "va" => pure (.varArr (← scalar (← nth a 1)) (← int (← nth a 2)))
  | s => throw s!"bad type {s}"

def stmt (j : Json) : R RStmt := do
  let a ← arr j
  match (← str (← nth a 0)) with
  | "field" => pure (.field (← ty (← nth a 1)) (← str (← nth a 2)))
  | "padding" => pure (.padding (← nat (← nth a 1)))
  | "const" => pure (.const (← ty (← nth a 1)) (← str (← nth a 2)))
  | "union" => pure .union
  | "deprecated" => pure .deprecated
  | "sealed" => pure .sealed
  | "extent" => pure (.extent (← int (← nth a 1)))
  | "marker" => pure .marker
  | s => throw s!"bad statement {s}"

def header (j : Json) : R Header := do
  let p ← field j "port"
  let port ← if p.isNull then pure none else do pure (some (← nat p))
  pure {
    ns := ← (← arr (← field j "ns")).mapM str
    short := ← str (← field j "short")
    major := ← nat (← field j "major")
    minor := ← nat (← field j "minor")
    port := port
    allowUnregulated := ← bool (← field j "allow") }

def handle (j : Json) : R Json := do
  let d : Defn := ⟨← header (← field j "header"), ← (← arr (← field j "stmts")).mapM stmt⟩
  let r := match accept d with
    | .ok => "ok"
    | .invalid => "invalid"
  pure (Json.mkObj [("res", r)])

end DriverRules
