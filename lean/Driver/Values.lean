import Driver.Json
import Driver.Bls
import Driver.Layout
import Model.Values
/-! Suite `values` (C18): equality / hash keys of bit length sets, types, attributes and expression values. -/
namespace DriverValues
open Lean DJ Bls Layout Values

def parsePrim (j : Json) : R Prim := do
  let a ← arr j
  match ← str (← nth a 0) with
  | "rat" => pure (.rat (← int (← nth a 1)) (← nat (← nth a 2)))
  | "bool" => pure (.bool (← bool (← nth a 1)))
  | "str" => pure (.str (← nats (← nth a 1)))
  | t => throw s!"bad prim {t}"

def parseVal (j : Json) : R EVal := do
  let a ← arr j
  match ← str (← nth a 0) with
  | "set" => pure (.set (← (← arr (← nth a 1)).mapM parsePrim))
  | _ => pure (.prim (← parsePrim j))

def parseTyKey (j : Json) : R TyKey := do
  -- ["svc"]: a service type (no bit length set, no layout): its key is `svcKey`
  if (← str (← nth (← arr (← field j "ty")) 0)) == "svc" then
    return svcKey (← str (← field j "str"))
  let t ← DriverLayout.parseTy (← field j "ty")
  if !t.wf then throw "rejected"
  pure { cls := ← str (← field j "cls"), str := ← str (← field j "str"), bls := t.bls }

def parseAttr (j : Json) : R AttrKey := do
  let ty ← parseTyKey (← field j "type")
  let v ← match fieldOpt j "value" with
    | some Json.null => pure none
    | some v => pure (some (← parseVal v))
    | none => pure none
  pure { ty := ty, name := ← str (← field j "name"), value := v }

def handle (j : Json) : R Json := do
  let kind ← str (← field j "kind")
  match kind with
  | "bls" =>
      let nodes ← arr (← field j "nodes")
      let ops ← nodes.foldlM (fun acc n => do pure (acc ++ [← DriverBls.buildNode acc n])) []
      let a ← nth ops (← nat (← field j "a"))
      let b ← nth ops (← nat (← field j "b"))
      pure (Json.mkObj [("eq", blsEq a b), ("hash_eq", decide (blsHashKey a = blsHashKey b))])
  | "type" =>
      let a ← parseTyKey (← field j "a")
      let b ← parseTyKey (← field j "b")
      pure (Json.mkObj [("eq", tyEq a b), ("hash_eq", decide (tyHashKey a = tyHashKey b))])
  | "attr" =>
      let a ← parseAttr (← field j "a")
      let b ← parseAttr (← field j "b")
      pure (Json.mkObj [("eq", attrEq a b)])
  | "value" =>
      let a ← parseVal (← field j "a")
      let b ← parseVal (← field j "b")
      pure (Json.mkObj [("eq", a.eq b)])
  | k => throw s!"bad kind {k}"

end DriverValues
