import Driver.Json
import Model.Bls
/-! Suite `bls`: operator trees built node by node, then queries (C01, C16, C18). -/
namespace DriverBls
open Lean DJ Bls

def buildNode (acc : List Op) (j : Json) : R Op := do
  let a ← arr j
  let tag ← str (← nth a 0)
  match tag with
  | "leaf" => pure (.leaf (← nats (← nth a 1)))
  | "pad" => pure (.pad (← nth acc (← nat (← nth a 1))) (← nat (← nth a 2)))
  | "rep" => pure (.rep (← nth acc (← nat (← nth a 1))) (← nat (← nth a 2)))
  | "rrep" => pure (.rrep (← nth acc (← nat (← nth a 1))) (← nat (← nth a 2)))
  | "cat" => pure (.cat (← (← nats (← nth a 1)).mapM (nth acc)))
  | "uni" => pure (.uni (← (← nats (← nth a 1)).mapM (nth acc)))
  | t => throw s!"bad node {t}"

def query (ops : List Op) (j : Json) : R Json := do
  let a ← arr j
  let tag ← str (← nth a 0)
  let o ← nth ops (← nat (← nth a 1))
  match tag with
  | "min" => pure (o.min : Nat)
  | "max" => pure (o.max : Nat)
  | "fixed" => pure (fixedLength o)
  | "mod" =>
      let d ← nat (← nth a 2)
      if d == 0 then throw "bad-op" else pure (sortedNats (o.modulo d))
  | "aligned" =>
      let d ← nat (← nth a 2)
      if d == 0 then throw "bad-op" else pure (isAlignedAt o d)
  | "asserts" =>
      let d ← nat (← nth a 2)
      if d == 0 then throw "bad-op" else pure (o.assertsOk d)
  | "expand" => pure (sortedNats o.expand)
  | "len" => pure (o.expand.length : Nat)
  | "eq" => pure (blsEq o (← nth ops (← nat (← nth a 2))))
  | "hashkey" => pure (ofNats [o.min, o.max])
  | "wf" => pure o.wf
  | t => throw s!"bad query {t}"

def handle (j : Json) : R Json := do
  let nodes ← arr (← field j "nodes")
  let ops ← nodes.foldlM (fun acc n => do pure (acc ++ [← buildNode acc n])) []
  let qs ← arr (← field j "qs")
  let outs ← qs.mapM (query ops)
  pure (Json.mkObj [("out", ofList outs)])

end DriverBls
