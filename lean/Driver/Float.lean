import Model.Float
import Driver.Json
/-! Suite `floatconv`: the numeric conversion number → IEEE-754 bit pattern of float fields
    (`WireFloat.roundBinary` for a Python float given as exact fraction, `WireFloat.roundInt` for a Python int).
    Case: {"w":16|32|64, "cast":"sat"|"trunc", "neg":bool, "n":Nat, "d":Nat}   (float:  (-1)^neg * n / d, d > 0)
          {"w":16|32|64, "cast":"sat"|"trunc", "neg":bool, "n":Nat}            (int:    (-1)^neg * n)
    Outcome: {"bits": pattern}. -/
namespace DriverFloat
open Lean DJ

def fmt (w : Nat) : R (Nat × Nat) :=
  if w == 16 then pure (5, 10) else if w == 32 then pure (8, 23) else if w == 64 then pure (11, 52)
  else throw s!"bad float width {w}"

def handle (j : Json) : R Json := do
  let w ← nat (← field j "w")
  let (eb, mb) ← fmt w
  let c ← str (← field j "cast")
  let cast : Wire.Cast := if c == "sat" then .sat else .trunc
  let neg ← bool (← field j "neg")
  let n ← nat (← field j "n")
  let bits ←
    match fieldOpt j "d" with
    | some dj => do
        let d ← nat dj
        if d == 0 then throw "zero denominator"
        pure (WireFloat.roundBinary eb mb cast neg n d)
    | none => pure (WireFloat.roundInt eb mb cast neg n)
  pure (Json.mkObj [("bits", toJson bits)])

end DriverFloat
