import Driver.Json
import Model.BitIO
/-! Suite `bitio`: operation sequences on `_BitWriter` / `_BitReader` (both code paths, sub-readers). -/
namespace DriverBitIO
open Lean DJ BitIO

def bitsOfBytes (bs : List Nat) : List Bool := bs.flatMap fun b => natBits 8 b

partial def bytesOfBits (l : List Bool) : List Nat :=
  if l.isEmpty then [] else ofBits (l.take 8) :: bytesOfBits (l.drop 8)

def runW (w : W) (op : Json) : R (W × Json) := do
  let a ← arr op
  match ← str (← nth a 0) with
  | "w" =>
      let w' := writeBits w (← nat (← nth a 1)) (← nat (← nth a 2))
      pure (w', (w'.off : Nat))
  | "align" =>
      let w' := alignTo w (← nat (← nth a 1))
      pure (w', (w'.off : Nat))
  | "finish" => pure (w, ofNats (bytesOfBits w.buf))
  | t => throw s!"bad writer op {t}"

partial def runR (r : Rd) (op : Json) : R (Rd × Json) := do
  let a ← arr op
  match ← str (← nth a 0) with
  | "r" =>
      let (v, r') := readBits r (← nat (← nth a 1))
      pure (r', ofList [(v : Nat), (r'.off : Nat)])
  | "align" =>
      let r' := r.alignTo (← nat (← nth a 1))
      pure (r', (r'.off : Nat))
  | "remaining" => pure (r, (r.remaining : Nat))
  | "sub" =>
      let (s, parent) := r.sub (← nat (← nth a 1))
      let ops ← arr (← nth a 2)
      let mut cur := s
      let mut outs : List Json := []
      for o in ops do
        let (c, out) ← runR cur o
        cur := c
        outs := outs ++ [out]
      pure (parent, ofList outs)
  | t => throw s!"bad reader op {t}"

def handle (j : Json) : R Json := do
  let wops ← arr (← field j "wops")
  let mut w : W := ⟨[], 0⟩
  let mut wout : List Json := []
  for o in wops do
    let (w', out) ← runW w o
    w := w'
    wout := wout ++ [out]
  let data ← nats (← field j "data")
  let rops ← arr (← field j "rops")
  let mut r : Rd := { data := bitsOfBytes data, start := 0, off := 0, limit := none }
  let mut rout : List Json := []
  for o in rops do
    let (r', out) ← runR r o
    r := r'
    rout := rout ++ [out]
  pure (Json.mkObj [("w", ofList wout), ("r", ofList rout), ("wok", w.ok)])

end DriverBitIO
