import Driver.Json
import Model.Reader
/-! Suite `text`: a namespace of abstract definitions (lines with statements, comments, fault markers) and the
    list of targets in reading order; outcome = the composites with attributes and docs, or the error location,
    plus the `@print` deliveries (C03, C17). -/
namespace DriverReader
open Lean DJ Reader

def optStr (j : Json) : R (Option String) :=
  if j.isNull then pure none else do pure (some (← str j))

def phase (j : Json) : R (Option Phase) := do
  if j.isNull then return none
  match (← str j) with
  | "syn" => pure (some .syn)
  | "pre" => pure (some .pre)
  | "mid" => pure (some .mid)
  | "emit" => pure (some .emit)
  | "commit" => pure (some .commit)
  | s => throw s!"bad phase {s}"

def akind (s : String) : R AKind :=
  match s with
  | "field" => pure .field
  | "padding" => pure .padding
  | "const" => pure .const
  | s => throw s!"bad attribute kind {s}"

def eval (j : Json) : R (Option EVal) := do
  if j.isNull then return none
  let a ← arr j
  match (← str (← nth a 0)) with
  | "b" => pure (some (.boolean (← bool (← nth a 1))))
  | "r" => pure (some (.rational (← int (← nth a 1))))
  | "o" => pure (some .other)
  | s => throw s!"bad value kind {s}"

def stmt (j : Json) : R (Option Stmt) := do
  if j.isNull then return none
  let a ← arr j
  match (← str (← nth a 0)) with
  | "attr" =>
      pure (some (.attr ⟨← akind (← str (← nth a 1)), ← str (← nth a 2), ← str (← nth a 3), ← str (← nth a 4)⟩))
  | "dir" => pure (some (.directive (← str (← nth a 1)) (← eval (← nth a 2)) (← str (← nth a 3))))
  | "marker" => pure (some .marker)
  | s => throw s!"bad statement {s}"

def line (j : Json) : R Line := do
  pure {
    stmt := ← stmt (← field j "s")
    refs := ← (← arr (← field j "refs")).mapM str
    deps := ← nats (← field j "deps")
    offs := ← bool (← field j "offs")
    fault := ← phase (← field j "fault")
    comment := ← optStr (← field j "c")
    textEmpty := ← bool (← field j "e")
    crlf := ← bool (← field j "crlf")
    inner := ← nat (← field j "inner") }

def defn (j : Json) : R Def := do
  pure { lines := ← (← arr (← field j "lines")).mapM line, finalFault := ← bool (← field j "final_fault") }

def kindStr : AKind → String
  | .field => "field"
  | .padding => "padding"
  | .const => "const"

def attrJson (a : Attr) : Json :=
  ofList [kindStr a.core.kind, a.core.name, a.core.ty, a.core.value, a.doc]

def schemaJson (s : Schema) : Json :=
  Json.mkObj [
    ("union", s.union),
    ("mode", match s.mode with
      | some .sealed => "sealed"
      | some (.extent n) => Json.num (JsonNumber.fromInt n)
      | none => Json.null),
    ("doc", s.doc),
    ("fields", ofList (s.fields.map attrJson)),
    ("consts", ofList (s.consts.map attrJson))]

def compJson (c : Composite) : Json :=
  Json.mkObj [("deprecated", c.deprecated), ("schemas", ofList (c.schemas.map schemaJson))]

def printsJson (w : W) : Json :=
  ofList (w.prints.map fun p => ofList [(p.file : Nat), (p.line : Nat), p.text])

def handle (j : Json) : R Json := do
  let defs ← (← arr (← field j "defs")).mapM defn
  let targets ← nats (← field j "targets")
  match readTargets defs targets W.init [] with
  | .ok (ts, w) =>
      pure (Json.mkObj [("res", "ok"),
        ("types", ofList (ts.map fun p => ofList [(p.1 : Nat), compJson p.2])),
        ("prints", printsJson w)])
  | .error (e, w) =>
      pure (Json.mkObj [("res", "invalid"), ("file", (e.file : Nat)),
        ("line", match e.line with | some n => (n : Nat) | none => Json.null),
        ("prints", printsJson w)])

end DriverReader
