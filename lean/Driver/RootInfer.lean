import Driver.Json
import Model.RootInfer
/-! Suite `rootinfer` (C15): a directory tree (absolute, normalised paths of its directories and files), and a list of
    calls - `DSDLDefinition.from_first_in(target, roots)` or `read_files(targets, roots)` - each with its own working
    directory and its own spelling of the target(s) and roots.  One outcome per call. -/
namespace DriverRootInfer
open Lean DJ RootInfer

def strs (j : Json) : R (List String) := do (← arr j).mapM str

/-- a path as the user types it; what `pathlib.Path(s)` makes of it (a leading `//` is not generated) -/
def parsePath (s : String) : Path := Path.ofComponents (s.startsWith "/") (s.splitOn "/")

def slash (p : AbsPath) : String := "/".intercalate p

def dummyText : Ns.Text := ⟨false, ⟨[], .sealed⟩, none⟩

def errCls : Err → String
  | .pathInference => "pathInference" | .notFound => "notFound" | .fileName => "fileName"
  | .valueError => "valueError" | .indexError => "indexError"

def err2Cls : Err2 → String
  | .infer e => errCls e
  | .ns .fileName => "fileName"
  | .ns .nestedRoot => "nestedRoot"
  | .ns e => "ns:" ++ (repr e).pretty

def defJson (d : Ns.Def) : Json :=
  Json.mkObj [("name", d.name), ("ver", ofNats [d.major, d.minor]),
              ("pid", match d.fpid with | some p => (p : Nat) | none => Json.null),
              ("file", slash d.path), ("root", slash d.root)]

def runCall (fs : FS) (c : Json) : R Json := do
  let cwd ← strs (← field c "cwd")
  let roots := (← strs (← field c "roots")).map parsePath
  match ← str (← field c "fn") with
  | "ffi" =>
    let t := parsePath (← str (← field c "target"))
    -- `_infer_path_to_root_from_first_found`: the root AS RETURNED (relative roots stay relative)
    let inferred : Json := match inferRoot fs cwd t roots with
      | .ok r => Json.mkObj [("res", "ok"), ("abs", r.abs), ("parts", ofList (r.parts.map fun (s : String) => (s : Json)))]
      | .error e => Json.mkObj [("res", errCls e)]
    match definitionOf fs cwd t roots dummyText with
    | .ok d => pure (Json.mkObj [("res", "ok"), ("def", defJson d), ("inferred", inferred)])
    | .error e => pure (Json.mkObj [("res", err2Cls e), ("inferred", inferred)])
  | "rf" =>
    let ts := (← strs (← field c "targets")).map parsePath
    match readFilesIdentities fs cwd ts roots dummyText with
    | .ok ds =>
      let ds := ds.mergeSort fun a b => decide (slash a.path ≤ slash b.path)
      pure (Json.mkObj [("res", "ok"), ("types", ofList (ds.map defJson))])
    | .error e => pure (Json.mkObj [("res", err2Cls e)])
  | t => throw s!"bad fn {t}"

def handle (j : Json) : R Json := do
  let dirs ← (← arr (← field j "dirs")).mapM strs
  let files ← (← arr (← field j "files")).mapM strs
  let fs := FS.ofLists dirs files
  let outs ← (← arr (← field j "calls")).mapM (runCall fs)
  pure (Json.mkObj [("out", ofList outs)])

end DriverRootInfer
