import Driver.Json
import Model.Layout
/-! Suite `layout`: type trees, layout queries, field / element offsets, `_offset_` (C02, C08, C14, C16, C18). -/
namespace DriverLayout
open Lean DJ Bls Layout

partial def parseTy (j : Json) : R Ty := do
  let a ← arr j
  let tag ← str (← nth a 0)
  match tag with
  | "prim" => pure (.prim (← nat (← nth a 1)))
  | "void" => pure (.void (← nat (← nth a 1)))
  | "farr" => pure (.farr (← parseTy (← nth a 1)) (← nat (← nth a 2)))
  | "varr" => pure (.varr (← parseTy (← nth a 1)) (← nat (← nth a 2)))
  | "struct" => pure (.struct (← (← arr (← nth a 1)).mapM parseTy))
  | "union" => pure (.union (← (← arr (← nth a 1)).mapM parseTy))
  | "delim" => pure (.delim (← parseTy (← nth a 1)) (← nat (← nth a 2)))
  | t => throw s!"bad type {t}"

/-- summary of an operator tree: min, max and residues for the requested divisors -/
def summary (o : Op) (divs : List Nat) : Json :=
  Json.mkObj [("min", (o.min : Nat)), ("max", (o.max : Nat)),
    ("mods", ofList (divs.map fun d => sortedNats (o.modulo d)))]

/-- fields of a structure / union definition section, sealed or delimited: (is a union, field types) -/
def sectionOf : Ty → R (Bool × List Ty)
  | .struct fs => pure (false, fs)
  | .union fs => pure (true, fs)
  | .delim (.struct fs) _ => pure (false, fs)
  | .delim (.union fs) _ => pure (true, fs)
  | _ => throw "bad-op"

/-- A definition program (suite layout, query `prog`): the statements of one definition section in order,
    `f` = the next field, `p` / `u` = an evaluation of `_offset_`, anything else (constants, comments, blank lines) has
    no layout.  Every evaluation is `DataSchemaBuilder.offset` over the fields added so far, expanded. -/
def progOut (isUnion : Bool) (fs : List Ty) : List Char → Nat → List Json
  | [], _ => []
  | c :: cs, j =>
      if c == 'f' then progOut isUnion fs cs (j + 1)
      else if c == 'p' || c == 'u' then
        sortedNats (offsetIntrinsic isUnion (fs.take j)).expand :: progOut isUnion fs cs j
      else progOut isUnion fs cs j

def query (t : Ty) (j : Json) : R Json := do
  let a ← arr j
  let tag ← str (← nth a 0)
  match tag with
  | "align" => pure (t.align : Nat)
  | "extent" => pure (t.extent : Nat)
  | "min" => pure (t.bls.min : Nat)
  | "max" => pure (t.bls.max : Nat)
  | "fixed" => pure (fixedLength t.bls)
  | "mod" => do
      let d ← nat (← nth a 1)
      if d == 0 then throw "bad-op" else pure (sortedNats (t.bls.modulo d))
  | "aligned" => do
      let d ← nat (← nth a 1)
      if d == 0 then throw "bad-op" else pure (isAlignedAt t.bls d)
  | "expand" => pure (sortedNats t.bls.expand)
  | "lenbits" => match t with
      | .varr e cap => pure (lenBits e cap : Nat)
      | _ => throw "bad-op"
  | "tagbits" => match t with
      | .union fs => pure (tagBits fs : Nat)
      | .delim (.union fs) _ => pure (tagBits fs : Nat)
      | _ => throw "bad-op"
  | "hdrbits" => match t with
      | .delim inner _ => pure (hdrBits inner : Nat)
      | _ => throw "bad-op"
  | "asserts" => pure (ctorAssertsOk t)
  | "offsets" => do
      let base ← nats (← nth a 1)
      let divs ← nats (← nth a 2)
      if base.isEmpty || divs.contains 0 then throw "bad-op"
      pure (ofList ((fieldOffsets (.leaf base) t).map fun o => summary o divs))
  | "xoffsets" => do
      -- the field offsets by numerical expansion
      let base ← nats (← nth a 1)
      if base.isEmpty then throw "bad-op"
      pure (ofList ((fieldOffsets (.leaf base) t).map fun o => sortedNats o.expand))
  | "prog" => do
      let plan ← str (← nth a 1)
      let (u1, f1) ← sectionOf t
      let first := ofList (progOut u1 f1 plan.toList 0)
      let rj ← nth a 2
      if rj.isNull then pure (ofList [first, ofList []])
      else
        let resp ← parseTy rj
        let plan2 ← str (← nth a 3)
        let (u2, f2) ← sectionOf resp
        pure (ofList [first, ofList (progOut u2 f2 plan2.toList 0)])
  | "elemoffsets" => do
      let base ← nats (← nth a 1)
      let divs ← nats (← nth a 2)
      if base.isEmpty || divs.contains 0 then throw "bad-op"
      match t with
      | .farr e cap => pure (ofList ((elementOffsets (.leaf base) e cap).map fun o => summary o divs))
      | _ => throw "bad-op"
  | "intrinsic" => do
      -- `_offset_` after the first j fields of a struct / union definition; answered by expansion
      let jn ← nat (← nth a 1)
      match t with
      | .struct fs => pure (sortedNats (offsetIntrinsic false (fs.take jn)).expand)
      | .union fs => pure (sortedNats (offsetIntrinsic true (fs.take jn)).expand)
      | .delim (.struct fs) _ => pure (sortedNats (offsetIntrinsic false (fs.take jn)).expand)
      | .delim (.union fs) _ => pure (sortedNats (offsetIntrinsic true (fs.take jn)).expand)
      | _ => throw "bad-op"
  | "svc_intrinsic" => do
      -- `_offset_` after the first j fields of the request (this type) and of the response (a second structure)
      let jn ← nat (← nth a 1)
      let resp ← parseTy (← nth a 2)
      let fieldsOf : Ty → R (List Ty) := fun
        | .struct fs => pure fs
        | .delim (.struct fs) _ => pure fs
        | _ => throw "bad-op"
      let f1 ← fieldsOf t
      let f2 ← fieldsOf resp
      pure (ofList [sortedNats (offsetIntrinsic false (f1.take jn)).expand,
                    sortedNats (offsetIntrinsic false (f2.take jn)).expand])
  | q => throw s!"bad query {q}"

def handle (j : Json) : R Json := do
  let t ← parseTy (← field j "ty")
  if !t.wf then
    return Json.mkObj [("res", "rejected")]
  let qs ← arr (← field j "qs")
  let outs ← qs.mapM (query t)
  match fieldOpt j "script" with
  | none => pure (Json.mkObj [("res", "ok"), ("out", ofList outs)])
  | some sj => do
      -- a history script over a pool of types: the model has no state, every step is answered from the type alone
      let steps ← arr sj
      let souts ← steps.mapM fun st => do
        let sa ← arr st
        let ty ← parseTy (← nth sa 0)
        if !ty.wf then pure (Json.str "rejected") else query ty (← nth sa 1)
      pure (Json.mkObj [("res", "ok"), ("out", ofList outs), ("sout", ofList souts)])

/-- Suite `evolve` (C14 layout half): the same queries on a container and on its revision. -/
def handlePair (j : Json) : R Json := do
  let t ← parseTy (← field j "ty")
  let t2 ← parseTy (← field j "ty2")
  if !t.wf || !t2.wf then
    return Json.mkObj [("res", "rejected")]
  let qs ← arr (← field j "qs")
  let outs ← qs.mapM (query t)
  let outs2 ← qs.mapM (query t2)
  pure (Json.mkObj [("res", "ok"), ("out", ofList outs), ("out2", ofList outs2)])

/-- enumeration cost of the C16 query script: byte alignment of the type and of every field offset (base {0}),
    plus `==` (both operands modulo 32) -/
def scriptCost (t : Ty) : Nat :=
  t.bls.cost 8 + ((fieldOffsets (.leaf [0]) t).map fun o => o.cost 8).sum + 2 * t.bls.cost 32

/-- Suite `cost` (C16): the same shape at two capacity scales. -/
def handleCost (j : Json) : R Json := do
  let t ← parseTy (← field j "ty")
  let t2 ← parseTy (← field j "ty2")
  if !t.wf || !t2.wf then
    return Json.mkObj [("res", "rejected")]
  pure (Json.mkObj [("res", "ok"), ("cost", (scriptCost t : Nat)), ("cost2", (scriptCost t2 : Nat))])

end DriverLayout
