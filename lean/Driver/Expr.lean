import Driver.Json
import Model.Const
/-! Suites `expr` (C04), `const` (C12), `garbage` (C13): expression trees as JSON, evaluated by the model in the
    context in which the harness hands the rendered text to the real library. -/
namespace DriverExpr
open Lean DJ Ex

abbrev JR := DJ.R

def unOp : String → JR UnOp
  | "pos" => pure .pos | "neg" => pure .neg | "not" => pure .not
  | s => throw s!"bad unary {s}"

def binOp : String → JR BinOp
  | "lor" => pure .lor | "land" => pure .land
  | "eq" => pure .eq | "ne" => pure .ne | "le" => pure .le | "ge" => pure .ge | "lt" => pure .lt | "gt" => pure .gt
  | "bor" => pure .bor | "bxor" => pure .bxor | "band" => pure .band
  | "add" => pure .add | "sub" => pure .sub | "mul" => pure .mul | "div" => pure .div | "mod" => pure .mod
  | "pow" => pure .pow
  | s => throw s!"bad binary {s}"

partial def tree (j : Json) : JR Expr := do
  let a ← arr j
  let tag ← str (← nth a 0)
  match tag with
  | "int" => pure (.lit (.int (← str (← nth a 1))))
  | "real" => pure (.lit (.real (← str (← nth a 1))))
  | "str" => pure (.lit (.str (← str (← nth a 1))))
  | "bool" => pure (.lit (.bool (← bool (← nth a 1))))
  | "id" => pure (.ident (← str (← nth a 1)))
  | "set" => pure (.setLit (← (← arr (← nth a 1)).mapM tree))
  | "un" => pure (.un (← unOp (← str (← nth a 1))) (← tree (← nth a 2)))
  | "bin" => pure (.bin (← binOp (← str (← nth a 1))) (← tree (← nth a 2)) (← tree (← nth a 3)))
  | "attr" => pure (.attr (← tree (← nth a 1)) (← str (← nth a 2)))
  | t => throw s!"bad node {t}"

def castMode : String → JR CastMode
  | "sat" => pure .saturated | "trunc" => pure .truncated
  | s => throw s!"bad cast mode {s}"

def cty (j : Json) : JR CTy := do
  let a ← arr j
  match ← str (← nth a 0) with
  | "bool" => pure .bool
  | "uint" => pure (.uint (← nat (← nth a 1)) (← castMode (← str (← nth a 2))))
  | "int" => pure (.int (← nat (← nth a 1)) (← castMode (← str (← nth a 2))))
  | "float" => pure (.float (← nat (← nth a 1)) (← castMode (← str (← nth a 2))))
  | "other" => pure .other
  | t => throw s!"bad type {t}"

def ofInt (i : Int) : Json := Json.num (JsonNumber.fromInt i)

def scalarJson : Scalar → Json
  | .rat q => ofList [Json.str "r", ofInt q.num, ofInt q.den]
  | .bool b => ofList [Json.str "b", Json.bool b]
  | .str cs => ofList [Json.str "s", ofNats cs]

def valJson : Val → Json
  | .sc s => scalarJson s
  | .set es => ofList [Json.str "set", ofList (es.map scalarJson)]

def invName : InvKind → String
  | .undefinedOp => "undefined-operator" | .divZero => "zero-division" | .nonInteger => "non-integer"
  | .emptySet => "empty-set" | .hetero => "heterogeneous" | .undefinedAttr => "undefined-attribute"
  | .undefinedIdent => "undefined-identifier" | .syntax => "syntax" | .directive => "directive"
  | .constant => "constant" | .typeParam => "type-parameter"

def hazName : Hazard → String
  | .powComplex => "pow-complex" | .powFloatOverflow => "pow-float-overflow" | .chrRange => "chr-range"
  | .surrogateEncode => "surrogate-encode" | .intDigitLimit => "int-digit-limit" | .strDigitLimit => "str-digit-limit"

/-- the character data of the case (`"ucd"`: combining classes, full canonical decompositions, primary composites of
    the code points that can occur while the strings of the case are normalised); absent: no data (ASCII-only case) -/
def ucdOf (j : Json) : JR Ucd :=
  match fieldOpt j "ucd" with
  | none => pure Ucd.empty
  | some u => do
    let ccc ← (← arr (← field u "ccc")).mapM fun e => do
      let a ← arr e
      pure ((← nat (← nth a 0)), (← nat (← nth a 1)))
    let dec ← (← arr (← field u "dec")).mapM fun e => do
      let a ← arr e
      pure ((← nat (← nth a 0)), (← nats (← nth a 1)))
    let comp ← (← arr (← field u "comp")).mapM fun e => do
      let a ← arr e
      pure (((← nat (← nth a 0)), (← nat (← nth a 1))), (← nat (← nth a 2)))
    pure ⟨ccc, dec, comp⟩

/-- a value with every string in normal form (sets: duplicates that arise are dropped): the granularity at which
    string values are compared with the library, strings being equal when their NFC forms are -/
def normScalar (u : Ucd) : Scalar → Scalar
  | .str cs => .str (u.nfc cs)
  | s => s

def normVal (u : Ucd) : Val → Val
  | .sc s => .sc (normScalar u s)
  | .set es => .set (dedup (es.map (normScalar u)))

def outcomeJson : Ex.R Val → List (String × Json)
  | .ok v => [("v", valJson v)]
  | .error (.invalid k) => [("err", "invalid"), ("soft_kind", invName k)]
  | .error (.hazard h) => [("err", "hazard:" ++ hazName h)]
  | .error .inexact => [("err", "inexact")]
  | .error .unsupported => [("err", "unsupported")]

mutual
partial def exprBeq : Expr → Expr → Bool
  | .lit a, .lit b => a == b
  | .ident a, .ident b => a == b
  | .setLit a, .setLit b => listBeq a b
  | .un o a, .un p b => o == p && exprBeq a b
  | .bin o a c, .bin p b d => o == p && exprBeq a b && exprBeq c d
  | .attr a n, .attr b m => n == m && exprBeq a b
  | _, _ => false
partial def listBeq : List Expr → List Expr → Bool
  | [], [] => true
  | a :: as, b :: bs => exprBeq a b && listBeq as bs
  | _, _ => false
end

def roundTrips (e : Expr) : Bool :=
  (match parseTokens (toks e) with | some x => exprBeq x e | none => false) &&
  (match parseTokens (toksFull e) with | some x => exprBeq x e | none => false)

/-- header constants `<type> NAME = <expr>` evaluated in order; the first failure fails the definition -/
def header [StrNorm] (items : List Json) : JR (Ex.R Env) := do
  let mut env : Env := []
  for it in items do
    let a ← arr it
    let name ← str (← nth a 0)
    let ty ← cty (← nth a 1)
    let e ← tree (← nth a 2)
    match constStatement env ty e with
    | .error x => return .error x
    | .ok v => env := env ++ [(name, v)]
  return .ok env

/-- the statement that carries the expression -/
def statement [StrNorm] (env : Env) (ctx : List Json) (e : Expr) : JR (Ex.R Val) := do
  match ← str (← nth ctx 0) with
  | "print" => pure ((eval env e).bind observePrint)
  | "assert" => pure ((eval env e).bind observeAssert)
  | "const" => pure (constStatement env (← cty (← nth ctx 1)) e)
  | "cap" => pure ((eval env e).bind (observeCapacity (← nat (← nth ctx 1))))
  | "extent" => pure ((eval env e).bind observeExtent)
  | c => throw s!"bad context {c}"

def evalCaseN [StrNorm] (j : Json) : JR (Ex.R Val × Expr) := do
  let e ← tree (← field j "tree")
  let ctx ← arr (← field j "ctx")
  let hdr ← match fieldOpt j "env" with
    | some h => header (← arr h)
    | none => pure (.ok [])
  match hdr with
  | .error x => pure (.error x, e)
  | .ok env => pure (← statement env ctx e, e)

/-- the case evaluated with string `==` / `!=` over the NFC algorithm of the model on the character data of the case -/
def evalCase (j : Json) : JR (Ex.R Val × Expr) := do
  let u ← ucdOf j
  @evalCaseN ⟨u.nfc⟩ j

/-- the rendered text of the case (the very characters the real library parses), lexed with the model's terminals
    and parsed with the model's PEG, gives the tree of the case -/
def charsOk (j : Json) (e : Expr) : Bool :=
  match fieldOpt j "text" with
  | some (Json.str t) => (match parseChars t.toList with | some x => exprBeq x e | none => false)
  | _ => true

def handle (j : Json) : JR Json := do
  let (r, e) ← evalCase j
  let u ← ucdOf j
  let vn : List (String × Json) := match r with
    | .ok v => [("vn", valJson (normVal u v))]
    | _ => []
  pure (Json.mkObj (outcomeJson r ++ vn ++ [("rt", Json.bool (roundTrips e && charsOk j e)), ("soft_lx", Json.bool (charsOk j e))]))

def nameJson : NameOutcome → Json
  | .formatError => "format-error"
  | .parsed true => "parsed+port"
  | .parsed false => "parsed"

/-- suite `garbage`: prediction of the surfaced outcome class where the case carries a modelled expression,
    "unmodelled" otherwise; file-name shapes as soft information. -/
def handleGarbage (j : Json) : JR Json := do
  let names ← match fieldOpt j "names" with
    | some n => (← arr n).mapM str
    | none => pure []
  let soft := ofList (names.map fun n => nameJson (fileNameOutcome n))
  match fieldOpt j "tree" with
  | none => pure (Json.mkObj [("pred", "unmodelled"), ("soft_names", soft)])
  | some _ =>
    let (r, _) ← evalCase j
    let pred : String := match r with
      | .error .inexact => "unmodelled"
      | .error .unsupported => "unmodelled"
      | r => match surface (innerOf r) with
        | .ok => "ok"
        | .invalid _ => "invalid"
        | .internal _ => "internal"
        | .foreign c => "foreign:" ++ c
    let softh : String := match r with
      | .error (.hazard h) => hazName h
      | _ => ""
    pure (Json.mkObj [("pred", pred), ("soft_hazard", softh), ("soft_names", soft)])

end DriverExpr
