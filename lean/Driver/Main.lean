import Driver.Bls
import Driver.Layout
import Driver.Values
import Driver.Wire
import Driver.Namespace
import Driver.Reader
import Driver.Rules
import Driver.BitIO
import Driver.Expr
import Driver.Float
import Driver.RootInfer
/-! Correspondence driver: `lake env lean --run Driver/Main.lean <suite>`; one JSON case per input line,
    one JSON outcome per output line (`{"id":…, …}` or `{"id":…,"err":…}`). -/
open Lean

def dispatch (suite : String) (j : Json) : Except String Json :=
  match suite with
  | "bls" => DriverBls.handle j
  | "layout" => DriverLayout.handle j
  | "evolve" => DriverLayout.handlePair j
  | "cost" => DriverLayout.handleCost j
  | "values" => DriverValues.handle j
  | "wire" => DriverWire.handle j
  | "ns" => DriverNs.handle j
  | "text" => DriverReader.handle j
  | "rules" => DriverRules.handle j
  | "bitio" => DriverBitIO.handle j
  | "floatconv" => DriverFloat.handle j
  | "expr" | "const" => DriverExpr.handle j
  | "garbage" => DriverExpr.handleGarbage j
  | "rootinfer" => DriverRootInfer.handle j
  | s => throw s!"unknown suite {s}"

partial def loop (suite : String) (h : IO.FS.Stream) (out : IO.FS.Stream) : IO Unit := do
  let line ← h.getLine
  if line.isEmpty then return ()
  let res : Json := match Json.parse line with
    | .error e => Json.mkObj [("err", s!"parse: {e}")]
    | .ok j =>
      let id := (j.getObjVal? "id").toOption.getD Json.null
      match dispatch suite j with
      | .ok r => r.setObjVal! "id" id
      | .error e => Json.mkObj [("id", id), ("err", e)]
  out.putStrLn res.compress
  loop suite h out

def main (args : List String) : IO Unit := do
  let suite := args.headD "bls"
  loop suite (← IO.getStdin) (← IO.getStdout)
  (← IO.getStdout).flush
