import Lean.Data.Json
/-! Small JSON helpers shared by the suite handlers of the correspondence driver. -/
namespace DJ
open Lean

abbrev R := Except String

def arr (j : Json) : R (List Json) := do
  let a ← j.getArr?
  pure a.toList

def nat (j : Json) : R Nat := j.getNat?
def int (j : Json) : R Int := j.getInt?
def str (j : Json) : R String := j.getStr?
def bool (j : Json) : R Bool := j.getBool?
def field (j : Json) (k : String) : R Json := j.getObjVal? k
def fieldOpt (j : Json) (k : String) : Option Json := (j.getObjVal? k).toOption

def nats (j : Json) : R (List Nat) := do (← arr j).mapM nat

def ofNats (l : List Nat) : Json := Json.arr (l.map (fun (n : Nat) => Lean.toJson n)).toArray
def sortedNats (l : List Nat) : Json := ofNats (l.mergeSort (· ≤ ·))
def ofList (l : List Json) : Json := Json.arr l.toArray

def nth (l : List α) (i : Nat) : R α :=
  match l[i]? with
  | some x => pure x
  | none => throw s!"index {i} out of range"

end DJ
