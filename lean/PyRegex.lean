import PyLib
/-!
  PyRegex: the Lean meaning of the fragment of Python's `str` / `re` that `tools/py2lean_names.py` translates
  (`pydsdl/_serializable/_name.py`).  No Mathlib; the only import is `PyLib` (for the exception monad `Py.M`), and part 1
  uses nothing of it.

  Part 1 - regular expressions.  `Rx` is the abstract syntax the translator's own parser produces from the *source text* of a
  pattern; `Rx.Matches` is the declarative meaning (the language of the expression); `Rx.fullmatch` is a total executable
  matcher by Brzozowski derivatives, proved correct against `Matches` (`Rx.fullmatch_iff`).  A backtracking engine such as
  CPython's `sre` finds a match exactly when one exists for this fragment (no back-references, no possessive / atomic
  groups, no look-around: none of them is in `Rx`), so the boolean result of `pattern.fullmatch(s) is not None` is
  `Rx.fullmatch`; `pattern.match(s)` is `Rx.pyMatch`.

  Characters: a Python `str` is a list of code points; `\d` and `.` are modelled on ASCII subjects (`\d` = `0-9`; for `str`
  patterns CPython's `\d` is the Unicode category Nd, which contains no other ASCII character; `.` = anything but `\n`).
  Part 2 makes that explicit: `Py.reMatch` and `Py.strLower` *fail* (`Err.other "non-ASCII"`) on a subject with a non-ASCII
  character instead of guessing, like `Py.sub` when it would leave the naturals.

  Part 2 - `str` primitives in `Py.M` (`x in s`, `s[i]`, `s.lower()`, `isinstance(p, str)`, `p == s`, `p.match(s)`).
-/

namespace Py

/-! ## Part 1: regular expressions -/

inductive Rx where
  /-- the empty language (only produced by derivatives) -/
  | empty
  /-- the empty string -/
  | eps
  /-- a literal character -/
  | chr (c : Char)
  /-- `[a-zX]` / `[^…]`: inclusive ranges (a single character `c` is the range `(c, c)`) -/
  | cls (neg : Bool) (ranges : List (Char × Char))
  /-- `\d` -/
  | digit
  /-- `.` (without DOTALL) -/
  | any
  | seq (a b : Rx)
  | alt (a b : Rx)
  | star (a : Rx)
  deriving Repr, DecidableEq, Inhabited

namespace Rx

/-- `a+` -/
@[reducible] def plus (a : Rx) : Rx := seq a (star a)
/-- `a?` -/
@[reducible] def opt (a : Rx) : Rx := alt a eps

def isDigit (c : Char) : Bool := '0' ≤ c && c ≤ '9'

def inCls (neg : Bool) (ranges : List (Char × Char)) (c : Char) : Bool :=
  neg != ranges.any fun r => r.1 ≤ c && c ≤ r.2

/-- the declarative meaning: the language of a regular expression -/
inductive Matches : Rx → List Char → Prop where
  | eps : Matches .eps []
  | chr (c : Char) : Matches (.chr c) [c]
  | cls {neg : Bool} {rs : List (Char × Char)} {c : Char} : inCls neg rs c = true → Matches (.cls neg rs) [c]
  | digit {c : Char} : isDigit c = true → Matches .digit [c]
  | any {c : Char} : c ≠ '\n' → Matches .any [c]
  | seq {a b : Rx} {s t : List Char} : Matches a s → Matches b t → Matches (.seq a b) (s ++ t)
  | altL {a b : Rx} {s : List Char} : Matches a s → Matches (.alt a b) s
  | altR {a b : Rx} {s : List Char} : Matches b s → Matches (.alt a b) s
  | starNil {a : Rx} : Matches (.star a) []
  | starCons {a : Rx} {s t : List Char} : Matches a s → Matches (.star a) t → Matches (.star a) (s ++ t)

def nullable : Rx → Bool
  | empty => false
  | eps => true
  | chr _ => false
  | cls _ _ => false
  | digit => false
  | any => false
  | seq a b => a.nullable && b.nullable
  | alt a b => a.nullable || b.nullable
  | star _ => true

/-- Brzozowski derivative -/
def deriv (c : Char) : Rx → Rx
  | empty => empty
  | eps => empty
  | chr d => if c = d then eps else empty
  | cls neg rs => if inCls neg rs c then eps else empty
  | digit => if isDigit c then eps else empty
  | any => if c = '\n' then empty else eps
  | seq a b => if a.nullable then alt (seq (deriv c a) b) (deriv c b) else seq (deriv c a) b
  | alt a b => alt (deriv c a) (deriv c b)
  | star a => seq (deriv c a) (star a)

/-- `re.compile(r).fullmatch(s) is not None` -/
def fullmatch (r : Rx) : List Char → Bool
  | [] => r.nullable
  | c :: s => (r.deriv c).fullmatch s

/-! ### inversion of `Matches` -/

theorem matches_empty (u : List Char) : ¬ Matches .empty u := fun h => nomatch h

theorem matches_eps (u : List Char) : Matches .eps u ↔ u = [] :=
  ⟨fun h => by cases h; rfl, fun h => h ▸ .eps⟩

theorem matches_chr (c : Char) (u : List Char) : Matches (.chr c) u ↔ u = [c] :=
  ⟨fun h => by cases h; rfl, fun h => h ▸ .chr c⟩

theorem matches_cls (neg : Bool) (rs : List (Char × Char)) (u : List Char) :
    Matches (.cls neg rs) u ↔ ∃ c, u = [c] ∧ inCls neg rs c = true :=
  ⟨fun h => by cases h with | cls h => exact ⟨_, rfl, h⟩, fun ⟨_, h, hc⟩ => h ▸ .cls hc⟩

theorem matches_digit (u : List Char) : Matches .digit u ↔ ∃ c, u = [c] ∧ isDigit c = true :=
  ⟨fun h => by cases h with | digit h => exact ⟨_, rfl, h⟩, fun ⟨_, h, hc⟩ => h ▸ .digit hc⟩

theorem matches_any (u : List Char) : Matches .any u ↔ ∃ c, u = [c] ∧ c ≠ '\n' :=
  ⟨fun h => by cases h with | any h => exact ⟨_, rfl, h⟩, fun ⟨_, h, hc⟩ => h ▸ .any hc⟩

theorem matches_seq (a b : Rx) (u : List Char) :
    Matches (.seq a b) u ↔ ∃ s t, u = s ++ t ∧ Matches a s ∧ Matches b t :=
  ⟨fun h => by cases h with | seq h1 h2 => exact ⟨_, _, rfl, h1, h2⟩, fun ⟨_, _, h, h1, h2⟩ => h ▸ .seq h1 h2⟩

theorem matches_alt (a b : Rx) (u : List Char) : Matches (.alt a b) u ↔ Matches a u ∨ Matches b u :=
  ⟨fun h => by cases h with | altL h => exact .inl h | altR h => exact .inr h,
   fun h => h.elim .altL .altR⟩

theorem matches_star (a : Rx) (u : List Char) :
    Matches (.star a) u ↔ u = [] ∨ ∃ s t, u = s ++ t ∧ Matches a s ∧ Matches (.star a) t :=
  ⟨fun h => by cases h with | starNil => exact .inl rfl | starCons h1 h2 => exact .inr ⟨_, _, rfl, h1, h2⟩,
   fun h => h.elim (fun h => h ▸ .starNil) fun ⟨_, _, h, h1, h2⟩ => h ▸ .starCons h1 h2⟩

/-- a non-empty word of `a*` starts with a non-empty word of `a` -/
theorem matches_star_cons (a : Rx) (c : Char) (u : List Char) :
    Matches (.star a) (c :: u) ↔ ∃ s t, u = s ++ t ∧ Matches a (c :: s) ∧ Matches (.star a) t := by
  constructor
  · intro h
    generalize hr : Rx.star a = r at h
    generalize hw : c :: u = w at h
    induction h generalizing u with
    | eps | chr | cls | digit | any | seq | altL | altR => cases hr
    | starNil => cases hw
    | @starCons a' s t h1 h2 _ ih2 =>
      cases hr
      cases s with
      | nil => exact ih2 u rfl hw
      | cons d s' =>
        simp only [List.cons_append, List.cons.injEq] at hw
        obtain ⟨rfl, rfl⟩ := hw
        exact ⟨s', t, rfl, h1, h2⟩
  · rintro ⟨s, t, rfl, h1, h2⟩
    exact Matches.starCons h1 h2

/-! ### correctness of the matcher -/

theorem nullable_iff (r : Rx) : r.nullable = true ↔ Matches r [] := by
  induction r with
  | empty => simp [nullable, matches_empty]
  | eps => simp [nullable, matches_eps]
  | chr c => simp [nullable, matches_chr]
  | cls neg rs => simp [nullable, matches_cls]
  | digit => simp [nullable, matches_digit]
  | any => simp [nullable, matches_any]
  | seq a b iha ihb =>
    simp only [nullable, Bool.and_eq_true, iha, ihb, matches_seq]
    constructor
    · rintro ⟨h1, h2⟩; exact ⟨[], [], rfl, h1, h2⟩
    · rintro ⟨s, t, h, h1, h2⟩
      obtain ⟨rfl, rfl⟩ := List.append_eq_nil_iff.mp h.symm
      exact ⟨h1, h2⟩
  | alt a b iha ihb => simp only [nullable, Bool.or_eq_true, iha, ihb, matches_alt]
  | star a _ => simp [nullable, Matches.starNil]

theorem deriv_iff (r : Rx) (c : Char) (u : List Char) : Matches (r.deriv c) u ↔ Matches r (c :: u) := by
  induction r generalizing u with
  | empty => simp [deriv, matches_empty]
  | eps => simp [deriv, matches_empty, matches_eps]
  | chr d =>
    simp only [deriv, matches_chr, List.cons.injEq]
    split
    · rename_i h; simp [matches_eps, h]
    · rename_i h; simp [matches_empty, h]
  | cls neg rs =>
    simp only [deriv, matches_cls, List.cons.injEq]
    split
    · rename_i h
      simp only [matches_eps]
      exact ⟨fun hu => ⟨c, ⟨rfl, hu⟩, h⟩, fun ⟨_, ⟨_, hu⟩, _⟩ => hu⟩
    · rename_i h
      simp only [matches_empty, false_iff]
      rintro ⟨d, ⟨rfl, _⟩, hd⟩
      exact h hd
  | digit =>
    simp only [deriv, matches_digit, List.cons.injEq]
    split
    · rename_i h
      simp only [matches_eps]
      exact ⟨fun hu => ⟨c, ⟨rfl, hu⟩, h⟩, fun ⟨_, ⟨_, hu⟩, _⟩ => hu⟩
    · rename_i h
      simp only [matches_empty, false_iff]
      rintro ⟨d, ⟨rfl, _⟩, hd⟩
      exact h hd
  | any =>
    simp only [deriv, matches_any, List.cons.injEq]
    split
    · rename_i h
      simp only [matches_empty, false_iff]
      rintro ⟨d, ⟨rfl, _⟩, hd⟩
      exact hd h
    · rename_i h
      simp only [matches_eps]
      exact ⟨fun hu => ⟨c, ⟨rfl, hu⟩, h⟩, fun ⟨_, ⟨_, hu⟩, _⟩ => hu⟩
  | seq a b iha ihb =>
    have key : Matches (.seq a b) (c :: u) ↔
        (Matches a [] ∧ Matches b (c :: u)) ∨ ∃ s t, u = s ++ t ∧ Matches a (c :: s) ∧ Matches b t := by
      rw [matches_seq]
      constructor
      · rintro ⟨s, t, h, h1, h2⟩
        cases s with
        | nil => exact .inl ⟨h1, by simpa using h ▸ h2⟩
        | cons d s' =>
          simp only [List.cons_append, List.cons.injEq] at h
          obtain ⟨rfl, rfl⟩ := h
          exact .inr ⟨s', t, rfl, h1, h2⟩
      · rintro (⟨h1, h2⟩ | ⟨s, t, rfl, h1, h2⟩)
        · exact ⟨[], c :: u, rfl, h1, h2⟩
        · exact ⟨c :: s, t, rfl, h1, h2⟩
    have hseq : Matches (.seq (deriv c a) b) u ↔ ∃ s t, u = s ++ t ∧ Matches a (c :: s) ∧ Matches b t := by
      rw [matches_seq]
      exact ⟨fun ⟨s, t, h, h1, h2⟩ => ⟨s, t, h, (iha s).mp h1, h2⟩, fun ⟨s, t, h, h1, h2⟩ => ⟨s, t, h, (iha s).mpr h1, h2⟩⟩
    rw [key]
    simp only [deriv]
    split
    · rename_i hn
      rw [matches_alt, hseq, ihb]
      have := (nullable_iff a).mp hn
      constructor
      · rintro (h | h)
        · exact .inr h
        · exact .inl ⟨this, h⟩
      · rintro (⟨_, h⟩ | h)
        · exact .inr h
        · exact .inl h
    · rename_i hn
      rw [hseq]
      constructor
      · exact .inr
      · rintro (⟨h, _⟩ | h)
        · exact absurd ((nullable_iff a).mpr h) hn
        · exact h
  | alt a b iha ihb => simp only [deriv, matches_alt, iha, ihb]
  | star a iha =>
    simp only [deriv]
    rw [matches_star_cons, matches_seq]
    exact ⟨fun ⟨s, t, h, h1, h2⟩ => ⟨s, t, h, (iha s).mp h1, h2⟩, fun ⟨s, t, h, h1, h2⟩ => ⟨s, t, h, (iha s).mpr h1, h2⟩⟩

/-- The executable matcher decides the language of the expression. -/
theorem fullmatch_iff (r : Rx) (s : List Char) : r.fullmatch s = true ↔ Matches r s := by
  induction s generalizing r with
  | nil => exact nullable_iff r
  | cons c s ih => rw [fullmatch, ih, deriv_iff]

instance (r : Rx) (s : List Char) : Decidable (Matches r s) := decidable_of_iff _ (fullmatch_iff r s)

/-- two expressions with the same language get the same verdict -/
theorem fullmatch_congr {r r' : Rx} {s : List Char} (h : Matches r s ↔ Matches r' s) : r.fullmatch s = r'.fullmatch s := by
  rw [Bool.eq_iff_iff, fullmatch_iff, fullmatch_iff]; exact h

/-! ### compositional laws of the matcher (what the bridges rewrite with) -/

theorem fullmatch_empty (s : List Char) : fullmatch .empty s = false := by
  rw [Bool.eq_false_iff]; intro h; exact matches_empty s ((fullmatch_iff _ _).mp h)

@[simp] theorem fullmatch_nil (r : Rx) : r.fullmatch [] = r.nullable := rfl

theorem fullmatch_eps (s : List Char) : fullmatch .eps s = s.isEmpty := by
  rw [Bool.eq_iff_iff, fullmatch_iff, matches_eps, List.isEmpty_iff]

theorem fullmatch_alt (a b : Rx) (s : List Char) : (alt a b).fullmatch s = (a.fullmatch s || b.fullmatch s) := by
  rw [Bool.eq_iff_iff, Bool.or_eq_true, fullmatch_iff, fullmatch_iff, fullmatch_iff, matches_alt]

theorem fullmatch_seq_iff (a b : Rx) (u : List Char) :
    (seq a b).fullmatch u = true ↔ ∃ s t, u = s ++ t ∧ a.fullmatch s = true ∧ b.fullmatch t = true := by
  simp only [fullmatch_iff, matches_seq]

theorem fullmatch_seq_assoc (a b c : Rx) (s : List Char) : (seq (seq a b) c).fullmatch s = (seq a (seq b c)).fullmatch s := by
  apply fullmatch_congr
  simp only [matches_seq]
  constructor
  · rintro ⟨_, t, rfl, ⟨s1, s2, rfl, h1, h2⟩, h3⟩
    exact ⟨s1, s2 ++ t, by simp, h1, s2, t, rfl, h2, h3⟩
  · rintro ⟨s1, _, rfl, h1, s2, t, rfl, h2, h3⟩
    exact ⟨s1 ++ s2, t, by simp, ⟨s1, s2, rfl, h1, h2⟩, h3⟩

theorem fullmatch_seq_eps (a : Rx) (s : List Char) : (seq a eps).fullmatch s = a.fullmatch s := by
  apply fullmatch_congr
  simp only [matches_seq, matches_eps]
  constructor
  · rintro ⟨s1, _, rfl, h1, rfl⟩; simpa using h1
  · intro h; exact ⟨s, [], by simp, h, rfl⟩

theorem fullmatch_eps_seq (a : Rx) (s : List Char) : (seq eps a).fullmatch s = a.fullmatch s := by
  apply fullmatch_congr
  simp only [matches_seq, matches_eps]
  constructor
  · rintro ⟨_, s2, rfl, rfl, h1⟩; simpa using h1
  · intro h; exact ⟨[], s, by simp, rfl, h⟩

/-- `(a|b)r` -/
theorem fullmatch_alt_seq (a b r : Rx) (s : List Char) :
    (seq (alt a b) r).fullmatch s = ((seq a r).fullmatch s || (seq b r).fullmatch s) := by
  rw [← fullmatch_alt]
  apply fullmatch_congr
  simp only [matches_seq, matches_alt]
  constructor
  · rintro ⟨s1, s2, h, h1 | h1, h2⟩
    · exact .inl ⟨s1, s2, h, h1, h2⟩
    · exact .inr ⟨s1, s2, h, h1, h2⟩
  · rintro (⟨s1, s2, h, h1, h2⟩ | ⟨s1, s2, h, h1, h2⟩)
    · exact ⟨s1, s2, h, .inl h1, h2⟩
    · exact ⟨s1, s2, h, .inr h1, h2⟩

/-- `a?r` -/
theorem fullmatch_opt_seq (a r : Rx) (s : List Char) :
    (seq (opt a) r).fullmatch s = ((seq a r).fullmatch s || r.fullmatch s) := by
  rw [fullmatch_alt_seq, fullmatch_eps_seq]

/-- `a*r = r | a a*r` -/
theorem fullmatch_star_seq (a r : Rx) (s : List Char) :
    (seq (star a) r).fullmatch s = (r.fullmatch s || (seq a (seq (star a) r)).fullmatch s) := by
  rw [← fullmatch_alt]
  apply fullmatch_congr
  simp only [matches_seq, matches_alt]
  constructor
  · rintro ⟨s1, s2, rfl, h1, h2⟩
    rcases (matches_star a s1).mp h1 with rfl | ⟨u, v, rfl, hu, hv⟩
    · exact .inl (by simpa using h2)
    · exact .inr ⟨u, v ++ s2, by simp, hu, v, s2, rfl, hv, h2⟩
  · rintro (h | ⟨u, _, rfl, hu, v, s2, rfl, hv, h2⟩)
    · exact ⟨[], s, by simp, .starNil, h⟩
    · exact ⟨u ++ v, s2, by simp, .starCons hu hv, h2⟩

/-- the one-character expressions and the test they perform -/
def charTest : Rx → Option (Char → Bool)
  | chr d => some fun c => c == d
  | cls neg rs => some (inCls neg rs)
  | digit => some isDigit
  | any => some fun c => c != '\n'
  | _ => none

theorem matches_charTest {a : Rx} {p : Char → Bool} (h : charTest a = some p) (u : List Char) :
    Matches a u ↔ ∃ c, u = [c] ∧ p c = true := by
  cases a <;> simp only [charTest, Option.some.injEq, reduceCtorEq] at h <;> subst h
  · simp [matches_chr]
  · exact matches_cls _ _ u
  · exact matches_digit u
  · simp [matches_any]

theorem fullmatch_char {a : Rx} {p : Char → Bool} (h : charTest a = some p) (s : List Char) :
    a.fullmatch s = (match s with | [c] => p c | _ => false) := by
  rw [Bool.eq_iff_iff, fullmatch_iff, matches_charTest h]
  split
  · simp
  · rename_i hne
    simp only [Bool.false_eq_true, iff_false]
    rintro ⟨c, rfl, _⟩
    exact hne c rfl

theorem fullmatch_char_seq_nil {a : Rx} {p : Char → Bool} (h : charTest a = some p) (r : Rx) :
    (seq a r).fullmatch [] = false := by
  cases a <;> simp [charTest] at h <;> simp [nullable]

/-- one character, then the rest -/
theorem fullmatch_char_seq_cons {a : Rx} {p : Char → Bool} (h : charTest a = some p) (r : Rx) (c : Char) (s : List Char) :
    (seq a r).fullmatch (c :: s) = (p c && r.fullmatch s) := by
  rw [Bool.eq_iff_iff, Bool.and_eq_true, fullmatch_iff, fullmatch_iff, matches_seq]
  constructor
  · rintro ⟨s1, s2, hs, h1, h2⟩
    obtain ⟨d, rfl, hd⟩ := (matches_charTest h s1).mp h1
    simp only [List.cons_append, List.nil_append, List.cons.injEq] at hs
    obtain ⟨rfl, rfl⟩ := hs
    exact ⟨hd, h2⟩
  · rintro ⟨h1, h2⟩
    exact ⟨[c], s, rfl, (matches_charTest h [c]).mpr ⟨c, rfl, h1⟩, h2⟩

/-- `a*` for a one-character `a` -/
theorem fullmatch_star_char {a : Rx} {p : Char → Bool} (h : charTest a = some p) (s : List Char) :
    (star a).fullmatch s = s.all p := by
  induction s with
  | nil => rfl
  | cons c s ih =>
    rw [Bool.eq_iff_iff, fullmatch_iff, matches_star_cons, List.all_cons, Bool.and_eq_true, ← ih, fullmatch_iff]
    constructor
    · rintro ⟨s1, t, rfl, h1, h2⟩
      obtain ⟨d, hd, hp⟩ := (matches_charTest h _).mp h1
      simp only [List.cons.injEq] at hd
      obtain ⟨rfl, rfl⟩ := hd
      exact ⟨hp, by simpa using h2⟩
    · rintro ⟨h1, h2⟩
      exact ⟨[], s, rfl, (matches_charTest h [c]).mpr ⟨c, rfl, h1⟩, h2⟩

/-- `a*r` when no word of `r` starts with a character of `a`: the star is greedy without loss -/
theorem fullmatch_star_char_seq {a : Rx} {p : Char → Bool} (h : charTest a = some p) (r : Rx)
    (hr : ∀ c s, p c = true → r.fullmatch (c :: s) = false) (s : List Char) :
    (seq (star a) r).fullmatch s = r.fullmatch (s.dropWhile p) := by
  induction s with
  | nil => rw [fullmatch_star_seq, fullmatch_char_seq_nil h]; simp
  | cons c s ih =>
    rw [fullmatch_star_seq, fullmatch_char_seq_cons h, ih]
    cases hp : p c
    · simp [List.dropWhile, hp]
    · simp [List.dropWhile, hp, hr c s hp]

/-! the same for the concrete one-character expressions, in the form `simp` can use -/

@[simp] theorem fullmatch_chr_seq_cons (d : Char) (r : Rx) (c : Char) (s : List Char) :
    (seq (chr d) r).fullmatch (c :: s) = (c == d && r.fullmatch s) :=
  fullmatch_char_seq_cons (a := chr d) (p := fun c => c == d) rfl r c s
@[simp] theorem fullmatch_chr_seq_nil (d : Char) (r : Rx) : (seq (chr d) r).fullmatch [] = false := fullmatch_char_seq_nil rfl r
@[simp] theorem fullmatch_digit_seq_cons (r : Rx) (c : Char) (s : List Char) :
    (seq digit r).fullmatch (c :: s) = (isDigit c && r.fullmatch s) := fullmatch_char_seq_cons rfl r c s
@[simp] theorem fullmatch_digit_seq_nil (r : Rx) : (seq digit r).fullmatch [] = false := fullmatch_char_seq_nil rfl r
@[simp] theorem fullmatch_any_seq_cons (r : Rx) (c : Char) (s : List Char) :
    (seq any r).fullmatch (c :: s) = (c != '\n' && r.fullmatch s) :=
  fullmatch_char_seq_cons (a := any) (p := fun c => c != '\n') rfl r c s
@[simp] theorem fullmatch_any_seq_nil (r : Rx) : (seq any r).fullmatch [] = false := fullmatch_char_seq_nil rfl r
theorem fullmatch_chr (d : Char) (s : List Char) : (chr d).fullmatch s = (match s with | [c] => c == d | _ => false) :=
  fullmatch_char (a := chr d) (p := fun c => c == d) rfl s
theorem fullmatch_digit (s : List Char) : digit.fullmatch s = (match s with | [c] => isDigit c | _ => false) :=
  fullmatch_char rfl s
theorem fullmatch_star_digit (s : List Char) : (star digit).fullmatch s = s.all isDigit := fullmatch_star_char rfl s
theorem fullmatch_star_any (s : List Char) : (star any).fullmatch s = s.all (fun c => c != '\n') :=
  fullmatch_star_char (a := any) (p := fun c => c != '\n') rfl s

/-! ### `Pattern.match` -/

/-- `re.compile(src).match(s) is not None`, where `src` is the source of `r`, followed by `$` when `dollar`:
    without `$` some prefix of `s` is a word of `r`; with `$` (no MULTILINE) the match must end at the end of `s` or just before
    a final line feed. -/
def pyMatch (r : Rx) (dollar : Bool) (s : List Char) : Bool :=
  if dollar then
    r.fullmatch s || (s.getLast? == some '\n' && r.fullmatch s.dropLast)
  else
    (List.range (s.length + 1)).any fun n => r.fullmatch (s.take n)

theorem pyMatch_dollar_iff (r : Rx) (s : List Char) :
    pyMatch r true s = true ↔ Matches r s ∨ ∃ p, s = p ++ ['\n'] ∧ Matches r p := by
  simp only [pyMatch, if_true, Bool.or_eq_true, Bool.and_eq_true, beq_iff_eq, fullmatch_iff]
  constructor
  · rintro (h | ⟨h1, h2⟩)
    · exact .inl h
    · obtain ⟨ys, rfl⟩ := List.getLast?_eq_some_iff.mp h1
      exact .inr ⟨ys, rfl, by simpa using h2⟩
  · rintro (h | ⟨p, rfl, h⟩)
    · exact .inl h
    · exact .inr ⟨by simp, by simpa using h⟩

theorem pyMatch_prefix_iff (r : Rx) (s : List Char) :
    pyMatch r false s = true ↔ ∃ p t, s = p ++ t ∧ Matches r p := by
  simp only [pyMatch, Bool.false_eq_true, if_false, List.any_eq_true, List.mem_range, fullmatch_iff]
  constructor
  · rintro ⟨n, _, h⟩
    exact ⟨s.take n, s.drop n, (List.take_append_drop n s).symm, h⟩
  · rintro ⟨p, t, rfl, h⟩
    exact ⟨p.length, by simp; omega, by simpa using h⟩

/-- on a subject that does not end in a line feed, `match` with a final `$` is `fullmatch` -/
theorem pyMatch_dollar_eq (r : Rx) (s : List Char) (h : s.getLast? ≠ some '\n') : pyMatch r true s = r.fullmatch s := by
  simp only [pyMatch, if_true]
  have : (s.getLast? == some '\n') = false := by simpa using h
  rw [this]; simp

end Rx

/-! ## Part 2: `str` and `re` primitives -/

/-- a Python `str`: its code points (lone surrogates, which a `str` may hold, have no counterpart; the translated code rejects
    every non-ASCII character before it looks further) -/
abbrev Str := List Char

def isAscii (c : Char) : Bool := c.toNat < 128

/-- `str.lower()` of one ASCII character -/
def lowerChar (c : Char) : Char :=
  match c with
  | 'A' => 'a' | 'B' => 'b' | 'C' => 'c' | 'D' => 'd' | 'E' => 'e' | 'F' => 'f' | 'G' => 'g' | 'H' => 'h' | 'I' => 'i'
  | 'J' => 'j' | 'K' => 'k' | 'L' => 'l' | 'M' => 'm' | 'N' => 'n' | 'O' => 'o' | 'P' => 'p' | 'Q' => 'q' | 'R' => 'r'
  | 'S' => 's' | 'T' => 't' | 'U' => 'u' | 'V' => 'v' | 'W' => 'w' | 'X' => 'x' | 'Y' => 'y' | 'Z' => 'z'
  | c => c

/-- `s.lower()`.  Defined on ASCII strings only: Unicode lower-casing (`'K'` U+212A ↦ `'k'`, `'İ'` ↦ two code points, …) is not
    modelled, a non-ASCII subject is an error of the translation, not a value. -/
def strLower (s : Str) : M Str :=
  if s.all isAscii then pure (s.map lowerChar) else throw (.other "non-ASCII")

/-- `x in s` / `x not in s` for a one-character `x` (the element of a `for c in s` loop, or `s[i]`) -/
def charIn (c : Char) (s : Str) : Bool := s.contains c

/-- `s[i]` for `i ≥ 0` -/
def strIndex (s : Str) (i : Nat) : M Char := index s i

/-- an element of a table that mixes plain strings and compiled patterns; `dollar` records a final `$` of the pattern source -/
inductive Pat where
  | str (s : Str)
  | re (r : Rx) (dollar : Bool)
  deriving Repr, DecidableEq, Inhabited

/-- `isinstance(p, str)` -/
def Pat.isStr : Pat → Bool
  | .str _ => true
  | .re _ _ => false

/-- `p == s` for a `str` `s`: a compiled pattern never equals a string -/
def Pat.eqStr : Pat → Str → Bool
  | .str w, s => w == s
  | .re _ _, _ => false

/-- `bool(p.match(s))`: `AttributeError` on a `str`; defined on ASCII subjects (see the header) -/
def Pat.match : Pat → Str → M Bool
  | .str _, _ => throw (.other "AttributeError")
  | .re r dollar, s => if s.all isAscii then pure (r.pyMatch dollar s) else throw (.other "non-ASCII")

/-- `bool(p.fullmatch(s))`: a final `$` adds nothing (the match must span the whole subject) -/
def Pat.fullmatch : Pat → Str → M Bool
  | .str _, _ => throw (.other "AttributeError")
  | .re r _, s =>
    if s.all isAscii then pure (r.fullmatch s) else throw (.other "non-ASCII")

/-- `s in t` for a collection `t` of strings and compiled patterns (list, tuple, set, frozenset: membership is equality with an
    element; a compiled pattern never equals a string) -/
def strInTable (s : Str) (t : List Pat) : Bool := t.any fun p => p.eqStr s

/-- `[x for x in l if c(x)]` with a condition that may raise: every element is tested, in order -/
def filterM {α : Type} : List α → (α → M Bool) → M (List α)
  | [], _ => pure []
  | a :: l, f => f a >>= fun b => filterM l f >>= fun r => pure (if b then a :: r else r)

/-- `any(c(x) for x in l)` over a generator: stops at the first true element -/
def anyM {α : Type} : List α → (α → M Bool) → M Bool
  | [], _ => pure false
  | a :: l, f => f a >>= fun b => if b then pure true else anyM l f

/-- `all(c(x) for x in l)` over a generator: stops at the first false element -/
def allM {α : Type} : List α → (α → M Bool) → M Bool
  | [], _ => pure true
  | a :: l, f => f a >>= fun b => if b then allM l f else pure false

end Py
