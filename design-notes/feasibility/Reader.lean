/-! Scratch: line-level reader/builder automaton of pydsdl and the "mirror" theorem (C03 core). -/

inductive Stmt where
  | attr (id : Nat)          -- field / padding / constant (opaque payload id)
  | directive                -- any directive that is not a marker (flushes like everything else)
  | marker                   -- `---`
  deriving Repr, DecidableEq

structure Line where
  stmt : Option Stmt
  comment : Option String
  textEmpty : Bool           -- `len(node.text) == 0` : no statement, no blanks, no comment
  deriving Repr

/-- builder + parser comment state -/
structure St where
  done : List (List (Nat × String))   -- finished schemas (request) — attributes with docs
  cur : List (Nat × String)           -- committed attributes of the current schema (in order)
  pending : Option Nat                -- queued attribute, waiting for its doc comment
  acc : String                        -- accumulated comment text
  accNonEmpty : Bool
  header : Bool                       -- `_comment_is_header`
  docs : List String                  -- header docs delivered so far
  deriving Repr

def St.init : St := ⟨[], [], none, "", false, true, []⟩

/-- `_flush_comment` : deliver the accumulated comment as header doc or attribute doc -/
def St.flushComment (s : St) : St :=
  if s.header then { s with docs := s.docs ++ [s.acc], header := false, acc := "", accNonEmpty := false }
  else
    match s.pending with
    | some a => { s with cur := s.cur ++ [(a, s.acc)], pending := none, acc := "", accNonEmpty := false }
    | none => { s with acc := "", accNonEmpty := false }

/-- `_queue_attribute` : flush the previous one with "" then hold the new one -/
def St.queue (s : St) (a : Nat) : St :=
  match s.pending with
  | some p => { s with cur := s.cur ++ [(p, "")], pending := some a }
  | none => { s with pending := some a }

def St.addComment (s : St) (c : String) : St :=
  { s with acc := (if s.accNonEmpty then s.acc ++ "\n" else "") ++ c, accNonEmpty := true }

def stepLine (s : St) (l : Line) : St :=
  let s1 := match l.stmt with
    | none => s
    | some (.attr a) => (s.flushComment).queue a
    | some .directive => s.flushComment
    | some .marker =>
        let t := s.flushComment
        -- on_service_response_marker: new schema; header comment allowed again
        { t with done := t.done ++ [t.cur], cur := [], header := true }
  let s2 := match l.comment with | some c => s1.addComment c | none => s1
  if l.textEmpty then s2.flushComment else s2

def run (ls : List Line) : St := ls.foldl stepLine St.init

/-- finalize as in the pinned code: the pending attribute is NOT flushed -/
def finalizeBuggy (s : St) : List (List Nat) := (s.done ++ [s.cur]).map (·.map (·.1))
/-- finalize with the one-line fix -/
def finalizeFixed (s : St) : List (List Nat) :=
  let cur := match s.pending with | some p => s.cur ++ [(p, "")] | none => s.cur
  (s.done ++ [cur]).map (·.map (·.1))

/-- specification: the attribute ids of each schema, in source order -/
def specAttrs : List Line → List (List Nat)
  | ls =>
    let step := fun (acc : List (List Nat) × List Nat) (l : Line) =>
      match l.stmt with
      | some (.attr a) => (acc.1, acc.2 ++ [a])
      | some .marker => (acc.1 ++ [acc.2], [])
      | _ => acc
    let r := ls.foldl step ([], [])
    r.1 ++ [r.2]

-- the witness: "@sealed\nuint8 x" = two lines, no empty last line
def witness : List Line := [⟨some .directive, none, false⟩, ⟨some (.attr 7), none, false⟩]
example : finalizeBuggy (run witness) = [[]] := by decide
example : specAttrs witness = [[7]] := by decide
theorem buggy_violates : ∃ ls, finalizeBuggy (run ls) ≠ specAttrs ls := ⟨witness, by decide⟩

/-- invariant: committed ++ pending = attributes seen so far in this schema; done = finished schemas;
    a pending attribute implies the header flag is down -/
def RInv (s : St) (acc : List (List Nat) × List Nat) : Prop :=
  (s.pending.isSome → s.header = false) ∧
  s.done.map (·.map (·.1)) = acc.1 ∧
  (s.cur.map (·.1)) ++ (match s.pending with | some p => [p] | none => []) = acc.2

theorem flushComment_rinv {s acc} (h : RInv s acc) : RInv s.flushComment acc := by
  obtain ⟨h0, h1, h2⟩ := h
  unfold St.flushComment
  by_cases hh : s.header
  · cases hp : s.pending <;> simp_all [RInv]
  · cases hp : s.pending <;> simp_all [RInv]

theorem flushComment_header (s : St) : s.flushComment.header = false := by
  unfold St.flushComment
  by_cases hh : s.header <;> cases hp : s.pending <;> simp_all

theorem flushComment_pending {s acc} (h : RInv s acc) : s.flushComment.pending = none := by
  obtain ⟨h0, _, _⟩ := h
  unfold St.flushComment
  by_cases hh : s.header <;> cases hp : s.pending <;> simp_all

theorem addComment_rinv {s acc c} (h : RInv s acc) : RInv (s.addComment c) acc := h

def specStep (acc : List (List Nat) × List Nat) (l : Line) : List (List Nat) × List Nat :=
  match l.stmt with
  | some (.attr a) => (acc.1, acc.2 ++ [a])
  | some .marker => (acc.1 ++ [acc.2], [])
  | _ => acc

theorem specAttrs_eq (ls : List Line) : specAttrs ls = (let r := ls.foldl specStep ([], []); r.1 ++ [r.2]) := rfl

theorem stepLine_rinv {s acc} (l : Line) (h : RInv s acc) : RInv (stepLine s l) (specStep acc l) := by
  have key : ∀ s1 acc1, RInv s1 acc1 →
      RInv (let s2 := match l.comment with | some c => s1.addComment c | none => s1
           if l.textEmpty then s2.flushComment else s2) acc1 := by
    intro s1 acc1 h1
    cases l.comment <;> cases l.textEmpty <;> simp <;>
      first | exact h1 | exact flushComment_rinv h1 | exact addComment_rinv h1
            | exact flushComment_rinv (addComment_rinv h1)
  unfold stepLine specStep
  cases hs : l.stmt with
  | none => exact key _ _ h
  | some st =>
    cases st with
    | attr a =>
      apply key
      have hh := flushComment_header s
      have hp := flushComment_pending h
      obtain ⟨h0, h1, h2⟩ := flushComment_rinv h
      simp_all [RInv, St.queue]
    | directive => exact key _ _ (flushComment_rinv h)
    | marker =>
      apply key
      have hp := flushComment_pending h
      obtain ⟨h0, h1, h2⟩ := flushComment_rinv h
      simp_all [RInv]

theorem run_rinv (ls : List Line) : ∀ s acc, RInv s acc → RInv (ls.foldl stepLine s) (ls.foldl specStep acc) := by
  induction ls with
  | nil => intro s acc h; exact h
  | cons l ls ih => intro s acc h; exact ih _ _ (stepLine_rinv l h)

/-- C03.mirror (attribute identity and order, every document, every end-of-input shape), for the fixed finalize -/
theorem mirror_fixed (ls : List Line) : finalizeFixed (run ls) = specAttrs ls := by
  have h := run_rinv ls St.init ([], []) (by simp [RInv, St.init])
  obtain ⟨_, h1, h2⟩ := h
  rw [specAttrs_eq]
  simp only [finalizeFixed, run]
  cases hp : (ls.foldl stepLine St.init).pending <;> simp_all

/-- C03.final_newline for the fixed finalize: an extra empty last line changes nothing -/
theorem final_newline_fixed (ls : List Line) :
    finalizeFixed (run (ls ++ [⟨none, none, true⟩])) = finalizeFixed (run ls) := by
  rw [mirror_fixed, mirror_fixed, specAttrs_eq, specAttrs_eq]
  simp [List.foldl_append, specStep]
#print axioms mirror_fixed
#print axioms buggy_violates
