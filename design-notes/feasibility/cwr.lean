import Mathlib.Algebra.Group.Pointwise.Finset.Basic
import Mathlib.Tactic.Ring
open scoped Pointwise

def cwr : List ℕ → ℕ → List (List ℕ)
  | _, 0 => [[]]
  | [], _+1 => []
  | x :: xs, k+1 => (cwr (x :: xs) k).map (x :: ·) ++ cwr xs (k+1)

/-- k-fold sumset = sums of length-k lists over S -/
theorem mem_nsmul_iff (S : Finset ℕ) (k y : ℕ) :
    y ∈ k • S ↔ ∃ m : List ℕ, m.length = k ∧ (∀ x ∈ m, x ∈ S) ∧ m.sum = y := by
  induction k generalizing y with
  | zero => simp [eq_comm]
  | succ k ih =>
    rw [succ_nsmul, Finset.mem_add]
    constructor
    · rintro ⟨a, ha, b, hb, rfl⟩
      obtain ⟨m, hl, hm, rfl⟩ := (ih a).mp ha
      exact ⟨b :: m, by simp [hl], by simpa [hb] using hm, by simp [add_comm]⟩
    · rintro ⟨m, hl, hm, rfl⟩
      match m, hl with
      | b :: m, hl =>
        refine ⟨m.sum, (ih _).mpr ⟨m, by simpa using hl, fun x hx => hm x (by simp [hx]), rfl⟩, b,
          hm b (by simp), by simp [add_comm]⟩

theorem cwr_sound (l : List ℕ) (k : ℕ) : ∀ c ∈ cwr l k, c.length = k ∧ ∀ x ∈ c, x ∈ l := by
  induction l generalizing k with
  | nil => cases k <;> simp [cwr]
  | cons x xs ihx =>
    induction k with
    | zero => simp [cwr]
    | succ k ihk =>
      intro c hc
      simp only [cwr, List.mem_append, List.mem_map] at hc
      rcases hc with ⟨a, ha, rfl⟩ | hc
      · obtain ⟨h1, h2⟩ := ihk a ha
        exact ⟨by simp [h1], by intro y hy; simp at hy; rcases hy with rfl | hy <;> simp_all⟩
      · obtain ⟨h1, h2⟩ := ihx (k+1) c hc
        exact ⟨h1, fun y hy => List.mem_cons_of_mem _ (h2 y hy)⟩

theorem cwr_replicate (x : ℕ) (xs : List ℕ) (j n : ℕ) (c : List ℕ) (hc : c ∈ cwr xs n) :
    List.replicate j x ++ c ∈ cwr (x :: xs) (j + n) := by
  induction j with
  | zero =>
    simp only [List.replicate, List.nil_append, Nat.zero_add]
    cases n with
    | zero => simp [cwr] at hc ⊢; exact hc
    | succ n => simp [cwr, hc]
  | succ j ih =>
    have : j + 1 + n = (j + n) + 1 := by omega
    rw [this, cwr]
    simp only [List.mem_append, List.mem_map]
    left; exact ⟨_, ih, by simp [List.replicate_succ]⟩

/-- split a list over `x :: xs` into the copies of `x` and the rest -/
theorem split_head (x : ℕ) (xs : List ℕ) : ∀ (m : List ℕ), (∀ y ∈ m, y ∈ x :: xs) →
    ∃ (j : ℕ) (r : List ℕ), (∀ y ∈ r, y ∈ xs) ∧ j + r.length = m.length ∧ j * x + r.sum = m.sum
  | [], _ => ⟨0, [], by simp, by simp, by simp⟩
  | b :: t, hm => by
      obtain ⟨j, r, h1, h2, h3⟩ := split_head x xs t (fun y hy => hm y (List.mem_cons_of_mem _ hy))
      have hb := hm b (by simp)
      rcases List.mem_cons.mp hb with rfl | hb
      · exact ⟨j+1, r, h1, by simp; omega, by simp [← h3]; ring⟩
      · refine ⟨j, b :: r, ?_, by simp; omega, by simp [← h3]; ring⟩
        intro y hy
        rcases List.mem_cons.mp hy with rfl | hy
        · exact hb
        · exact h1 y hy

/-- every length-k list over l has a rearrangement (same sum) in cwr l k -/
theorem cwr_complete (l : List ℕ) : ∀ (k : ℕ) (m : List ℕ), m.length = k → (∀ x ∈ m, x ∈ l) →
    ∃ c ∈ cwr l k, c.sum = m.sum := by
  induction l with
  | nil =>
    intro k m hl hm
    cases m with
    | nil => subst hl; exact ⟨[], by simp [cwr], rfl⟩
    | cons a m => exact absurd (hm a (by simp)) (by simp)
  | cons x xs ih =>
    intro k m hl hm
    obtain ⟨j, r, h1, h2, h3⟩ := split_head x xs m hm
    obtain ⟨c, hc, hs⟩ := ih r.length r rfl h1
    refine ⟨List.replicate j x ++ c, ?_, by simp [hs, ← h3]⟩
    have := cwr_replicate x xs j r.length c hc
    rwa [h2, hl] at this

theorem cwr_sums (l : List ℕ) (k y : ℕ) : (∃ c ∈ cwr l k, c.sum = y) ↔ y ∈ k • l.toFinset := by
  rw [mem_nsmul_iff]
  constructor
  · rintro ⟨c, hc, rfl⟩
    obtain ⟨h1, h2⟩ := cwr_sound l k c hc
    exact ⟨c, h1, fun x hx => by simpa using h2 x hx, rfl⟩
  · rintro ⟨m, hl, hm, rfl⟩
    exact cwr_complete l k m hl (fun x hx => by simpa using hm x hx)
#print axioms cwr_sums
