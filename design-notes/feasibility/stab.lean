import Mathlib.Algebra.Group.Pointwise.Finset.Basic
import Mathlib.Data.Fintype.Card
import Mathlib.Data.ZMod.Basic

open scoped Pointwise

variable {G : Type*} [AddCommMonoid G] [DecidableEq G]

theorem nsmul_mono_succ (T : Finset G) (h0 : (0:G) ∈ T) (j : ℕ) : j • T ⊆ (j+1) • T := by
  rw [succ_nsmul]
  exact Finset.subset_add_left _ h0

theorem stable_succ (T : Finset G) (j : ℕ) (h : j • T = (j+1) • T) : (j+1) • T = (j+2) • T := by
  have h2 : (j+2) • T = (j+1) • T + T := succ_nsmul T (j+1)
  rw [h2, ← h, ← succ_nsmul, ← h]

theorem stable_forever (T : Finset G) (j : ℕ) (h : j • T = (j+1) • T) : ∀ m, j ≤ m → m • T = j • T := by
  intro m hm
  induction m, hm using Nat.le_induction with
  | base => rfl
  | succ m hm ih =>
    have : ∀ i, j ≤ i → i • T = (i+1) • T := by
      intro i hi
      induction i, hi using Nat.le_induction with
      | base => exact h
      | succ i _ ih2 => exact stable_succ T i ih2
    rw [← this m hm]; exact ih

theorem stable_or_card [Fintype G] (T : Finset G) (h0 : (0:G) ∈ T) (j : ℕ) :
    j • T = (j+1) • T ∨ j + 1 ≤ (j • T).card := by
  induction j with
  | zero => right; simp
  | succ j ih =>
    rcases ih with h | h
    · left; exact stable_succ T j h
    · by_cases hs : (j+1) • T = (j+2) • T
      · left; exact hs
      · right
        by_cases hj : j • T = (j+1) • T
        · exact absurd (stable_succ T j hj) hs
        · have hss : j • T ⊂ (j+1) • T := Finset.ssubset_iff_subset_ne.mpr ⟨nsmul_mono_succ T h0 j, hj⟩
          have := Finset.card_lt_card hss
          omega

theorem stabilise [Fintype G] (T : Finset G) (h0 : (0:G) ∈ T) (m : ℕ) (hm : Fintype.card G - 1 ≤ m) :
    m • T = (Fintype.card G - 1) • T := by
  have hpos : 0 < Fintype.card G := Fintype.card_pos_iff.mpr ⟨0⟩
  apply stable_forever T _ _ m hm
  rcases stable_or_card T h0 (Fintype.card G - 1) with h | h
  · exact h
  · have hcard : ((Fintype.card G - 1) • T).card = Fintype.card G := by
      have := Finset.card_le_univ ((Fintype.card G - 1) • T)
      omega
    have huniv : (Fintype.card G - 1) • T = Finset.univ := (Finset.card_eq_iff_eq_univ _).mp hcard
    apply le_antisymm (nsmul_mono_succ T h0 _)
    rw [huniv]; exact Finset.subset_univ _

#print axioms stabilise
