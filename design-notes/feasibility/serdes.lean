inductive Ty where
  | uint (n : Nat)
  | struct (fs : List Ty)
  | varr (e : Ty) (cap : Nat)
  deriving Repr

inductive Val where
  | num (v : Nat)
  | recd (vs : List Val)
  | arr (vs : List Val)
  deriving Repr

def natBits : Nat → Nat → List Bool
  | 0, _ => []
  | n+1, v => (v % 2 == 1) :: natBits n (v / 2)

def bitsNat : List Bool → Nat
  | [] => 0
  | b :: bs => (if b then 1 else 0) + 2 * bitsNat bs

theorem natBits_length (n v) : (natBits n v).length = n := by
  induction n generalizing v <;> simp [natBits, *]

theorem bitsNat_natBits (n v) (h : v < 2^n) : bitsNat (natBits n v) = v := by
  induction n generalizing v with
  | zero => simp [natBits, bitsNat]; omega
  | succ n ih =>
    simp only [natBits, bitsNat]
    rw [ih (v/2) (by omega)]
    split <;> simp_all <;> omega

mutual
def enc : Ty → Val → Option (List Bool)
  | .uint n, .num v => if v < 2^n then some (natBits n v) else none
  | .struct fs, .recd vs => encs fs vs
  | .varr e cap, .arr vs =>
      if vs.length ≤ cap ∧ cap < 2^8 then (encRep e vs).map (natBits 8 vs.length ++ ·) else none
  | _, _ => none
def encs : List Ty → List Val → Option (List Bool)
  | [], [] => some []
  | t :: ts, v :: vs => do let a ← enc t v; let b ← encs ts vs; pure (a ++ b)
  | _, _ => none
def encRep : Ty → List Val → Option (List Bool)
  | _, [] => some []
  | e, v :: vs => do let a ← enc e v; let b ← encRep e vs; pure (a ++ b)
end

mutual
def dec : Ty → List Bool → Option (Val × List Bool)
  | .uint n, bs => if n ≤ bs.length then some (.num (bitsNat (bs.take n)), bs.drop n) else none
  | .struct fs, bs => (decs fs bs).map fun (vs, r) => (.recd vs, r)
  | .varr e cap, bs =>
      if 8 ≤ bs.length then
        let len := bitsNat (bs.take 8)
        if len ≤ cap then (decRep e len (bs.drop 8)).map fun (vs, r) => (.arr vs, r) else none
      else none
def decs : List Ty → List Bool → Option (List Val × List Bool)
  | [], bs => some ([], bs)
  | t :: ts, bs => do let (v, r) ← dec t bs; let (vs, r') ← decs ts r; pure (v :: vs, r')
def decRep : Ty → Nat → List Bool → Option (List Val × List Bool)
  | _, 0, bs => some ([], bs)
  | e, n+1, bs => do let (v, r) ← dec e bs; let (vs, r') ← decRep e n r; pure (v :: vs, r')
end

#eval enc (.struct [.uint 3, .varr (.uint 2) 5]) (.recd [.num 5, .arr [.num 1, .num 2]])
#eval (enc (.struct [.uint 3, .varr (.uint 2) 5]) (.recd [.num 5, .arr [.num 1, .num 2]])).bind (dec (.struct [.uint 3, .varr (.uint 2) 5]))

mutual
theorem rt : ∀ (t : Ty) (v : Val) (bs junk : List Bool), enc t v = some bs → dec t (bs ++ junk) = some (v, junk)
  | .uint n, .num v, bs, junk, h => by
      simp only [enc] at h
      split at h <;> simp at h
      subst h
      simp [dec, natBits_length, bitsNat_natBits, *]
  | .struct fs, .recd vs, bs, junk, h => by
      simp only [enc] at h
      simp [dec, rts fs vs bs junk h]
  | .varr e cap, .arr vs, bs, junk, h => by
      simp only [enc] at h
      split at h <;> simp at h
      obtain ⟨b, hb, rfl⟩ := h
      rename_i hc
      have := rtRep e vs b junk hb
      simp [dec, natBits_length, bitsNat_natBits, this, hc.1, show vs.length < 2^8 by omega]
  | .uint _, .recd _, _, _, h | .uint _, .arr _, _, _, h
  | .struct _, .num _, _, _, h | .struct _, .arr _, _, _, h
  | .varr _ _, .num _, _, _, h | .varr _ _, .recd _, _, _, h => by simp [enc] at h
theorem rts : ∀ (ts : List Ty) (vs : List Val) (bs junk : List Bool), encs ts vs = some bs → decs ts (bs ++ junk) = some (vs, junk)
  | [], [], bs, junk, h => by simp [encs] at h; simp [decs, h]
  | t :: ts, v :: vs, bs, junk, h => by
      simp only [encs, bind, Option.bind] at h
      split at h <;> simp at h
      rename_i a ha
      split at h <;> simp at h
      rename_i b hb
      subst h
      simp [decs, List.append_assoc, rt t v a (b ++ junk) ha, rts ts vs b junk hb]
  | [], _ :: _, _, _, h | _ :: _, [], _, _, h => by simp [encs] at h
theorem rtRep : ∀ (e : Ty) (vs : List Val) (bs junk : List Bool), encRep e vs = some bs → decRep e vs.length (bs ++ junk) = some (vs, junk)
  | e, [], bs, junk, h => by simp [encRep] at h; simp [decRep, h]
  | e, v :: vs, bs, junk, h => by
      simp only [encRep, bind, Option.bind] at h
      split at h <;> simp at h
      rename_i a ha
      split at h <;> simp at h
      rename_i b hb
      subst h
      simp [decRep, List.append_assoc, rt e v a (b ++ junk) ha, rtRep e vs b junk hb]
end
#print axioms rt
