namespace Py
abbrev PySet := List Int
def PySet.add (s : PySet) (x : Int) : PySet := if x ∈ s then s else s ++ [x]
def range (n : Int) : List Int := (List.range n.toNat).map Int.ofNat
def sum (l : List Int) : Int := l.foldl (· + ·) 0
def cwr : List Int → Nat → List (List Int)
  | _, 0 => [[]]
  | [], _+1 => []
  | x :: xs, k+1 => (cwr (x :: xs) k).map (x :: ·) ++ cwr xs (k+1)
end Py
open Py

def RangeRepetition.modulo (k_max : Int) (child_modulo : Int → PySet) (divisor : Int) : PySet := Id.run do
  let single := child_modulo divisor
  let equivalent_k_max := min k_max (divisor + Int.fmod k_max divisor)
  let mut out : PySet := []
  for k in Py.range (equivalent_k_max + 1) do
    for el in Py.cwr single k.toNat do
      out := out.add (Int.fmod (Py.sum el) divisor)
  return out

theorem mem_add (s : PySet) (x y : Int) : y ∈ s.add x ↔ y ∈ s ∨ y = x := by
  unfold PySet.add; split <;> simp_all <;> grind

/-- generic: folding `add (f a)` over a list -/
theorem mem_foldl_add {α} (l : List α) (f : α → Int) (s : PySet) (y : Int) :
    y ∈ l.foldl (fun out a => out.add (f a)) s ↔ y ∈ s ∨ ∃ a ∈ l, y = f a := by
  induction l generalizing s with
  | nil => simp
  | cons a l ih => simp [ih, mem_add]; grind

theorem mem_foldl_foldl_add {α β} (l : List α) (g : α → List β) (f : α → β → Int) (s : PySet) (y : Int) :
    y ∈ l.foldl (fun out a => (g a).foldl (fun out b => out.add (f a b)) out) s ↔
      y ∈ s ∨ ∃ a ∈ l, ∃ b ∈ g a, y = f a b := by
  induction l generalizing s with
  | nil => simp
  | cons a l ih => simp [ih, mem_foldl_add]; grind

theorem RangeRepetition.modulo_mem (k_max : Int) (cm : Int → PySet) (d : Int) (y : Int) :
    y ∈ RangeRepetition.modulo k_max cm d ↔
      ∃ k ∈ Py.range (min k_max (d + Int.fmod k_max d) + 1), ∃ el ∈ Py.cwr (cm d) k.toNat, y = Int.fmod (Py.sum el) d := by
  unfold RangeRepetition.modulo
  simp only [List.forIn_pure_yield_eq_foldl, bind_pure_comp, map_pure, Id.run_pure, bind_pure, Id.run_bind, pure_bind]
  trace_state
  simp [mem_foldl_foldl_add]
#print axioms RangeRepetition.modulo_mem
