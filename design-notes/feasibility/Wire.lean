/-! Scratch: fuller wire model — alignment, union, delimited with bounded sub-reader, zero extension. -/

inductive Mode | sealed | delimited (extent : Nat)
  deriving Repr, DecidableEq

inductive Ty where
  | uint (n : Nat)                       -- unsigned, n bits (value-level cast handled elsewhere)
  | void (n : Nat)
  | farr (e : Ty) (cap : Nat)
  | varr (e : Ty) (cap : Nat) (lenBits : Nat)
  | struct (fs : List Ty) (m : Mode)
  | union (fs : List Ty) (tagBits : Nat) (m : Mode)
  deriving Repr

inductive Val where
  | num (v : Nat)
  | unit
  | arr (vs : List Val)
  | recd (vs : List Val)
  | var (tag : Nat) (v : Val)
  deriving Repr

def Ty.align : Ty → Nat
  | .uint _ | .void _ => 1
  | .farr e _ | .varr e _ _ => e.align
  | .struct _ _ | .union _ _ _ => 8

def natBits : Nat → Nat → List Bool
  | 0, _ => []
  | n+1, v => (v % 2 == 1) :: natBits n (v / 2)

def bitsNat : List Bool → Nat
  | [] => 0
  | b :: bs => (if b then 1 else 0) + 2 * bitsNat bs

def padLen (off a : Nat) : Nat := (a - off % a) % a
def zeros (n : Nat) : List Bool := List.replicate n false

/-- zero-extended take -/
def takeZ (n : Nat) (s : List Bool) : List Bool := s.take n ++ zeros (n - s.length)

inductive E | arrayLength | unionTag | delimiterHeader | bad
  deriving Repr, DecidableEq

/-- Reader state: absolute offset `off` (for alignment) and the remaining finite stream `s`
    (everything beyond `s` reads as zero). -/
structure R where
  off : Nat
  s : List Bool
  deriving Repr

def R.read (r : R) (n : Nat) : List Bool × R := (takeZ n r.s, ⟨r.off + n, r.s.drop n⟩)
def R.alignTo (r : R) (a : Nat) : R := let p := padLen r.off a; ⟨r.off + p, r.s.drop p⟩

mutual
def dec : Ty → R → Except E (Val × R)
  | .uint n, r => let (b, r') := r.read n; .ok (.num (bitsNat b), r')
  | .void n, r => let (_, r') := r.read n; .ok (.unit, r')
  | .farr e cap, r => do let (vs, r') ← decRep e cap r; pure (.arr vs, r')
  | .varr e cap lb, r =>
      let (b, r1) := r.read lb
      let len := bitsNat b
      if len > cap then .error .arrayLength else do
        let (vs, r') ← decRep e len r1; pure (.arr vs, r')
  | .struct fs .sealed, r => do
      let (vs, r') ← decFields fs r; pure (.recd vs, r'.alignTo 8)
  | .union fs tb .sealed, r =>
      let (b, r1) := r.read tb
      let tag := bitsNat b
      do let (v, r') ← decVariant fs tag r1; pure (.var tag v, r'.alignTo 8)
  | .struct fs (.delimited _), r =>
      let (b, r1) := r.read 32
      let bytes := bitsNat b
      if bytes * 8 > r1.s.length then .error .delimiterHeader else do
        let sub : R := ⟨r1.off, r1.s.take (bytes * 8)⟩
        let (vs, _) ← decFields fs sub
        pure (.recd vs, ⟨r1.off + bytes * 8, r1.s.drop (bytes * 8)⟩)
  | .union fs tb (.delimited _), r =>
      let (b, r1) := r.read 32
      let bytes := bitsNat b
      if bytes * 8 > r1.s.length then .error .delimiterHeader else
        let sub : R := ⟨r1.off, r1.s.take (bytes * 8)⟩
        let (b2, r2) := sub.read tb
        let tag := bitsNat b2
        do let (v, _) ← decVariant fs tag r2
           pure (.var tag v, ⟨r1.off + bytes * 8, r1.s.drop (bytes * 8)⟩)
def decFields : List Ty → R → Except E (List Val × R)
  | [], r => .ok ([], r)
  | t :: ts, r => do
      let (v, r1) ← dec t (r.alignTo t.align)
      let (vs, r2) ← decFields ts r1
      pure (v :: vs, r2)
def decRep : Ty → Nat → R → Except E (List Val × R)
  | _, 0, r => .ok ([], r)
  | e, n+1, r => do
      let (v, r1) ← dec e r
      let (vs, r2) ← decRep e n r1
      pure (v :: vs, r2)
def decVariant : List Ty → Nat → R → Except E (Val × R)
  | [], _, _ => .error .unionTag
  | t :: _, 0, r => dec t r
  | _ :: ts, n+1, r => decVariant ts n r
end

#eval dec (.struct [.uint 3, .varr (.uint 8) 5 8, .struct [.uint 16] (.delimited 64)] .sealed)
          ⟨0, natBits 3 5 ++ zeros 5 ++ natBits 8 2 ++ natBits 8 7 ++ natBits 8 9 ++ natBits 32 1 ++ natBits 8 255⟩

/-- Zero extension: appending zeros to the finite stream never changes a successful result
    (the remaining stream just gets the zeros appended). -/
def R.ext (r : R) (k : Nat) : R := ⟨r.off, r.s ++ zeros k⟩

theorem takeZ_ext (n k : Nat) (s : List Bool) : takeZ n (s ++ zeros k) = takeZ n s := by
  unfold takeZ zeros
  apply List.ext_getElem
  · simp; omega
  · intro i h1 h2
    simp [List.getElem_append, List.getElem_take] at *
    split <;> split <;> simp_all <;> try omega
    all_goals (rename_i h3 h4; simp [List.getElem_append]; split <;> simp_all)


theorem read_ext (r : R) (n k : Nat) : (r.ext k).read n = ((r.read n).1, ((r.read n).2).ext k) ∨
    ((r.ext k).read n).1 = (r.read n).1 ∧ ((r.ext k).read n).2.off = (r.read n).2.off ∧
      ∃ k', ((r.ext k).read n).2.s = (r.read n).2.s ++ zeros k' := by
  right
  refine ⟨by simp [R.read, R.ext, takeZ_ext], by simp [R.read, R.ext], ?_⟩
  simp only [R.read, R.ext, List.drop_append]
  exact ⟨k - (n - r.s.length), by simp [zeros]⟩

/-- extension relation: same offset, stream extended by some zeros -/
def Ext (r r' : R) : Prop := r'.off = r.off ∧ ∃ k, r'.s = r.s ++ zeros k

theorem Ext.read {r r' : R} (h : Ext r r') (n : Nat) :
    (r'.read n).1 = (r.read n).1 ∧ Ext (r.read n).2 (r'.read n).2 := by
  obtain ⟨ho, k, hs⟩ := h
  refine ⟨by simp [R.read, hs, takeZ_ext], by simp [R.read, ho], ?_⟩
  simp only [R.read, hs, List.drop_append]
  exact ⟨k - (n - r.s.length), by simp [zeros]⟩

theorem Ext.alignTo {r r' : R} (h : Ext r r') (a : Nat) : Ext (r.alignTo a) (r'.alignTo a) := by
  obtain ⟨ho, k, hs⟩ := h
  refine ⟨by simp [R.alignTo, ho], ?_⟩
  simp only [R.alignTo, hs, ho, List.drop_append]
  exact ⟨k - (padLen r.off a - r.s.length), by simp [zeros]⟩


theorem bind_ok {ε α β} (x : Except ε α) (f : α → Except ε β) (b : β) :
    (x >>= f) = .ok b ↔ ∃ a, x = .ok a ∧ f a = .ok b := by
  cases x <;> simp [bind, Except.bind]

mutual
theorem dec_ext : ∀ (t : Ty) (r r' : R) (v : Val) (q : R), Ext r r' → dec t r = .ok (v, q) →
    ∃ q', dec t r' = .ok (v, q') ∧ Ext q q'
  | .uint n, r, r', v, q, h, hd => by
      simp only [dec] at hd ⊢
      have := h.read n
      cases hd
      exact ⟨_, by simp [this.1], this.2⟩
  | .void n, r, r', v, q, h, hd => by
      simp only [dec] at hd ⊢
      have := h.read n
      cases hd
      exact ⟨_, rfl, this.2⟩
  | .farr e cap, r, r', v, q, h, hd => by
      simp only [dec, bind_ok] at hd ⊢
      obtain ⟨⟨vs, r1⟩, hx, hd⟩ := hd
      obtain ⟨q', h1, h2⟩ := decRep_ext e cap r r' vs r1 h hx
      cases hd
      exact ⟨q', ⟨(vs, q'), h1, rfl⟩, h2⟩
  | .varr e cap lb, r, r', v, q, h, hd => by
      simp only [dec] at hd ⊢
      have hr := h.read lb
      rw [hr.1]
      split at hd
      · cases hd
      · rename_i hc
        simp only [hc, if_false, bind_ok] at hd ⊢
        obtain ⟨⟨vs, r1⟩, hx, hd⟩ := hd
        obtain ⟨q', h1, h2⟩ := decRep_ext e _ _ _ vs r1 hr.2 hx
        cases hd
        exact ⟨q', ⟨(vs, q'), h1, rfl⟩, h2⟩
  | .struct fs .sealed, r, r', v, q, h, hd => by
      simp only [dec, bind_ok] at hd ⊢
      obtain ⟨⟨vs, r1⟩, hx, hd⟩ := hd
      obtain ⟨q', h1, h2⟩ := decFields_ext fs r r' vs r1 h hx
      cases hd
      exact ⟨_, ⟨(vs, q'), h1, rfl⟩, h2.alignTo 8⟩
  | .union fs tb .sealed, r, r', v, q, h, hd => by
      simp only [dec, bind_ok] at hd ⊢
      have hr := h.read tb
      rw [hr.1]
      obtain ⟨⟨v1, r1⟩, hx, hd⟩ := hd
      obtain ⟨q', h1, h2⟩ := decVariant_ext fs _ _ _ v1 r1 hr.2 hx
      cases hd
      exact ⟨_, ⟨(v1, q'), h1, rfl⟩, h2.alignTo 8⟩
  | .struct fs (.delimited _), r, r', v, q, h, hd => by
      simp only [dec] at hd ⊢
      have hr := h.read 32
      rw [hr.1]
      obtain ⟨ho, k, hs⟩ := hr.2
      split at hd
      · cases hd
      · rename_i hc
        have hc' : ¬ bitsNat (r.read 32).1 * 8 > (r'.read 32).2.s.length := by
          rw [hs]; simp at hc ⊢; omega
        simp only [hc', if_false, bind_ok] at hd ⊢
        have htake : (r'.read 32).2.s.take (bitsNat (r.read 32).1 * 8) = (r.read 32).2.s.take (bitsNat (r.read 32).1 * 8) := by
          rw [hs, List.take_append_of_le_length (by omega)]
        rw [htake, ho]
        obtain ⟨⟨vs, r1⟩, hx, hd⟩ := hd
        cases hd
        refine ⟨_, ⟨(vs, r1), hx, rfl⟩, by simp, ?_⟩
        exact ⟨k - (bitsNat (r.read 32).1 * 8 - (r.read 32).2.s.length), by simp [hs, List.drop_append, zeros]⟩
  | .union fs tb (.delimited _), r, r', v, q, h, hd => by
      simp only [dec] at hd ⊢
      have hr := h.read 32
      rw [hr.1]
      obtain ⟨ho, k, hs⟩ := hr.2
      split at hd
      · cases hd
      · rename_i hc
        have hc' : ¬ bitsNat (r.read 32).1 * 8 > (r'.read 32).2.s.length := by
          rw [hs]; simp at hc ⊢; omega
        simp only [hc', if_false, bind_ok] at hd ⊢
        have htake : (r'.read 32).2.s.take (bitsNat (r.read 32).1 * 8) = (r.read 32).2.s.take (bitsNat (r.read 32).1 * 8) := by
          rw [hs, List.take_append_of_le_length (by omega)]
        rw [htake, ho]
        obtain ⟨⟨v1, r1⟩, hx, hd⟩ := hd
        cases hd
        refine ⟨_, ⟨(v1, r1), hx, rfl⟩, by simp, ?_⟩
        exact ⟨k - (bitsNat (r.read 32).1 * 8 - (r.read 32).2.s.length), by simp [hs, List.drop_append, zeros]⟩
theorem decFields_ext : ∀ (ts : List Ty) (r r' : R) (vs : List Val) (q : R), Ext r r' → decFields ts r = .ok (vs, q) →
    ∃ q', decFields ts r' = .ok (vs, q') ∧ Ext q q'
  | [], r, r', vs, q, h, hd => by
      simp only [decFields] at hd ⊢; cases hd; exact ⟨r', rfl, h⟩
  | t :: ts, r, r', vs, q, h, hd => by
      simp only [decFields, bind_ok] at hd ⊢
      obtain ⟨⟨v1, r1⟩, hx, ⟨vs2, r2⟩, hy, hd⟩ := hd
      obtain ⟨q1, h1, h2⟩ := dec_ext t _ _ v1 r1 (h.alignTo t.align) hx
      obtain ⟨q2, h3, h4⟩ := decFields_ext ts _ _ vs2 r2 h2 hy
      cases hd
      exact ⟨q2, ⟨(v1, q1), h1, (vs2, q2), h3, rfl⟩, h4⟩
theorem decRep_ext : ∀ (e : Ty) (n : Nat) (r r' : R) (vs : List Val) (q : R), Ext r r' → decRep e n r = .ok (vs, q) →
    ∃ q', decRep e n r' = .ok (vs, q') ∧ Ext q q'
  | e, 0, r, r', vs, q, h, hd => by
      simp only [decRep] at hd ⊢; cases hd; exact ⟨r', rfl, h⟩
  | e, n+1, r, r', vs, q, h, hd => by
      simp only [decRep, bind_ok] at hd ⊢
      obtain ⟨⟨v1, r1⟩, hx, ⟨vs2, r2⟩, hy, hd⟩ := hd
      obtain ⟨q1, h1, h2⟩ := dec_ext e _ _ v1 r1 h hx
      obtain ⟨q2, h3, h4⟩ := decRep_ext e n _ _ vs2 r2 h2 hy
      cases hd
      exact ⟨q2, ⟨(v1, q1), h1, (vs2, q2), h3, rfl⟩, h4⟩
theorem decVariant_ext : ∀ (ts : List Ty) (n : Nat) (r r' : R) (v : Val) (q : R), Ext r r' → decVariant ts n r = .ok (v, q) →
    ∃ q', decVariant ts n r' = .ok (v, q') ∧ Ext q q'
  | [], _, r, r', v, q, h, hd => by simp [decVariant] at hd
  | t :: _, 0, r, r', v, q, h, hd => by
      simp only [decVariant] at hd ⊢; exact dec_ext t r r' v q h hd
  | _ :: ts, n+1, r, r', v, q, h, hd => by
      simp only [decVariant] at hd ⊢; exact decVariant_ext ts n r r' v q h hd
end
#print axioms dec_ext
