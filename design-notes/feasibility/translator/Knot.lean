import Gen
inductive Op where
  | leaf (vs : List Int) | pad (c : Op) (a : Int) | cat (cs : List Op) | rep (c : Op) (k : Int)
  | rrep (c : Op) (k : Int) | uni (cs : List Op)

def bad : OperatorI := ⟨0, 0, fun _ => throw (.Other "bad"), fun _ => throw (.Other "bad")⟩
def getI (x : Py.M Int) : Int := match x with | .ok v => v | _ => 0

mutual
def Op.iface : Op → OperatorI
  | .leaf vs => { min := getI (Gen.NullaryOperator.min vs), max := getI (Gen.NullaryOperator.max vs),
                  modulo := Gen.NullaryOperator.modulo vs, expand := fun _ => Gen.NullaryOperator.expand vs }
  | .pad c a =>
      let ci := c.iface
      let padf := fun x => Gen.PaddingOperator.pad ci a (fun _ => pure 0) x
      let mx := getI (Gen.PaddingOperator.max ci a padf)
      { min := getI (Gen.PaddingOperator.min ci a padf), max := mx,
        modulo := Gen.PaddingOperator.modulo ci a mx padf, expand := fun _ => Gen.PaddingOperator.expand ci a padf }
  | .cat cs => let ci := ifaces cs
      { min := getI (Gen.ConcatenationOperator.min ci), max := getI (Gen.ConcatenationOperator.max ci),
        modulo := Gen.ConcatenationOperator.modulo ci, expand := fun _ => Gen.ConcatenationOperator.expand ci }
  | .rep c k => let ci := c.iface
      { min := getI (Gen.RepetitionOperator.min ci k), max := getI (Gen.RepetitionOperator.max ci k),
        modulo := Gen.RepetitionOperator.modulo ci k, expand := fun _ => Gen.RepetitionOperator.expand ci k }
  | .rrep c k => let ci := c.iface
      { min := getI (Gen.RangeRepetitionOperator.min ci k), max := getI (Gen.RangeRepetitionOperator.max ci k),
        modulo := Gen.RangeRepetitionOperator.modulo ci k, expand := fun _ => Gen.RangeRepetitionOperator.expand ci k }
  | .uni cs => let ci := ifaces cs
      { min := getI (Gen.UnionOperator.min ci), max := getI (Gen.UnionOperator.max ci),
        modulo := Gen.UnionOperator.modulo ci, expand := fun _ => Gen.UnionOperator.expand ci }
def ifaces : List Op → List OperatorI
  | [] => []
  | c :: cs => c.iface :: ifaces cs
end

def show' (r : Py.M Py.PySet) : String := match r with | .ok s => toString (s.toArray.qsort (· < ·)).toList | .error _ => "ERR"
-- 32 + repeat(<=65536, 16 + repeat(<=256, {8}))
def ex1 : Op := .cat [.leaf [32], .rrep (.cat [.leaf [16], .rrep (.leaf [8]) 256]) 65536]
#eval (ex1.iface.min, ex1.iface.max, show' (ex1.iface.modulo 16), show' (ex1.iface.modulo 32))
def ex2 : Op := .pad (.rep (.uni [.leaf [1,3], .leaf [7]]) (2^63)) 8
#eval (ex2.iface.min, ex2.iface.max, show' (ex2.iface.modulo 5), show' (ex2.iface.modulo 12))
#eval show' ((Op.rrep (.leaf [1,2,3]) 2).iface.expand ())
