namespace Py
inductive Err | AssertionError | ValueError (m : String) | ZeroDivisionError | Other (m : String)
  deriving Repr, DecidableEq
abbrev M := Except Err
abbrev PySet := List Int
def PySet.add (s : PySet) (x : Int) : PySet := if x ∈ s then s else s ++ [x]
def PySet.union (s t : PySet) : PySet := t.foldl PySet.add s
def setOf (l : List Int) : PySet := l.foldl PySet.add []
def mod (a b : Int) : M Int := if b = 0 then throw .ZeroDivisionError else pure (Int.fmod a b)
def floordiv (a b : Int) : M Int := if b = 0 then throw .ZeroDivisionError else pure (Int.fdiv a b)
def range (n : Int) : List Int := (List.range n.toNat).map Int.ofNat
def sum (l : List Int) : Int := l.foldl (· + ·) 0
def minOf (l : List Int) : M Int := match l with | [] => throw (.ValueError "min() empty") | x :: xs => pure (xs.foldl min x)
def maxOf (l : List Int) : M Int := match l with | [] => throw (.ValueError "max() empty") | x :: xs => pure (xs.foldl max x)
def lcm (a b : Int) : Int := Int.ofNat (Nat.lcm a.natAbs b.natAbs)
def cwrNat : List Int → Nat → List (List Int)
  | _, 0 => [[]]
  | [], _+1 => []
  | x :: xs, k+1 => (cwrNat (x :: xs) k).map (x :: ·) ++ cwrNat xs (k+1)
def cwr (l : List Int) (k : Int) : M (List (List Int)) :=
  if k < 0 then throw (.ValueError "r must be non-negative") else pure (cwrNat l k.toNat)
def product : List (List Int) → List (List Int)
  | [] => [[]]
  | l :: ls => l.flatMap fun x => (product ls).map (x :: ·)
def assert (b : Bool) : M Unit := if b then pure () else throw .AssertionError
end Py
