import ast, sys, textwrap
SRC = "/repo/pydsdl/_bit_length_set/_symbolic.py"
tree = ast.parse(open(SRC).read())
classes = {n.name: n for n in tree.body if isinstance(n, ast.ClassDef)}
# configuration: fields of each class -> (lean name, kind)
CFG = {
 "NullaryOperator": {"_value": ("value", "set")},
 "PaddingOperator": {"_child": ("child", "op"), "_padding": ("padding", "int")},
 "ConcatenationOperator": {"_children": ("children", "oplist")},
 "RepetitionOperator": {"_child": ("child", "op"), "_k": ("k", "int")},
 "RangeRepetitionOperator": {"_child": ("child", "op"), "_k_max": ("k_max", "int")},
 "UnionOperator": {"_children": ("children", "oplist")},
}
LT = {"set": "Py.PySet", "op": "OperatorI", "oplist": "List OperatorI", "int": "Int"}
METHODS = ["min", "max", "modulo", "expand", "_pad"]
RET = {"min": "Int", "max": "Int", "modulo": "Py.PySet", "expand": "Py.PySet", "_pad": "Int"}
class T:
    def __init__(self, cls, fields, selfmeths):
        self.cls, self.fields, self.selfmeths, self.tmp = cls, fields, selfmeths, 0
        self.pre = []   # monadic bindings hoisted out of expressions
    def fresh(self):
        self.tmp += 1; return f"t{self.tmp}"
    def bind(self, mexpr):
        v = self.fresh(); self.pre.append(f"let {v} ← {mexpr}"); return v
    # expressions -> pure Lean term (monadic subterms hoisted)
    def e(self, n):
        if isinstance(n, ast.Constant):
            if isinstance(n.value, bool): return "true" if n.value else "false"
            if isinstance(n.value, int): return f"({n.value} : Int)"
            raise NotImplementedError(ast.dump(n))
        if isinstance(n, ast.Name): return n.id
        if isinstance(n, ast.Attribute):
            if isinstance(n.value, ast.Name) and n.value.id == "self":
                if n.attr in self.fields: return self.fields[n.attr][0]
                if n.attr in ("min", "max"): return f"self_{n.attr}"
            # child.min / x.min
            if n.attr in ("min", "max"): return f"({self.e(n.value)}).{n.attr}"
            raise NotImplementedError(ast.dump(n))
        if isinstance(n, ast.BinOp):
            a, b = self.e(n.left), self.e(n.right)
            if isinstance(n.op, ast.Mod): return self.bind(f"Py.mod {a} {b}")
            if isinstance(n.op, ast.FloorDiv): return self.bind(f"Py.floordiv {a} {b}")
            op = {ast.Add: "+", ast.Sub: "-", ast.Mult: "*"}[type(n.op)]
            return f"({a} {op} {b})"
        if isinstance(n, ast.Compare):
            parts = []; left = self.e(n.left)
            for op, c in zip(n.ops, n.comparators):
                r = self.e(c)
                o = {ast.Eq: "==", ast.LtE: "≤", ast.Lt: "<", ast.GtE: "≥", ast.Gt: ">"}[type(op)]
                parts.append(f"decide ({left} {o} {r})" if o != "==" else f"({left} == {r})"); left = r
            return "(" + " && ".join(parts) + ")"
        if isinstance(n, ast.BoolOp):
            op = " && " if isinstance(n.op, ast.And) else " || "
            return "(" + op.join(self.e(v) for v in n.values) + ")"
        if isinstance(n, ast.Tuple): return None
        if isinstance(n, ast.Call): return self.call(n)
        if isinstance(n, (ast.SetComp, ast.GeneratorExp, ast.ListComp)): return self.comp(n)
        raise NotImplementedError(ast.dump(n))
    def lam(self, var, body_node):
        # translate body in a nested context; if it needs monadic steps use mapM
        sub = T(self.cls, self.fields, self.selfmeths); sub.tmp = self.tmp + 100
        b = sub.e(body_node)
        if sub.pre:
            return True, f"(fun {var} => do\n      " + "\n      ".join(sub.pre) + f"\n      pure {b})"
        return False, f"(fun {var} => {b})"
    def comp(self, n):
        (g,) = n.generators
        assert not g.ifs
        it = self.iter(g.iter)
        var = g.target.id
        m, f = self.lam(var, n.elt)
        lst = self.bind(f"({it}).mapM {f}") if m else f"(({it}).map {f})"
        return f"(Py.setOf {lst})" if isinstance(n, ast.SetComp) else lst
    def iter(self, n):
        return self.e(n)
    def call(self, n):
        f = n.func
        if isinstance(f, ast.Name):
            if f.id in ("min", "max"):
                if len(n.args) == 2: return f"({f.id} {self.e(n.args[0])} {self.e(n.args[1])})"
                return self.bind(f"Py.{f.id}Of {self.e(n.args[0])}")
            if f.id == "sum": return f"(Py.sum {self.e(n.args[0])})"
            if f.id == "set":
                if not n.args: return "([] : Py.PySet)"
                return f"(Py.setOf {self.e(n.args[0])})"
            if f.id == "map":
                lam = n.args[0]
                if isinstance(lam, ast.Lambda):
                    m, fn = self.lam(lam.args.args[0].arg, lam.body)
                    it = self.e(n.args[1])
                    return self.bind(f"({it}).mapM {fn}") if m else f"(({it}).map {fn})"
                if isinstance(lam, ast.Name) and lam.id == "sum":
                    return f"(({self.e(n.args[1])}).map Py.sum)"
                if isinstance(lam, ast.Attribute) and lam.attr == "_pad":
                    it = self.e(n.args[1]); return self.bind(f"({it}).mapM (fun x => self_pad x)")
            if f.id == "range": return f"(Py.range {self.e(n.args[0])})"
            if f.id == "least_common_multiple": return f"(Py.lcm {self.e(n.args[0])} {self.e(n.args[1])})"
            if f.id == "isinstance": return "true"
        if isinstance(f, ast.Attribute):
            if isinstance(f.value, ast.Name) and f.value.id == "itertools":
                if f.attr == "combinations_with_replacement":
                    return self.bind(f"Py.cwr {self.e(n.args[0])} {self.e(n.args[1])}")
                if f.attr == "product":
                    (a,) = n.args; assert isinstance(a, ast.Starred)
                    return f"(Py.product {self.e(a.value)})"
            if f.attr in ("modulo",):
                return self.bind(f"({self.e(f.value)}).modulo {self.e(n.args[0])}")
            if f.attr == "expand":
                return self.bind(f"({self.e(f.value)}).expand ()")
            if f.attr == "_pad" and isinstance(f.value, ast.Name) and f.value.id == "self":
                return self.bind(f"self_pad {self.e(n.args[0])}")
        raise NotImplementedError(ast.dump(n))
    # statements
    def flush(self, out, ind):
        for p in self.pre: out.append(ind + p)
        self.pre = []
    def stmts(self, body, ind, out, mutables):
        for s in body:
            if isinstance(s, ast.Expr) and isinstance(s.value, ast.Constant): continue
            if isinstance(s, ast.Assign):
                (t,) = s.targets; v = self.e(s.value); self.flush(out, ind)
                name = t.id
                if name in mutables["declared"]:
                    out.append(f"{ind}{name} := {v}")
                else:
                    kw = "let mut" if name in mutables["mut"] else "let"
                    out.append(f"{ind}{kw} {name} := {v}"); mutables["declared"].add(name)
            elif isinstance(s, ast.AugAssign):
                v = self.e(s.value); self.flush(out, ind)
                assert isinstance(s.op, ast.BitOr)
                out.append(f"{ind}{s.target.id} := Py.PySet.union {s.target.id} {v}")
            elif isinstance(s, ast.Expr) and isinstance(s.value, ast.Call) and isinstance(s.value.func, ast.Attribute) and s.value.func.attr == "add":
                v = self.e(s.value.args[0]); self.flush(out, ind)
                tgt = s.value.func.value.id
                out.append(f"{ind}{tgt} := Py.PySet.add {tgt} {v}")
            elif isinstance(s, ast.Assert):
                v = self.e(s.test); self.flush(out, ind)
                out.append(f"{ind}Py.assert {v}")
            elif isinstance(s, ast.Return):
                v = self.e(s.value); self.flush(out, ind)
                out.append(f"{ind}return {v}")
            elif isinstance(s, ast.For):
                it = self.e(s.iter); self.flush(out, ind)
                out.append(f"{ind}for {s.target.id} in {it} do")
                self.stmts(s.body, ind + "  ", out, mutables)
            else:
                raise NotImplementedError(ast.dump(s))
def assigned(body):
    cnt = {}
    for n in ast.walk(ast.Module(body=body, type_ignores=[])):
        if isinstance(n, ast.Assign):
            for t in n.targets:
                if isinstance(t, ast.Name): cnt[t.id] = cnt.get(t.id, 0) + 1
        if isinstance(n, ast.AugAssign): cnt[n.target.id] = cnt.get(n.target.id, 0) + 5
        if isinstance(n, ast.Call) and isinstance(n.func, ast.Attribute) and n.func.attr == "add" and isinstance(n.func.value, ast.Name):
            cnt[n.func.value.id] = cnt.get(n.func.value.id, 0) + 5
    return {k for k, v in cnt.items() if v > 1}
out = ["import PyLib", "structure OperatorI where", "  min : Int", "  max : Int", "  modulo : Int → Py.M Py.PySet", "  expand : Unit → Py.M Py.PySet", ""]
for cname, fields in CFG.items():
    cls = classes[cname]
    for fn in cls.body:
        if not isinstance(fn, ast.FunctionDef) or fn.name not in METHODS: continue
        params = [f"({ln} : {LT[k]})" for (_, (ln, k)) in fields.items()]
        src = ast.unparse(fn)
        if "self.max" in src and fn.name != "max": params.append("(self_max : Int)")
        if "self.min" in src and fn.name != "min": params.append("(self_min : Int)")
        if "self._pad" in src: params.append("(self_pad : Int → Py.M Int)")
        params += [f"({a.arg} : Int)" for a in fn.args.args[1:]]
        t = T(cname, fields, None)
        body = []
        t.stmts(fn.body, "  ", body, {"mut": assigned(fn.body), "declared": set()})
        out.append(f"/- {cname}.{fn.name} lines {fn.lineno}-{fn.end_lineno} -/")
        out.append(f"def Gen.{cname}.{fn.name.lstrip('_')} {' '.join(params)} : Py.M {RET[fn.name]} := do")
        out += body; out.append("")
open("Gen.lean", "w").write("\n".join(out))
print("\n".join(out))
