import PyLib
structure OperatorI where
  min : Int
  max : Int
  modulo : Int → Py.M Py.PySet
  expand : Unit → Py.M Py.PySet

/- NullaryOperator.modulo lines 59-60 -/
def Gen.NullaryOperator.modulo (value : Py.PySet) (divisor : Int) : Py.M Py.PySet := do
  let t1 ← (value).mapM (fun x => do
      let t101 ← Py.mod x divisor
      pure t101)
  return (Py.setOf t1)

/- NullaryOperator.min lines 63-64 -/
def Gen.NullaryOperator.min (value : Py.PySet) : Py.M Int := do
  let t1 ← Py.minOf value
  return t1

/- NullaryOperator.max lines 67-68 -/
def Gen.NullaryOperator.max (value : Py.PySet) : Py.M Int := do
  let t1 ← Py.maxOf value
  return t1

/- NullaryOperator.expand lines 70-71 -/
def Gen.NullaryOperator.expand (value : Py.PySet) : Py.M Py.PySet := do
  return (Py.setOf value)

/- PaddingOperator.modulo lines 88-96 -/
def Gen.PaddingOperator.modulo (child : OperatorI) (padding : Int) (self_max : Int) (self_pad : Int → Py.M Int) (divisor : Int) : Py.M Py.PySet := do
  let r := padding
  let mx := self_max
  let lcm := (Py.lcm r divisor)
  let mut out := ([] : Py.PySet)
  let t1 ← (child).modulo lcm
  for x in t1 do
    Py.assert ((decide (x ≤ mx)) && (decide (x < lcm)))
    let t2 ← self_pad x
    let t3 ← Py.mod t2 divisor
    out := Py.PySet.add out t3
  return out

/- PaddingOperator.min lines 99-100 -/
def Gen.PaddingOperator.min (child : OperatorI) (padding : Int) (self_pad : Int → Py.M Int) : Py.M Int := do
  let t1 ← self_pad (child).min
  return t1

/- PaddingOperator.max lines 103-104 -/
def Gen.PaddingOperator.max (child : OperatorI) (padding : Int) (self_pad : Int → Py.M Int) : Py.M Int := do
  let t1 ← self_pad (child).max
  return t1

/- PaddingOperator.expand lines 106-107 -/
def Gen.PaddingOperator.expand (child : OperatorI) (padding : Int) (self_pad : Int → Py.M Int) : Py.M Py.PySet := do
  let t1 ← (child).expand ()
  let t2 ← (t1).mapM (fun x => self_pad x)
  return (Py.setOf t2)

/- PaddingOperator._pad lines 109-111 -/
def Gen.PaddingOperator.pad (child : OperatorI) (padding : Int) (self_pad : Int → Py.M Int) (x : Int) : Py.M Int := do
  let r := padding
  let t1 ← Py.floordiv ((x + r) - (1 : Int)) r
  return (t1 * r)

/- ConcatenationOperator.modulo lines 128-135 -/
def Gen.ConcatenationOperator.modulo (children : List OperatorI) (divisor : Int) : Py.M Py.PySet := do
  let t1 ← (children).mapM (fun ch => do
      let t101 ← (ch).modulo divisor
      pure t101)
  let mods := t1
  let prod := (Py.product mods)
  let sums := (Py.setOf ((prod).map Py.sum))
  let t2 ← (sums).mapM (fun x => do
      let t102 ← Py.mod x divisor
      pure t102)
  return (Py.setOf t2)

/- ConcatenationOperator.min lines 138-139 -/
def Gen.ConcatenationOperator.min (children : List OperatorI) : Py.M Int := do
  return (Py.sum ((children).map (fun x => (x).min)))

/- ConcatenationOperator.max lines 142-143 -/
def Gen.ConcatenationOperator.max (children : List OperatorI) : Py.M Int := do
  return (Py.sum ((children).map (fun x => (x).max)))

/- ConcatenationOperator.expand lines 145-146 -/
def Gen.ConcatenationOperator.expand (children : List OperatorI) : Py.M Py.PySet := do
  let t1 ← (children).mapM (fun x => do
      let t101 ← (x).expand ()
      pure t101)
  return (Py.setOf (((Py.product t1)).map (fun el => (Py.sum el))))

/- RepetitionOperator.modulo lines 162-176 -/
def Gen.RepetitionOperator.modulo (child : OperatorI) (k : Int) (divisor : Int) : Py.M Py.PySet := do
  let t1 ← Py.mod k divisor
  let equivalent_k := (min k (divisor + t1))
  let t2 ← Py.mod k divisor
  let t3 ← Py.mod equivalent_k divisor
  Py.assert ((t2 == t3))
  let t4 ← (child).modulo divisor
  let t5 ← Py.cwr t4 equivalent_k
  let t6 ← (t5).mapM (fun el => do
      let t106 ← Py.mod (Py.sum el) divisor
      pure t106)
  return (Py.setOf t6)

/- RepetitionOperator.min lines 179-180 -/
def Gen.RepetitionOperator.min (child : OperatorI) (k : Int) : Py.M Int := do
  return ((child).min * k)

/- RepetitionOperator.max lines 183-184 -/
def Gen.RepetitionOperator.max (child : OperatorI) (k : Int) : Py.M Int := do
  return ((child).max * k)

/- RepetitionOperator.expand lines 186-187 -/
def Gen.RepetitionOperator.expand (child : OperatorI) (k : Int) : Py.M Py.PySet := do
  let t1 ← (child).expand ()
  let t2 ← Py.cwr t1 k
  return (Py.setOf ((t2).map (fun el => (Py.sum el))))

/- RangeRepetitionOperator.modulo lines 203-214 -/
def Gen.RangeRepetitionOperator.modulo (child : OperatorI) (k_max : Int) (divisor : Int) : Py.M Py.PySet := do
  let t1 ← (child).modulo divisor
  let single := t1
  Py.assert true
  let t2 ← Py.mod k_max divisor
  let equivalent_k_max := (min k_max (divisor + t2))
  let t3 ← Py.mod k_max divisor
  let t4 ← Py.mod equivalent_k_max divisor
  Py.assert ((t3 == t4))
  let mut out := ([] : Py.PySet)
  for k in (Py.range (equivalent_k_max + (1 : Int))) do
    let t5 ← Py.cwr single k
    for el in t5 do
      let t6 ← Py.mod (Py.sum el) divisor
      out := Py.PySet.add out t6
  return out

/- RangeRepetitionOperator.min lines 217-218 -/
def Gen.RangeRepetitionOperator.min (child : OperatorI) (k_max : Int) : Py.M Int := do
  return (0 : Int)

/- RangeRepetitionOperator.max lines 221-222 -/
def Gen.RangeRepetitionOperator.max (child : OperatorI) (k_max : Int) : Py.M Int := do
  return ((child).max * k_max)

/- RangeRepetitionOperator.expand lines 224-231 -/
def Gen.RangeRepetitionOperator.expand (child : OperatorI) (k_max : Int) : Py.M Py.PySet := do
  let t1 ← (child).expand ()
  let ch := t1
  Py.assert true
  let mut out := ([] : Py.PySet)
  for k in (Py.range (k_max + (1 : Int))) do
    let t2 ← Py.cwr ch k
    for el in t2 do
      out := Py.PySet.add out (Py.sum el)
  return out

/- UnionOperator.modulo lines 243-247 -/
def Gen.UnionOperator.modulo (children : List OperatorI) (divisor : Int) : Py.M Py.PySet := do
  let mut out := ([] : Py.PySet)
  for x in children do
    let t1 ← (x).modulo divisor
    out := Py.PySet.union out t1
  return out

/- UnionOperator.min lines 250-251 -/
def Gen.UnionOperator.min (children : List OperatorI) : Py.M Int := do
  let t1 ← Py.minOf ((children).map (fun x => (x).min))
  return t1

/- UnionOperator.max lines 254-255 -/
def Gen.UnionOperator.max (children : List OperatorI) : Py.M Int := do
  let t1 ← Py.maxOf ((children).map (fun x => (x).max))
  return t1

/- UnionOperator.expand lines 257-261 -/
def Gen.UnionOperator.expand (children : List OperatorI) : Py.M Py.PySet := do
  let mut out := ([] : Py.PySet)
  for x in children do
    let t1 ← (x).expand ()
    out := Py.PySet.union out t1
  return out
