import random, sys, itertools
from pydsdl import BitLengthSet as B
rnd = random.Random(int(sys.argv[1]))
def tree(depth):
    c = rnd.randrange(8)
    if depth<=0 or c<2:
        return B(set(rnd.randrange(0,40) for _ in range(rnd.randint(1,3)))), None
    if c==2: return tree(depth-1)[0].pad_to_alignment(rnd.choice([1,2,3,4,8,16,5])), None
    if c==3: return tree(depth-1)[0].repeat(rnd.choice([0,1,2,3,4])), None
    if c==4: return tree(depth-1)[0].repeat_range(rnd.choice([0,1,2,3,4])), None
    if c==5: return tree(depth-1)[0] + tree(depth-1)[0], None
    if c==6: return tree(depth-1)[0] | tree(depth-1)[0], None
    return B.concatenate([tree(depth-1)[0] for _ in range(rnd.randint(1,3))]), None
bad=0
for i in range(1500):
    b,_ = tree(3)
    try:
        s = set(b)
    except AssertionError as ex:
        bad+=1; print("ASSERT", b); continue
    if len(s)>200000: continue
    for d in list(range(1,40))+[64,100,rnd.randint(1,500)]:
        if set(b % d) != {x % d for x in s}: bad+=1; print("MOD", b, d); break
    if b.min!=min(s) or b.max!=max(s): bad+=1; print("MINMAX", b)
# big k
for i in range(300):
    base,_ = tree(1)
    s=set(base)
    k = rnd.choice([2**63, 2**40+rnd.randrange(100), 10**6+rnd.randrange(50)])
    d = rnd.randint(1,12)
    # reference: k-fold sumset residues via DP on residues
    R = {x % d for x in s}
    cur={0}
    # compute k • R in Z_d by repeated doubling of sumset
    def add(A,Bs): return {(a+b)%d for a in A for b in Bs}
    res={0}; p=R; kk=k
    while kk:
        if kk&1: res=add(res,p)
        p=add(p,p); kk>>=1
    if set(base.repeat(k) % d)!=res: bad+=1; print("BIGK", base, k, d, sorted(set(base.repeat(k)%d)), sorted(res))
    # range: union over j<=k = k • (R ∪ {0})
    R0=R|{0}; res={0}; p=R0; kk=k
    while kk:
        if kk&1: res=add(res,p)
        p=add(p,p); kk>>=1
    if set(base.repeat_range(k) % d)!=res: bad+=1; print("BIGKR", base, k, d)
print("bad",bad)
