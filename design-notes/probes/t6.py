import random, math, struct, sys
from pathlib import Path
import pydsdl
from pydsdl import *
CM = PrimitiveType.CastMode
rnd = random.Random(int(sys.argv[1]) if len(sys.argv)>1 else 1)
cnt=[0]
def prim():
    c = rnd.randrange(6)
    if c==0: return BooleanType()
    if c==1: return UnsignedIntegerType(rnd.choice([1,2,3,7,8,9,15,16,17,31,32,33,63,64]), rnd.choice(list(CM)))
    if c==2: return SignedIntegerType(rnd.choice([2,3,7,8,9,15,16,17,31,32,33,63,64]), CM.SATURATED)
    if c==3: return FloatType(rnd.choice([16,32,64]), rnd.choice(list(CM)))
    if c==4: return UnsignedIntegerType(rnd.randint(1,64), rnd.choice(list(CM)))
    return SignedIntegerType(rnd.randint(2,64), CM.SATURATED)
def ty(depth):
    c = rnd.randrange(10)
    if depth<=0 or c<4: return prim()
    if c==4: return FixedLengthArrayType(ty(depth-1) if rnd.random()<.5 else rnd.choice([prim(), ByteType()]), rnd.choice([1,2,3,5]))
    if c==5: return VariableLengthArrayType(rnd.choice([lambda:ty(depth-1), prim, ByteType, UTF8Type])(), rnd.choice([1,2,3,5,255,256,300]))
    return comp(depth-1)
def comp(depth, top=False):
    cnt[0]+=1
    name="ns.T%d"%cnt[0]
    union = rnd.random()<.3
    n = rnd.randint(2,4) if union else rnd.randint(0,4)
    attrs=[]
    for i in range(n):
        if not union and rnd.random()<.2: attrs.append(PaddingField(VoidType(rnd.choice([1,3,7,8,9,64]))))
        else: attrs.append(Field(ty(depth), "f%d"%i))
    cls = UnionType if union else StructureType
    inner = cls(name=name, version=Version(1,0), attributes=attrs, deprecated=False, fixed_port_id=None, source_file_path=Path("ns/T%d.1.0.dsdl"%cnt[0]), has_parent_service=False)
    if rnd.random()<.4:
        ext = inner.extent + 8*rnd.choice([0,0,1,5])
        return DelimitedType(inner, ext)
    return inner
def val(t):
    if isinstance(t, BooleanType): return rnd.random()<.5
    if isinstance(t, (ByteType, UTF8Type)): return rnd.randrange(128)
    if isinstance(t, FloatType):
        fmt={16:'<e',32:'<f',64:'<d'}[t.bit_length]
        while True:
            b=bytes(rnd.randrange(256) for _ in range(t.bit_length//8))
            if rnd.random()<.3: b = rnd.choice([b'\x00'*len(b), b'\xff'*(len(b)-1)+b'\x7f'])[:len(b)]
            x=struct.unpack(fmt,b)[0]
            if not math.isnan(x): return x
    if isinstance(t, IntegerType):
        lo,hi = map(int,t.inclusive_value_range)
        return rnd.choice([lo,hi,0 if lo<=0 else lo, rnd.randint(lo,hi)])
    if isinstance(t, FixedLengthArrayType):
        if isinstance(t.element_type, ByteType): return bytes(rnd.randrange(256) for _ in range(t.capacity))
        return [val(t.element_type) for _ in range(t.capacity)]
    if isinstance(t, VariableLengthArrayType):
        n = rnd.choice([0, t.capacity, rnd.randint(0,t.capacity)]) if t.capacity<10 else rnd.choice([0,1,rnd.randint(0,min(t.capacity,40))])
        if isinstance(t.element_type, UTF8Type):
            s=""
            while len((s+"é").encode())<=n: s+=rnd.choice("aé€😀z")
            while len(s.encode())>n: s=s[:-1]
            return s
        if isinstance(t.element_type, ByteType): return bytes(rnd.randrange(256) for _ in range(n))
        return [val(t.element_type) for _ in range(n)]
    if isinstance(t, CompositeType):
        it = t.inner_type
        if isinstance(it, UnionType):
            f = rnd.choice(it.fields); return {f.name: val(f.data_type)}
        return {f.name: val(f.data_type) for f in it.fields_except_padding}
    raise Exception(t)
bad=0
for i in range(3000):
    t = comp(3, True)
    v = val(t)
    try:
        for hdr in ([False, True] if isinstance(t, DelimitedType) else [False]):
            b = serialize(t, v, with_delimiter_header=hdr)
            v2 = deserialize(t, b, with_delimiter_header=hdr)
            bls = t.bit_length_set if hdr or not isinstance(t, DelimitedType) else t.inner_type.bit_length_set
            ok_len = (len(b)*8) >= bls.min and (len(b)*8) <= bls.max and (len(b)*8) % 8 in set(bls % 8)
            small = None
            if v2 != v or not ok_len:
                bad+=1; print("MISMATCH", t, [str(a) for a in t.attributes], v, v2, len(b)*8, ok_len)
            # zero ext / truncation
            v3 = deserialize(t, b + bytes(rnd.randrange(256) for _ in range(rnd.randrange(4))), with_delimiter_header=hdr)
            if v3 != v: bad+=1; print("TRUNC-MISMATCH", t, v, v3)
    except Exception as ex:
        bad+=1; print("EXC", type(ex).__name__, ex, t, [str(a) for a in t.attributes], v)
print("bad", bad)
