import sys, tempfile, pathlib, pydsdl
def ns(files, target="ns", lookups=(), **kw):
    with tempfile.TemporaryDirectory() as d:
        d = pathlib.Path(d).resolve()
        for k,v in files.items():
            q = d/k; q.parent.mkdir(parents=True, exist_ok=True); q.write_bytes(v.encode())
        try:
            ts = pydsdl.read_namespace(d/target, [d/l for l in lookups], print_output_handler=lambda p,l,t: print("   PRINT", p.relative_to(d), l, t), **kw)
            print("  OK", [str(t) for t in ts])
        except pydsdl.InvalidDefinitionError as ex:
            print("  IDE", type(ex).__name__, ex.path and ex.path.relative_to(d), ex.line, ex.text[:90])
        except pydsdl.InternalError as ex:
            print("  INTERNAL", ex.path and ex.path.name, ex.line, ex.text[:150])
        except Exception as ex:
            print("  OTHER", type(ex).__name__, ex)
print("print in dependency, A refs B (A first)")
ns({"ns/A.1.0.dsdl":"ns.B.1.0 b\n@sealed\n", "ns/B.1.0.dsdl":"\n\n@print 123\n@sealed\n"})
print("print in dependency, Z refs B (B first)")
ns({"ns/Z.1.0.dsdl":"ns.B.1.0 b\n@sealed\n", "ns/B.1.0.dsdl":"\n\n@print 123\n@sealed\n"})
print("print in lookup dep")
ns({"ns/Z.1.0.dsdl":"lk.B.1.0 b\n@sealed\n", "lk/B.1.0.dsdl":"\n\n@print 123\n@sealed\n"}, lookups=["lk"])
print("error line for lazily committed attr")
ns({"ns/A.1.0.dsdl":"uint8 a\nuint8 _b_\n# c1\n# c2\n\n\n@sealed\n"})
ns({"ns/A.1.0.dsdl":"uint8 a\nuint8 _b_\nuint8 c\n@sealed\n"})
ns({"ns/A.1.0.dsdl":"uint8 a\nuint8 _b_\n# c\nuint8 c\n@sealed\n"})
ns({"ns/A.1.0.dsdl":"uint8 a\nuint8 _b_ # c\n\n\nuint8 c\n@sealed\n"})
ns({"ns/A.1.0.dsdl":"uint8 a\nuint8 A = 1000\n\n\nuint8 c\n@sealed\n"})
ns({"ns/A.1.0.dsdl":"uint8 a\n@assert false\n\n\nuint8 c\n@sealed\n"})
ns({"ns/A.1.0.dsdl":"uint8 a\nuint8 a\n\n\nuint8 c\n@sealed\n"})
ns({"ns/A.1.0.dsdl":"@union\nuint8 a\nvoid8\nuint8 c\n@sealed\n"})
ns({"ns/A.1.0.dsdl":"uint8 a\n\n\nuint8[0] q\nuint8 c\n@sealed\n"})
ns({"ns/A.1.0.dsdl":"uint8 a\n\n\nuint65 q\nuint8 c\n@sealed\n"})
print("error in dependency")
ns({"ns/A.1.0.dsdl":"\nns.B.1.0 b\n@sealed\n", "ns/B.1.0.dsdl":"\n\n\n\n@assert false\n@sealed\n"})
ns({"ns/Z.1.0.dsdl":"\nns.B.1.0 b\n@sealed\n", "ns/B.1.0.dsdl":"\n\n\n\nuint8 _x_\n\n\n@sealed\n"})
ns({"ns/A.1.0.dsdl":"\nns.B.1.0 b\n@sealed\n", "ns/B.1.0.dsdl":"\n\n\n\nuint8 x\nuint8 x\n\n@sealed\n"})
ns({"ns/A.1.0.dsdl":"\nns.B.1.0 b\n@sealed\n", "ns/B.1.0.dsdl":"\n\n\n\nuint8 x\n"})
print("dup files")
ns({"ns/A.1.0.dsdl":"@sealed\n", "ns/A.1.0.uavcan":"@sealed\n"})
ns({"ns/A.1.0.dsdl":"@sealed\n", "ns/A.1.0.uavcan":"uint8 x\n@sealed\n"})
ns({"ns/A.1.0.dsdl":"@sealed\n", "ns/7000.A.1.0.dsdl":"@sealed\n"})
ns({"ns/A.1.0.dsdl":"@sealed\n", "ns/7000.A.1.0.dsdl":"uint8 x\n@sealed\n"})
