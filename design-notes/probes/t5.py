import sys, tempfile, pathlib, pydsdl, os
def ns(files, target="ns", lookups=(), show=lambda t: (str(t), t.fixed_port_id, tuple(t.version)), **kw):
    with tempfile.TemporaryDirectory() as d:
        d = pathlib.Path(d).resolve()
        for k,v in files.items():
            q = d/k; q.parent.mkdir(parents=True, exist_ok=True); q.write_bytes(v.encode())
        try:
            ts = pydsdl.read_namespace(d/target, [d/l for l in lookups], print_output_handler=lambda p,l,t: print("   PRINT", p.relative_to(d), l, t), **kw)
            print("  OK", [show(t) for t in ts])
        except pydsdl.InvalidDefinitionError as ex:
            print("  IDE", type(ex).__name__, ex.path and ex.path.relative_to(d), ex.line, ex.text[:90])
        except pydsdl.InternalError as ex:
            print("  INTERNAL", ex.path and ex.path.name, ex.line, ex.text[:150])
        except Exception as ex:
            print("  OTHER", type(ex).__name__, ex)
S="@sealed\n"
for fn in ["A.1_0.0.dsdl","A.+1.0.dsdl","A. 1.0.dsdl","A.١.0.dsdl","-1.A.1.0.dsdl","0x10.A.1.0.dsdl","A.1.0.0.dsdl","A.B.1.0.dsdl","7_000.A.1.0.dsdl","A.1.-0.dsdl","A.01.00.dsdl", "A.1.0.dsdl.dsdl", ".A.1.0.dsdl", "A..1.0.dsdl","a b.1.0.dsdl"]:
    print(fn); ns({"ns/"+fn:S}, allow_unregulated_fixed_port_id=True)
print("dir named with space/.hidden")
ns({"ns/.hid/A.1.0.dsdl":S}); ns({"ns/sub dir/A.1.0.dsdl":S}); ns({"ns/Sub/A.1.0.dsdl":S, "ns/sub/B.1.0.dsdl":S})
print("garbage in unrelated lookup")
ns({"ns/A.1.0.dsdl":"lk.B.1.0 b\n"+S, "lk/B.1.0.dsdl":S, "lk/C.1.0.dsdl":"garbage ((("}, lookups=["lk"])
ns({"ns/A.1.0.dsdl":"lk.B.1.0 b\n"+S, "lk/B.1.0.dsdl":S, "lk/B.1.1.dsdl":"---\n@sealed\n"}, lookups=["lk"])
print("C05 misc")
ns({"ns/A.1.0.dsdl":"uint8 x\n@extent 8\nuint8 Y = 1\n"})
ns({"ns/A.1.0.dsdl":"uint8 x\n@extent 8\n@assert true\n@print 1\n"})
ns({"ns/A.1.0.dsdl":"@deprecated\n@deprecated\n@sealed"})
ns({"ns/A.1.0.dsdl":"uint8 x\n@union\nuint8 y\n@sealed"})
ns({"ns/A.1.0.dsdl":"@union\nuint8 x\nuint8 Y=1\n@sealed"})
ns({"ns/A.1.0.dsdl":"@union\nuint8 x\nuint8 y\n@assert _offset_ == {16}\n@sealed"})
ns({"ns/A.1.0.dsdl":"@union\nuint8 x\n@assert _offset_ == {8}\nuint8 y\n@sealed"})
ns({"ns/A.1.0.dsdl":"truncated int8 x\n@sealed"})
ns({"ns/A.1.0.dsdl":"int1 x\n@sealed"})
ns({"ns/A.1.0.dsdl":"float17 x\n@sealed"})
ns({"ns/A.1.0.dsdl":"uint8[<1] x\n@sealed"})
ns({"ns/A.1.0.dsdl":"uint8[1.5] x\n@sealed"})
ns({"ns/A.1.0.dsdl":"uint8[true] x\n@sealed"})
ns({"ns/A.1.0.dsdl":"utf8[<=3] s\nbyte[3] b\nbyte[<=3] c\n@sealed"})
ns({"ns/A.1.0.dsdl":"utf8[3] s\n@sealed"})
ns({"ns/A.1.0.dsdl":"byte b\n@sealed"})
ns({"ns/A.1.0.dsdl":"utf8 b\n@sealed"})
ns({"ns/A.1.0.dsdl":"byte B = 1\n@sealed"})
ns({"ns/A.1.0.dsdl":"void8 X = 1\n@sealed"})
ns({"ns/A.1.0.dsdl":"void8[2] x\n@sealed"})
ns({"ns/A.1.0.dsdl":"uint8 Bool\n@sealed"})
ns({"ns/A.1.0.dsdl":"uint8 VOID\nuint8 uInt7\n@sealed"})
ns({"ns/A.1.0.dsdl":"@extent 16\n", "ns/A.1.1.dsdl":"@extent 8\n"})
ns({"ns/A.0.1.dsdl":"@extent 16\n", "ns/A.0.2.dsdl":"@sealed\n"})
