import sys, tempfile, pathlib, pydsdl
def rd(text, name="ns/A.1.0.dsdl", extra={}):
    with tempfile.TemporaryDirectory() as d:
        d = pathlib.Path(d).resolve()
        p = d / name
        p.parent.mkdir(parents=True, exist_ok=True)
        p.write_bytes(text.encode())
        for k,v in extra.items():
            q = d/k; q.parent.mkdir(parents=True, exist_ok=True); q.write_bytes(v.encode())
        try:
            ts = pydsdl.read_namespace(d/"ns", [], print_output_handler=lambda p,l,t: print("PRINT", p.name, l, t))
            for t in ts:
                if isinstance(t, pydsdl.ServiceType):
                    print("  SVC", t, [str(a) for a in t.request_type.attributes], [str(a) for a in t.response_type.attributes])
                else:
                    print("  OK", t, type(t).__name__, [str(a) for a in t.attributes], [a.doc for a in t.attributes], repr(t.doc))
        except pydsdl.InvalidDefinitionError as ex:
            print("  IDE", type(ex).__name__, ex.path and ex.path.name, ex.line, ex.text[:100])
        except pydsdl.InternalError as ex:
            print("  INTERNAL", ex.path and ex.path.name, ex.line, ex.text[:150])
        except Exception as ex:
            print("  OTHER", type(ex).__name__, ex)
for t in ["@sealed\nuint8 x", "@sealed\nuint8 x\n", "@sealed\nuint8 x\r\n", "uint8 x\n@sealed", "@sealed\nuint8 x # c", "@sealed\nuint8 x\nuint8 y",
          "@sealed\nuint8 X = 1", "@sealed\nvoid3", "@sealed\n---\n@sealed\nuint8 y", "@sealed\nuint8 y\n---\n@sealed", "@sealed\nuint8 y\n---\n@sealed\nuint8 z"]:
    print(repr(t)); rd(t)
