import random, sys
sys.argv=[sys.argv[0]]+sys.argv[1:]
import importlib.util
src=open('t6.py').read().split("bad=0")[0]
exec(src)
from pydsdl import SerDesError
import collections
st=collections.Counter(); bad=0
for i in range(4000):
    t = comp(3, True)
    hdr = isinstance(t, DelimitedType) and rnd.random()<.5
    mode = rnd.randrange(3)
    if mode==0:
        b = bytes(rnd.randrange(256) for _ in range(rnd.choice([0,1,2,3,5,8,13,40])))
    else:
        v = val(t); b = serialize(t, v, with_delimiter_header=hdr)
        if mode==1: b = b[:rnd.randint(0,len(b))]
        else:
            if b:
                bb=bytearray(b); j=rnd.randrange(len(bb)*8); bb[j//8]^=1<<(j%8); b=bytes(bb)
    try:
        o = deserialize(t, b, with_delimiter_header=hdr); st['ok']+=1
        b2 = serialize(t, o, with_delimiter_header=hdr)
        o2 = deserialize(t, b2, with_delimiter_header=hdr)
        b3 = serialize(t, o2, with_delimiter_header=hdr)
        if b3!=b2: bad+=1; print("NOT FIXPOINT", t, b.hex(), o, o2)
        # zero extension
        try:
            o3 = deserialize(t, b+bytes(5), with_delimiter_header=hdr)
            b4 = serialize(t, o3, with_delimiter_header=hdr)
            if b4!=b2: bad+=1; print("ZEXT differs", t, [str(a) for a in t.attributes], b.hex(), o, o3)
        except Exception as ex:
            bad+=1; print("ZEXT raised", type(ex).__name__, t)
    except (SerDesError, ValueError) as ex:
        st[type(ex).__name__]+=1
        # zero extension should give same error or (if header error) maybe ok
    except Exception as ex:
        bad+=1; print("EXC", type(ex).__name__, ex, t)
print(st, "bad", bad)
