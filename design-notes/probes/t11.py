import sys, tempfile, pathlib, pydsdl
def ns(files, target="ns", lookups=(), **kw):
    with tempfile.TemporaryDirectory() as d:
        d = pathlib.Path(d).resolve()
        for k,v in files.items():
            q = d/k; q.parent.mkdir(parents=True, exist_ok=True); q.write_bytes(v.encode())
        try:
            ts = pydsdl.read_namespace(d/target, [d/l for l in lookups], print_output_handler=lambda p,l,t: print("   PRINT", p.relative_to(d), l, t[:80]), **kw)
            print("  OK", [str(t) for t in ts])
        except pydsdl.InvalidDefinitionError as ex:
            print("  IDE", type(ex).__name__, ex.path and ex.path.relative_to(d), ex.line, ex.text[:90])
        except pydsdl.InternalError as ex:
            print("  INTERNAL", ex.path and ex.path.name, ex.line, ex.text[:200])
        except Exception as ex:
            print("  OTHER", type(ex).__name__, ex)
S="@sealed\n"
