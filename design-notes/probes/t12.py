from t11 import ns
S="@sealed\n"
ns({"ns/A.1.0.dsdl":"@print {1} & {2}\n"+S})
ns({"ns/A.1.0.dsdl":"@print {1,2} ^ {2}\n@print {1} | {2}\n@print {1}=={'a'}\n"+S})
ns({"ns/A.1.0.dsdl":"saturated byte[2] x\n"+S})
ns({"ns/A.1.0.dsdl":"uint8 com10\nuint8 q1\nuint8 a_\nuint8 _a\n"+S})
ns({"ns/A.1.0.dsdl":"uint8 uq16_8\n"+S})
ns({"ns/A.1.0.dsdl":"@union\nuint8 A = 1\nuint8 B = 2\n"+S})
ns({"ns/A.1.0.dsdl":"uint8 a\n---\nuint8 a\n@sealed"})
ns({"ns/A.1.0.dsdl":"@sealed 1\n"})
ns({"ns/A.1.0.dsdl":"@extent\n"})
ns({"ns/A.1.0.dsdl":"@print {1,2}.max + {3}.min\n@print 'é' == 'e\\u0301'\n"+S})
