import tempfile, pathlib, pydsdl
from pydsdl import _data_type_builder as B, _parser as P
log=[]
def wrap(cls, name):
    orig=getattr(cls,name)
    def f(self,*a,**k):
        log.append((name, tuple(str(x)[:30] for x in a)))
        return orig(self,*a,**k)
    setattr(cls,name,f)
for n in ["on_header_comment","on_attribute_comment","on_constant","on_field","on_padding_field","on_directive","on_service_response_marker","_flush_attribute"]:
    wrap(B.DataTypeBuilder,n)
for n in ["visit_line","visit_end_of_line","visit_comment","visit_identifier"]:
    orig=getattr(P._ParseTreeProcessor,n)
    def mk(orig,n):
        def f(self,node,ch):
            log.append((n, node.text[:20], self._current_line_number)); return orig(self,node,ch)
        return f
    setattr(P._ParseTreeProcessor,n,mk(orig,n))
def run(text):
    log.clear()
    with tempfile.TemporaryDirectory() as d:
        d=pathlib.Path(d).resolve(); (d/"ns").mkdir(); (d/"ns/A.1.0.dsdl").write_text(text)
        try:
            (t,)=pydsdl.read_namespace(d/"ns")
            res=[(str(a),a.doc) for a in t.attributes], t.doc
        except Exception as ex: res=repr(ex)[:100]
    print(repr(text)); 
    for l in log: print("   ",l)
    print("  =>",res)
run("# hdr\n# hdr2\nuint8 a # ta\n# more\nuint8 B = a_x + 1 # tb\n\n# pre c\nvoid3\n@sealed # s\n")
run("uint8 a\n  \n# stray\nuint8 b\n@sealed\n")
