import tempfile, pathlib, pydsdl, pickle
with tempfile.TemporaryDirectory() as d:
    d = pathlib.Path(d).resolve()
    (d/"ns").mkdir()
    (d/"ns/A.1.0.dsdl").write_text("uint8 x\nuint8 Y = 1\n@sealed\n")
    (t,) = pydsdl.read_namespace(d/"ns")
    print(t.name_components, t.short_name, t.full_namespace)
    t.name_components.append("HACK")
    print(t.name_components, t.short_name, t.full_namespace, t.root_namespace, str(t))
    t.attributes.append(1); t.fields.clear(); t.constants.clear()
    print(t.attributes, t.fields, t.constants)
    p = pickle.loads(pickle.dumps(t)); print(p == t, hash(p)==hash(t))
