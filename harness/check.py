#!/venv/bin/python
"""
./check <PROPERTY> [--tier quick|thorough] [--replay FILE]

One pipeline for every property (DESIGN.md 2.3):
  1. build + audit the Lean proof module of the property (axioms, forbidden tokens);
  2. corpus + generated cases of the property's correspondence suites: real pydsdl (from $VERIF_REPO, default /repo)
     against the compiled Lean model, plus the property's own oracle on the implementation's outcome;
  3. a broken proof / correspondence triggers a failing-input search (larger budget, other seeds);
  4. known findings are filtered, VIOLATION / KNOWN-FINDING lines printed, evidence written.
"""
from __future__ import annotations

import argparse
import json
import os
import sys
import time
from pathlib import Path

sys.path.insert(0, str(Path(__file__).resolve().parent))
import common  # noqa: E402
from registry import REGISTRY  # noqa: E402


def main() -> int:
    ap = argparse.ArgumentParser()
    ap.add_argument("prop")
    ap.add_argument("--tier", default=os.environ.get("VERIF_TIER") or "quick", choices=["quick", "thorough"])
    ap.add_argument("--replay", default=None)
    ap.add_argument("--no-lean", action="store_true", help="(debugging) skip the proof audit")
    args = ap.parse_args()
    prop = args.prop
    if prop not in REGISTRY:
        print("unknown property %s" % prop)
        return 2
    reg = REGISTRY[prop]
    try:
        seed = int(os.environ.get("VERIF_SEED") or 0)
    except ValueError:
        seed = 0
    t0 = time.time()
    common.import_pydsdl()

    if args.replay:
        return replay(prop, args.replay)

    # ---------------------------------------------------------------- 1. proofs
    aud = {"bad": [], "theorems": [], "examples": 0, "axioms": {}, "module": reg["module"], "build_ok": True, "log": ""}
    if not args.no_lean:
        aud = common.audit(reg["module"])
    proof_broken = list(aud["bad"])
    checker_note = ""
    if args.tier == "thorough" and not proof_broken and not args.no_lean:
        mlist = [reg["module"]] if isinstance(reg["module"], str) else list(reg["module"])
        srcs = {p for m in mlist for p in common.lean_sources_of(m)}
        mods = sorted(str(p.relative_to(common.LEAN_DIR))[:-5].replace("/", ".") for p in srcs)
        ok, log = common.leanchecker(mods)
        checker_note = "leanchecker over %d modules: %s" % (len(mods), "ok" if ok else "FAILED")
        if not ok:
            proof_broken.append("leanchecker failed: " + log[-300:])

    # ---------------------------------------------------------------- 2. correspondence + oracle
    results = []
    for sname, counts in reg["suites"]:
        n = counts[0] if args.tier == "quick" else counts[1]
        results.append(common.run_suite(sname, prop, seed, n, args.tier))
    infra = [e for r in results for e in r["errors"]]
    if infra:
        print("INFRASTRUCTURE FAILURE in %s:\n%s" % (prop, infra[0]))
        return 2

    violations = [(r["suite"], v) for r in results for v in r["violations"]]
    disagreements = [(r["suite"], d) for r in results for d in r["disagreements"]]

    # ---------------------------------------------------------------- 3. failing-input search
    known = [f for f in common.load_known_findings() if f.get("property") == prop and f.get("status") == "open"]
    known_sigs = {f["signature"] for f in known}

    def unlisted(vs):
        """violations that are not instances of a listed known finding (a known finding answers for nothing else)"""
        return [(sn, v) for sn, v in vs if common.get_suite(sn).signature(v["case"], v["desc"], prop) not in known_sigs]

    searched = 0
    if (proof_broken or disagreements) and not unlisted(violations):
        budget = 4 if args.tier == "quick" else 12
        for k in range(budget):
            for sname, counts in reg["suites"]:
                r = common.run_suite(sname, prop, seed + 1000 + k, counts[0], args.tier)
                searched += r["n"]
                violations += [(sname, v) for v in r["violations"]]
            if unlisted(violations):
                break

    # ---------------------------------------------------------------- 4. verdict
    lines = []
    new_violations = 0
    known_hit = {}
    reported = set()
    for sname, v in violations:
        suite = common.get_suite(sname)
        sig = suite.signature(v["case"], v["desc"], prop)
        kf = next((f for f in known if f["signature"] == sig), None)
        if kf is not None:
            known_hit[sig] = kf
            continue
        if sig in reported:
            continue
        if len(reported) >= 6:  # enough distinct replays; the rest is counted in the evidence only
            continue
        reported.add(sig)
        slow = v["impl"].get("timeout") or v["impl"].get("memory_error")
        small = v["case"] if slow else common.shrink_case(suite, v["case"], prop, "oracle", sig)
        vv, dd, im, mo = common.recheck(suite, small, prop)
        path = common.write_replay(prop, {"property": prop, "kind": "failing-input", "suite": sname, "signature": sig,
                                          "case": small, "what": vv or v["desc"], "impl": im, "model": mo,
                                          "broken": proof_broken + [d["desc"][:300] for _, d in disagreements[:3]]})
        lines.append("VIOLATION property=%s replay=%s" % (prop, path))
        new_violations += 1
    if not unlisted(violations) and (proof_broken or disagreements):
        what = {"property": prop, "kind": "no-failing-input-found", "broken_proof_obligations": proof_broken,
                "broken_correspondence": [{"suite": s, "case": d["case"], "desc": d["desc"], "impl": d["impl"], "model": d["model"]}
                                          for s, d in disagreements[:5]],
                "searched_cases": searched, "build_log": aud.get("log", "")[-2000:]}
        if disagreements:
            s, d = disagreements[0]
            suite = common.get_suite(s)
            sig = suite.signature(d["case"], d["desc"], prop)
            small = common.shrink_case(suite, d["case"], prop, "diff", sig)
            what["shrunk_case"] = small
        path = common.write_replay(prop, what)
        lines.append("VIOLATION property=%s replay=%s no-failing-input-found" % (prop, path))
        new_violations += 1
    # every open known finding is replayed on every run
    for f in known:
        suite = common.get_suite(f["suite"])
        v, d, im, mo = common.recheck(suite, f["case"], prop)
        if v is not None and suite.signature(f["case"], v, prop) == f["signature"]:
            print("KNOWN-FINDING: property=%s %s: %s" % (prop, f["signature"], f["what"]))
        else:
            print("note: known finding %s no longer reproduces on this tree" % f["signature"])
    for l in lines:
        print(l)

    # ---------------------------------------------------------------- evidence
    n_eval = sum(r["n"] for r in results) + searched
    keys = set()
    feats = {}
    for r in results:
        keys |= r["keys"]
        for k, c in r["features"].items():
            feats[k] = feats.get(k, 0) + c
    obligations = len(aud["theorems"]) + aud["examples"]
    discharged = obligations if not proof_broken else 0
    samples = [s for r in results for s in r["samples"]][:3]
    samples += [{"theorem": n, "axioms": aud["axioms"].get(n)} for n in aud["theorems"][:40]]
    coverage = {
        "obligations": obligations,
        "discharged": discharged,
        "checker_cmd": "cd lean && lake build %s && lake env lean <generated #print axioms file>%s" % (reg["module"] if isinstance(reg["module"], str) else " ".join(reg["module"]), "; lake env leanchecker <modules>" if args.tier == "thorough" else ""),
        "trusted_base": common.TRUSTED_BASE + reg.get("trusted", []),
        "theorems": aud["theorems"],
        "nonvacuity_examples": aud["examples"],
        "evaluations": n_eval,
        "traces_validated_against_impl": n_eval,
        "distinct_nontrivial": len(keys),
        "rule": reg["rule"],
        "samples": samples,
        "input_distribution": dict(sorted(feats.items())),
        "suites": [r["suite"] for r in results],
        "correspondence_disagreements": len(disagreements),
        "oracle_violations": len(violations),
        "known_findings_matched": sorted(known_hit),
        "partial": reg.get("partial", []),
        "exhaustive_small_scope": [sname for sname, _ in reg["suites"] if args.tier == "thorough" and hasattr(common.get_suite(sname), "exhaustive")],
        "leanchecker": checker_note,
        "repo": str(common.REPO),
    }
    common.write_evidence(prop, args.tier, seed, coverage, reg.get("assumptions", []), time.time() - t0, new_violations)
    return 1 if new_violations else 0


def replay(prop: str, path: str) -> int:
    p = Path(path)
    if not p.is_absolute():
        p = common.VERIF / p
    data = json.loads(p.read_text())
    if "case" not in data and "shrunk_case" not in data and not data.get("broken_correspondence"):
        print("replay file names only broken proof obligations: %s" % data.get("broken_proof_obligations"))
        aud = common.audit(REGISTRY[prop]["module"])
        if aud["bad"]:
            print("VIOLATION property=%s replay=%s no-failing-input-found" % (prop, path))
            return 1
        return 0
    common.ensure_driver()
    if "case" in data:
        sname, case = data["suite"], data["case"]
    elif "shrunk_case" in data:
        sname, case = data["broken_correspondence"][0]["suite"], data["shrunk_case"]
    else:
        sname, case = data["broken_correspondence"][0]["suite"], data["broken_correspondence"][0]["case"]
    suite = common.get_suite(sname)
    v, d, im, mo = common.recheck(suite, case, prop)
    print("impl : %s" % json.dumps(im, sort_keys=True)[:2000])
    print("model: %s" % json.dumps(mo, sort_keys=True)[:2000])
    if v is not None:
        print("property oracle: %s" % v)
        print("VIOLATION property=%s replay=%s" % (prop, path))
        return 1
    if d is not None:
        print("correspondence: %s" % d)
        print("VIOLATION property=%s replay=%s no-failing-input-found" % (prop, path))
        return 1
    print("replay passes on this tree")
    return 0


if __name__ == "__main__":
    try:
        rc = main()
    except common.LeanFailure as e:
        print("INFRASTRUCTURE FAILURE: %s" % e)
        rc = 2
    sys.exit(rc)
