"""
Shared machinery of the pydsdl verification checks (see DESIGN.md section 4).

  * Lean side: build the proof modules of a property, audit their axioms, run the compiled model driver.
  * Correspondence: run a suite's generated cases on the real pydsdl (in-process, from $VERIF_REPO) and on the
    Lean model (line protocol), diff the canonical outcomes, run the property's own oracle on the
    implementation's outcome.
  * Verdicts, replay files, known findings, evidence.

Exit codes of a check: 0 = property held on everything explored, 1 = VIOLATION line printed,
2 = infrastructure failure (never used for a verdict).
"""
from __future__ import annotations

import fcntl
import hashlib
import json
import os
import random
import re
import subprocess
import sys
import time
import traceback
import typing
from concurrent.futures import ProcessPoolExecutor
from pathlib import Path

VERIF = Path(__file__).resolve().parent.parent
LEAN_DIR = VERIF / "lean"
REPO = Path(os.environ.get("VERIF_REPO", "/repo")).resolve()
DRIVER_EXE = LEAN_DIR / ".lake" / "build" / "bin" / "driver"
STD_AXIOMS = {"propext", "Classical.choice", "Quot.sound"}
GUARD = "PYDSDL_VERIF"

FORBIDDEN_RE = re.compile(r"\b(sorry|admit|native_decide|bv_decide|implemented_by|unsafe)\b|^\s*axiom\s|maxHeartbeats\s+0\b")


def import_pydsdl():
    """Import the real library from the tree under verification (never an installed copy)."""
    os.environ.setdefault(GUARD, "1")
    p = str(REPO)
    if sys.path[0] != p:
        sys.path.insert(0, p)
    import pydsdl  # type: ignore

    got = Path(pydsdl.__file__).resolve()
    if REPO not in got.parents:
        raise RuntimeError("pydsdl imported from %s, expected under %s" % (got, REPO))
    return pydsdl


# ----------------------------------------------------------------------------------------------- Lean side


class LeanFailure(Exception):
    pass


def _run(cmd, cwd=None, timeout=None, input_=None):
    return subprocess.run(cmd, cwd=cwd, timeout=timeout, input=input_, stdout=subprocess.PIPE, stderr=subprocess.STDOUT, text=True)


class lean_lock:
    """Exclusive lock on the Lean build directory (re-entrant within one process)."""

    _depth = 0
    _file = None

    def __enter__(self):
        cls = lean_lock
        if cls._depth == 0:
            (LEAN_DIR / ".lake").mkdir(exist_ok=True)
            cls._file = open(LEAN_DIR / ".lake" / "verif.lock", "w")
            fcntl.flock(cls._file, fcntl.LOCK_EX)
        cls._depth += 1
        return self

    def __exit__(self, *a):
        cls = lean_lock
        cls._depth -= 1
        if cls._depth == 0:
            fcntl.flock(cls._file, fcntl.LOCK_UN)
            cls._file.close()
            cls._file = None


TRANSLATOR_PROBLEMS: typing.List[str] = []


def regenerate() -> typing.List[str]:
    """Tie 1: re-translate the kernels of $VERIF_REPO into lean/Gen/*.lean (written only when the text changes).
    Must be called with the lean lock held.  Returns the translator's problems (untranslatable / missing targets)."""
    r = _run([sys.executable, str(VERIF / "tools" / "py2lean.py"), "--repo", str(REPO), "--out", str(LEAN_DIR / "Gen")], timeout=300)
    probs = [l for l in r.stdout.splitlines() if l.startswith("py2lean:")]
    if r.returncode not in (0, 3):
        probs.append("py2lean: translator crashed: " + r.stdout[-400:])
    return probs


def lake_build(targets: typing.List[str]) -> typing.Tuple[bool, str]:
    """Regenerate lean/Gen from the tree under verification, then build the given lake targets; returns (ok, log).
    A no-op when nothing changed.  Generation and build happen under one lock, so that concurrent checks of
    different trees (VERIF_REPO) cannot see each other's generated modules."""
    with lean_lock():
        probs = regenerate()
        TRANSLATOR_PROBLEMS[:] = probs
        r = _run(["lake", "build"] + targets, cwd=LEAN_DIR, timeout=3600)
    return r.returncode == 0, r.stdout


def strip_comments(src: str) -> str:
    out = []
    depth = 0
    i = 0
    while i < len(src):
        if src.startswith("/-", i):
            depth += 1
            i += 2
        elif src.startswith("-/", i) and depth:
            depth -= 1
            i += 2
        elif depth:
            i += 1
        elif src.startswith("--", i):
            j = src.find("\n", i)
            i = len(src) if j < 0 else j
        else:
            out.append(src[i])
            i += 1
    return "".join(out)


def lean_sources_of(module: str, seen=None) -> typing.List[Path]:
    """The project-local source files a module transitively imports (for the forbidden-token scan)."""
    seen = seen if seen is not None else {}
    p = LEAN_DIR / (module.replace(".", "/") + ".lean")
    if module in seen or not p.exists():
        return list(seen.values())
    seen[module] = p
    for m in re.findall(r"^\s*import\s+([\w.]+)", p.read_text(), flags=re.M):
        lean_sources_of(m, seen)
    return list(seen.values())


def theorem_names(module: str) -> typing.Tuple[typing.List[str], int]:
    """Names of the theorems stated in a Props module, and the number of non-vacuity examples."""
    src = strip_comments((LEAN_DIR / (module.replace(".", "/") + ".lean")).read_text())
    names = [n for n in re.findall(r"^\s*theorem\s+([\w.']+)", src, flags=re.M) if re.match(r"^C\d{2,3}\.", n)]
    examples = len(re.findall(r"^\s*example\b", src, flags=re.M))
    return names, examples


def audit(module) -> dict:
    """Audit one Props module or a list of them (merged result)."""
    if isinstance(module, str):
        return audit1(module)
    merged = {"module": list(module), "build_ok": True, "theorems": [], "examples": 0, "bad": [], "axioms": {}, "log": ""}
    for m in module:
        r = audit1(m)
        merged["build_ok"] = merged["build_ok"] and r["build_ok"]
        merged["theorems"] += r["theorems"]
        merged["examples"] += r["examples"]
        merged["bad"] += r["bad"]
        merged["axioms"].update(r["axioms"])
        merged["log"] += r["log"]
    return merged


def audit1(module: str) -> dict:
    """Build `module`, scan its sources, and `#print axioms` every property theorem in it (under one lock, so that a
    concurrent check of another tree cannot regenerate lean/Gen between the build and the axiom report)."""
    with lean_lock():
        return _audit1(module)


def _audit1(module: str) -> dict:
    res = {"module": module, "build_ok": False, "theorems": [], "examples": 0, "bad": [], "axioms": {}, "log": ""}
    ok, log = lake_build([module])
    res["build_ok"] = ok
    gens = {str(p.relative_to(LEAN_DIR))[:-5].replace("/", ".") for p in lean_sources_of(module)}
    for prob in TRANSLATOR_PROBLEMS:
        # "py2lean: [Gen.X] ..." concerns this property only when its proofs import Gen.X
        m = re.match(r"py2lean: \[(Gen\.\w+)\]", prob)
        if m is None or m.group(1) in gens:
            res["bad"].append(prob)
    if not ok:
        res["log"] = log[-4000:]
        res["bad"].append("build of %s failed" % module)
        return res
    for p in lean_sources_of(module):
        for ln, line in enumerate(strip_comments(p.read_text()).splitlines(), 1):
            if FORBIDDEN_RE.search(line):
                res["bad"].append("forbidden token in %s: %s" % (p.relative_to(LEAN_DIR), line.strip()[:80]))
    names, examples = theorem_names(module)
    res["theorems"], res["examples"] = names, examples
    if not names:
        res["bad"].append("no theorems in %s" % module)
        return res
    adir = LEAN_DIR / ".lake" / "audit"
    adir.mkdir(parents=True, exist_ok=True)
    f = adir / ("Audit_%s_%d.lean" % (module.replace(".", "_"), os.getpid()))
    f.write_text("import %s\n" % module + "".join("#print axioms %s\n" % n for n in names))
    try:
        r = _run(["lake", "env", "lean", str(f)], cwd=LEAN_DIR, timeout=1800)
    finally:
        f.unlink(missing_ok=True)
    out = r.stdout
    for n in names:
        m = re.search(r"'%s' depends on axioms: \[([^\]]*)\]" % re.escape(n), out, flags=re.S)
        if m:
            ax = {a.strip() for a in m.group(1).replace("\n", " ").split(",") if a.strip()}
        elif re.search(r"'%s' does not depend on any axioms" % re.escape(n), out):
            ax = set()
        else:
            res["bad"].append("no axiom report for %s" % n)
            continue
        res["axioms"][n] = sorted(ax)
        if not ax <= STD_AXIOMS:
            res["bad"].append("%s uses non-standard axioms %s" % (n, sorted(ax - STD_AXIOMS)))
    if r.returncode != 0:
        res["bad"].append("audit file failed: " + out[-500:])
    return res


def leanchecker(modules: typing.List[str]) -> typing.Tuple[bool, str]:
    with lean_lock():
        regenerate()
        b = _run(["lake", "build"] + modules, cwd=LEAN_DIR, timeout=3600)
        if b.returncode != 0:
            return False, b.stdout[-2000:]
        r = _run(["lake", "env", "leanchecker"] + modules, cwd=LEAN_DIR, timeout=3600)
    return r.returncode == 0, r.stdout[-2000:]


def ensure_driver() -> None:
    ok, log = lake_build(["driver"])
    if not ok or not DRIVER_EXE.exists():
        raise LeanFailure("cannot build the model driver:\n" + log[-3000:])


def run_model(suite: str, cases: typing.List[dict], timeout: float = 1800) -> typing.List[dict]:
    """Pipe the cases to the compiled Lean driver; returns one outcome per case (same order)."""
    if not cases:
        return []
    payload = "".join(json.dumps(c, separators=(",", ":")) + "\n" for c in cases)
    r = subprocess.run([str(DRIVER_EXE), suite], input=payload, stdout=subprocess.PIPE, stderr=subprocess.PIPE, text=True, timeout=timeout)
    lines = [l for l in r.stdout.split("\n") if l.strip()]  # not splitlines(): the driver writes NEL / U+2028 / U+2029 unescaped inside JSON strings
    if r.returncode != 0 or len(lines) != len(cases):
        raise LeanFailure("driver(%s): rc=%s, %d outcomes for %d cases: %s" % (suite, r.returncode, len(lines), len(cases), r.stderr[-800:]))
    outs = [json.loads(l) for l in lines]
    for c, o in zip(cases, outs):
        if o.get("id") != c.get("id"):
            raise LeanFailure("driver(%s): outcome id %r for case id %r" % (suite, o.get("id"), c.get("id")))
    return outs


# ----------------------------------------------------------------------------------------------- Suites


class Suite:
    """
    A correspondence suite.  Subclasses define:

      name            suite name understood by the Lean driver
      generate(rng, n, prop, tier)  -> list of JSON cases (dicts with "id")
      run_impl(case)  -> canonical outcome of the real library (dict), never raises
      compare(case, impl, model, prop) -> None or a description of the disagreement (property-relevant part only)
      oracle(case, impl, prop) -> None or a description of how the implementation's outcome violates `prop`
                                   (independent of the Lean model)
      signature(case, desc, prop) -> stable signature for known-findings matching
      shrink(case)    -> iterable of smaller cases
      features(case, impl) -> iterable of strings (distribution + non-triviality)
    """

    name = "?"

    def generate(self, rng: random.Random, n: int, prop: str, tier: str) -> typing.List[dict]:
        raise NotImplementedError

    def corpus(self, prop: str) -> typing.List[dict]:
        return []

    def run_impl(self, case: dict) -> dict:
        raise NotImplementedError

    def model_case(self, case: dict) -> dict:
        return case

    def compare(self, case: dict, impl: dict, model: dict, prop: str) -> typing.Optional[str]:
        a = {k: v for k, v in impl.items() if not k.startswith("soft")}
        b = {k: v for k, v in model.items() if k != "id" and not k.startswith("soft")}
        return None if a == b else "impl=%s model=%s" % (json.dumps(a, sort_keys=True)[:600], json.dumps(b, sort_keys=True)[:600])

    def oracle(self, case: dict, impl: dict, prop: str) -> typing.Optional[str]:
        return None

    def signature(self, case: dict, desc: str, prop: str) -> str:
        return "unclassified"

    def shrink(self, case: dict) -> typing.Iterable[dict]:
        return []

    def features(self, case: dict, impl: dict) -> typing.Iterable[str]:
        return []

    def nontrivial(self, case: dict, impl: dict) -> bool:
        return True

    def key(self, case: dict) -> str:
        c = dict(case)
        c.pop("id", None)
        return hashlib.sha256(json.dumps(c, sort_keys=True).encode()).hexdigest()[:16]


SUITES: typing.Dict[str, typing.Callable[[], Suite]] = {}


def get_suite(name: str) -> Suite:
    import importlib

    mod = importlib.import_module("suites." + name)
    return mod.SUITE  # type: ignore


class _Timeout(Exception):
    pass


def _alarm(signum, frame):
    raise _Timeout()


def _guarded_impl(suite: "Suite", case: dict, seconds: int = 120) -> dict:
    """Run the implementation on one case under a wall-clock guard (a hang is an outcome, not a stuck check)."""
    import signal

    import resource

    old = signal.signal(signal.SIGALRM, _alarm)
    signal.alarm(seconds)
    soft, hard = resource.getrlimit(resource.RLIMIT_AS)
    lim = 2 * 1024**3
    try:
        # an implementation that starts enumerating astronomically large sets must fail with MemoryError here
        resource.setrlimit(resource.RLIMIT_AS, (lim if hard == resource.RLIM_INFINITY else min(lim, hard), hard))
    except (ValueError, OSError):
        pass
    try:
        return suite.run_impl(case)
    except _Timeout:
        return {"timeout": True}
    except MemoryError:
        return {"memory_error": True}
    finally:
        signal.alarm(0)
        signal.signal(signal.SIGALRM, old)
        try:
            resource.setrlimit(resource.RLIMIT_AS, (soft, hard))
        except (ValueError, OSError):
            pass


def _chunk_worker(args) -> dict:
    suite_name, prop, seed, idx, n, tier = args
    sys.setrecursionlimit(10000)
    t0 = time.time()
    suite = get_suite(suite_name)
    rng = random.Random("%s/%s/%d/%d" % (suite_name, prop, seed, idx))
    res = {"n": 0, "disagreements": [], "violations": [], "features": {}, "keys": [], "samples": [], "errors": []}
    try:
        if idx == -1:
            cases = suite.corpus(prop)
        elif idx <= -2:  # exhaustive small scope (thorough tier): part (-idx-2) of n parts
            cases = suite.exhaustive(prop, -idx - 2, n)
        else:
            cases = suite.generate(rng, n, prop, tier)
        for i, c in enumerate(cases):
            c["id"] = i
        impls = []
        broken = 0
        t_impl = time.time()
        for c in cases:
            t1 = time.time()
            im = _guarded_impl(suite, c)
            impls.append(im)
            if im.get("timeout") or im.get("memory_error") or time.time() - t1 > 30:
                broken += 1
                if broken >= 3:  # the tree under test hangs / explodes: no point in burning the whole budget
                    break
            if time.time() - t_impl > 300:  # a chunk is sized for seconds; a tree that makes it take minutes is cut short
                break
        cases = cases[: len(impls)]
        models = run_model(suite.name, [suite.model_case(c) for c in cases])
        for c, im, mo in zip(cases, impls, models):
            res["n"] += 1
            feats = list(suite.features(c, im))
            for f in feats:
                res["features"][f] = res["features"].get(f, 0) + 1
            if suite.nontrivial(c, im):
                res["keys"].append(suite.key(c))
            v = suite.oracle(c, im, prop)
            if v is not None:
                res["violations"].append({"case": c, "impl": im, "model": mo, "desc": v})
                continue
            d = suite.compare(c, im, mo, prop)
            if d is not None:
                res["disagreements"].append({"case": c, "impl": im, "model": mo, "desc": d})
        res["samples"] = [{"case": c, "impl": im} for c, im in list(zip(cases, impls))[:2]]
    except Exception:  # infrastructure problem, reported as such
        res["errors"].append(traceback.format_exc()[-3000:])
    res["wall"] = time.time() - t0
    return res


def run_suite(suite_name: str, prop: str, seed: int, total: int, tier: str, workers: int = 14, chunk: int = 0) -> dict:
    """Run corpus + `total` generated cases of a suite in parallel chunks; merge the chunk summaries."""
    ensure_driver()
    if not chunk:
        chunk = max(20, min(400, total // max(1, workers)))
    jobs = [(suite_name, prop, seed, -1, 0, tier)]
    if tier == "thorough" and hasattr(get_suite(suite_name), "exhaustive"):
        parts = 2 * workers
        jobs += [(suite_name, prop, seed, -2 - k, parts, tier) for k in range(parts)]
    idx = 0
    left = total
    while left > 0:
        n = min(chunk, left)
        jobs.append((suite_name, prop, seed, idx, n, tier))
        idx += 1
        left -= n
    merged = {"suite": suite_name, "n": 0, "disagreements": [], "violations": [], "features": {}, "keys": set(), "samples": [], "errors": []}
    with ProcessPoolExecutor(max_workers=workers) as ex:
        for r in ex.map(_chunk_worker, jobs):
            merged["n"] += r["n"]
            merged["disagreements"] += r["disagreements"]
            merged["violations"] += r["violations"]
            merged["errors"] += r["errors"]
            merged["keys"].update(r["keys"])
            for k, v in r["features"].items():
                merged["features"][k] = merged["features"].get(k, 0) + v
            if len(merged["samples"]) < 3:
                merged["samples"] += r["samples"][:1]
    return merged


def recheck(suite: Suite, case: dict, prop: str) -> typing.Tuple[typing.Optional[str], typing.Optional[str], dict, dict]:
    """Re-run one case on both sides: (oracle violation, correspondence disagreement, impl, model)."""
    c = dict(case)
    c["id"] = 0
    im = _guarded_impl(suite, c)
    mo = run_model(suite.name, [suite.model_case(c)])[0]
    return suite.oracle(c, im, prop), suite.compare(c, im, mo, prop), im, mo


def shrink_case(suite: Suite, case: dict, prop: str, want: str, sig: str, budget: int = 300) -> dict:
    """Greedy delta debugging: keep a smaller case while it still fails the same way (`want` = 'oracle'|'diff')."""
    cur = case
    steps = 0
    improved = True
    deadline = time.time() + 30
    while improved and steps < budget and time.time() < deadline:
        improved = False
        for cand in suite.shrink(cur):
            steps += 1
            if steps >= budget or time.time() > deadline:
                break
            try:
                v, d, _, _ = recheck(suite, cand, prop)
            except Exception:
                continue
            desc = v if want == "oracle" else (d if v is None else None)
            if desc is not None and suite.signature(cand, desc, prop) == sig:
                cur = cand
                improved = True
                break
    return cur


# ----------------------------------------------------------------------------------------------- Findings, replays, evidence


def load_known_findings() -> typing.List[dict]:
    p = VERIF / "known_findings.json"
    if not p.exists():
        return []
    return json.loads(p.read_text()).get("findings", [])


def write_replay(prop: str, payload: dict) -> str:
    d = VERIF / "replays"
    d.mkdir(exist_ok=True)
    body = json.dumps(payload, indent=1, sort_keys=True, default=str)
    h = hashlib.sha256(body.encode()).hexdigest()[:12]
    p = d / ("%s-%s.json" % (prop, h))
    p.write_text(body + "\n")
    return str(p.relative_to(VERIF))


def write_evidence(prop: str, tier: str, seed: int, coverage: dict, assumptions: typing.List[str], wall: float, violations: int) -> None:
    # evidence/ holds runs against /repo itself only; runs against a scratch copy (VERIF_REPO, used by the seed and
    # false-alarm tooling) must not overwrite it
    d = VERIF / "evidence" if REPO == Path("/repo").resolve() else VERIF / "replays" / "evidence-other-tree"
    d.mkdir(parents=True, exist_ok=True)
    ev = {
        "property_id": prop,
        "tier": tier,
        "seed": seed,
        "level": "proof",
        "coverage": coverage,
        "assumptions": assumptions,
        "wall_s": round(wall, 2),
        "violations": violations,
    }
    (d / (prop + ".json")).write_text(json.dumps(ev, indent=1, sort_keys=True, default=str) + "\n")


TRUSTED_BASE = [
    "Lean 4.33.0 kernel (thorough tier: re-checked with leanchecker)",
    "axioms: propext, Classical.choice, Quot.sound only (audited with #print axioms on every run; no sorry/native_decide/bv_decide/own axioms)",
    "Mathlib v4.33.0 modules imported by Proofs/ and Props/",
    "hand-written Lean model (lean/Model) tied to /repo by the correspondence suites named in this file: differential testing, not proof",
    "where the property module list contains a ...Gen module: tools/py2lean.py + tools/py2lean_layout.py (translator, re-run on the working tree on every run) and "
    "lean/PyLib.lean (meaning of the translated Python fragment: naturals with checked subtraction, explicit exceptions, sets as duplicate-free lists); "
    "the bridge theorems in lean/Bridge are kernel-checked, the translator and PyLib are trusted",
    "Spec definitions in lean/Props and lean/Proofs (my formalisation of the property statement)",
    "correspondence harness (harness/*.py, generators, canonicalisation), CPython 3.12",
]
