"""
Suite `values` (C18): pairs of value objects of the same class built INDEPENDENTLY from equal or different
descriptions — bit length sets, types (primitives, arrays, composites), attributes (fields, constants), expression
values (Rational, Boolean, String, Set) — observed through ==, hash, pickling and mutation of every list returned by
a public accessor.

Two further case classes (both are `type` / `attr` / `value` cases for the model, which is indifferent to them):
  * histories (`hist`): immutable values cannot remember what was done with them, so every object on the way to the
    final one may be USED (hashed, compared, kept in a set / dict, pickled, copied, queried, wrapped into another
    object) BEFORE it is handed to the next public constructor (array, field / padding / constant, structure, union,
    delimited, service); the result must honour the eq / hash / container / pickle contract against a twin built
    without any such history, member by member;
  * pairs of DIFFERENT kinds with one name (`xkind`): structure / union / delimited / service with the same full
    name and version, X against an array of X, padding against a nameless void field, a rational against a boolean ...

Outcome: {"eq", "sym", "refl", "hash_eq", "alias_ok", "pickle_ok", "str_a", "str_b"}.
The Lean model decides `eq` (and the hash-key equality) from the keys the library's __eq__/__hash__ inspect.
Oracle (independent): reflexive, symmetric, eq -> equal hashes, equal descriptions -> equal objects, objects that
differ in class, string form or (min, max, residues mod 32) of the bit length set -> unequal, accessor lists are
copies, pickling round-trips.
"""
from __future__ import annotations

import copy
import pickle
import random
import typing
import unicodedata
from fractions import Fraction
from pathlib import Path

import common
from suites import bls as B
from suites import layout as L


# ------------------------------------------------------------------------------- descriptions -> strings / keys

def type_str(t, names: L._Names) -> str:
    """The normalised string form the Specification prescribes for a type expression."""
    k = t[0]
    if k == "prim":
        kind = t[2]
        if kind in ("bool", "byte", "utf8"):
            return kind
        cm = "truncated " if kind.endswith("trunc") else "saturated "
        base = "float" if kind.startswith("float") else "int" if kind.startswith("int") else "uint"
        return cm + base + str(t[1])
    if k == "void":
        return "void%d" % t[1]
    if k == "farr":
        return "%s[%d]" % (type_str(t[1], names), t[2])
    if k == "varr":
        return "%s[<=%d]" % (type_str(t[1], names), t[2])
    if k == "delim":
        return type_str(t[1], names)
    if k == "svc":
        # request and response sections are <service>.Request / .Response; the service takes the next name
        for sec in (t[1], t[2]):
            body = sec[1] if sec[0] == "delim" else sec
            for f in body[1]:
                type_str(f, names)
        return "ns.%s.1.0" % names.fresh()
    # composites are named ns.T<n> in construction order (children first), like layout.build_impl does
    for f in t[1]:
        type_str(f, names)
    return "ns.%s.1.0" % names.fresh()


def type_cls(t) -> str:
    k = t[0]
    if k == "prim":
        kind = t[2]
        return {"bool": "BooleanType", "byte": "ByteType", "utf8": "UTF8Type"}.get(
            kind, "FloatType" if kind.startswith("float") else "SignedIntegerType" if kind.startswith("int") else "UnsignedIntegerType")
    return {"void": "VoidType", "farr": "FixedLengthArrayType", "varr": "VariableLengthArrayType", "struct": "StructureType",
            "union": "UnionType", "delim": "DelimitedType", "svc": "ServiceType"}[k]


def bls_key(t):
    if t[0] == "svc":
        return ("no bit length set",)
    nodes: list = []
    r = L.s_nodes(L.strip(t), nodes)
    return (B.o_min(nodes, r), B.o_max(nodes, r), tuple(sorted(B.o_res(nodes, r, 32))))


# ------------------------------------------------------------------------------- generators

def mutate_type(rng, t):
    """A description that differs from `t` in one place (possibly only deep inside a same-named composite)."""
    t = copy.deepcopy(t)
    path = []
    cur = t
    while True:
        k = cur[0]
        opts = ["here"]
        if k in ("farr", "varr", "delim"):
            opts += ["down", "down"]
        if k in ("struct", "union") and cur[1]:
            opts += ["down", "down"]
        c = rng.choice(opts)
        if c == "here":
            break
        if k in ("farr", "varr", "delim"):
            cur = cur[1]
        else:
            cur = cur[1][rng.randrange(len(cur[1]))]
    k = cur[0]
    if k == "prim":
        kind = cur[2]
        if kind in ("bool", "byte", "utf8"):
            cur[:] = ["prim", 8, "uintsat"] if kind != "bool" else ["prim", 1, "uintsat"]
        else:
            ch = rng.choice(["width", "cast", "sign"])
            if ch == "width" and not kind.startswith("float"):
                cur[1] = cur[1] + 1 if cur[1] < 64 else cur[1] - 1
                if kind.startswith("int") and cur[1] < 2:
                    cur[1] = 2
            elif ch == "cast" and not kind.startswith("int"):
                cur[2] = kind[:-5] + "sat" if kind.endswith("trunc") else kind[:-3] + "trunc"
            elif kind.startswith("float"):
                cur[1] = {16: 32, 32: 64, 64: 16}[cur[1]]
            elif kind.startswith("uint") and cur[1] >= 2:
                cur[2] = "intsat"
            else:
                cur[1] = cur[1] + 1 if cur[1] < 64 else cur[1] - 1
    elif k == "void":
        cur[1] = cur[1] + 1 if cur[1] < 64 else 1
    elif k in ("farr", "varr"):
        ch = rng.choice(["cap", "cap", "kind"])
        if ch == "cap":
            cur[2] = cur[2] + rng.choice([1, 32, 256])
        else:
            cur[0] = "varr" if k == "farr" else "farr"
            if cur[1][0] == "prim" and cur[1][2] == "utf8":
                cur[1] = ["prim", 8, "byte"]
    elif k in ("struct", "union"):
        ch = rng.choice(["add", "drop", "swap"])
        if ch == "add" or len(cur[1]) < 3:
            cur[1].append(["prim", rng.choice([1, 8, 16, 32]), "uintsat"])
        elif ch == "drop":
            cur[1].pop()
        else:
            cur[1][0], cur[1][-1] = cur[1][-1], cur[1][0]
    elif k == "delim":
        cur[2] += 8 * rng.choice([1, 4, 32])
    return t


def gen_value(rng, kinds=("rat", "rat", "bool", "str", "str", "set")):
    k = rng.choice(kinds)
    if k == "rat":
        return ["rat", rng.choice([0, 1, -1, 2, 3, 7, 255, -128, 2**64, 10**30]), rng.choice([1, 1, 2, 3, 7, 1000])]
    if k == "bool":
        return ["bool", rng.random() < 0.5]
    if k == "str":
        s = rng.choice(["", "a", "A", "abc", "café", "café", "Å", "Å", "Å", "가", "가", "x y", "\U0001f600", "q̣̇", "q̣̇"])
        return ["str", [ord(c) for c in s]]
    n = rng.randint(1, 4)
    kind = rng.choice(["rat", "str"])
    return ["set", [gen_value(rng, (kind,)) for _ in range(n)]]


def variant_value(rng, v):
    """Same mathematical value written differently, or a different one."""
    v = copy.deepcopy(v)
    ch = rng.random()
    if v[0] == "rat":
        if ch < 0.5:
            m = rng.choice([2, 3, 10, 2**40])
            return ["rat", v[1] * m, v[2] * m]
        return ["rat", v[1] + rng.choice([1, -1, 2**64]), v[2]]
    if v[0] == "bool":
        return ["bool", v[1] if ch < 0.5 else not v[1]]
    if v[0] == "str":
        s = "".join(chr(c) for c in v[1])
        if ch < 0.35:
            return v
        if ch < 0.7:
            alt = unicodedata.normalize(rng.choice(["NFC", "NFD"]), s)
            return ["str", [ord(c) for c in alt]]
        return ["str", v[1] + [ord("z")]]
    if ch < 0.4:
        e = list(v[1])
        rng.shuffle(e)
        return ["set", e + e[:1]]
    if ch < 0.7:
        return ["set", [variant_value(rng, x) for x in v[1]]]
    return ["set", v[1][:-1] if len(v[1]) > 1 else v[1] + [v[1][0][:1] + ([v[1][0][1] + 1, v[1][0][2]] if v[1][0][0] == "rat" else [v[1][0][1] + [33]])]]


def gen_case(rng, prop):
    if rng.random() < 0.3:
        return gen_special(rng, prop)
    kind = rng.choice(["bls", "type", "type", "type", "attr", "value", "value"])
    if kind == "bls":
        for _ in range(20):
            c = B.gen_case(rng, prop)
            n = len(c["nodes"])
            i, j = rng.randrange(n), rng.randrange(n)
            if rng.random() < 0.3:
                # an independently built copy of the same expression
                c["nodes"] = c["nodes"] + copy.deepcopy(c["nodes"])
                c["how"] = c["how"] + c["how"]
                j = i + n
                for node in c["nodes"][n:]:
                    if node[0] in ("pad", "rep", "rrep"):
                        node[1] += n
                    elif node[0] in ("cat", "uni"):
                        node[1] = [x + n for x in node[1]]
            if all(B._cost(c["nodes"], x, 32, {}) <= B.MOD_BUDGET for x in (i, j)):
                return {"kind": "bls", "nodes": c["nodes"], "how": c["how"], "a": i, "b": j}
    if kind in ("type", "attr"):
        for _ in range(50):
            t = L.gen_ty(rng, rng.choice([1, 2, 2, 3]), top=rng.random() < 0.7)
            if not L.s_valid(L.strip(t)):
                continue
            if kind == "attr" and t[0] == "prim" and t[2] in ("byte", "utf8"):
                continue
            t2 = copy.deepcopy(t) if rng.random() < 0.4 else mutate_type(rng, t)
            if not L.s_valid(L.strip(t2)):
                continue
            # equality / hash of the type AND of every member type are queried (nested-member checks): each must be cheap
            if not (affordable(t) and affordable(t2)):
                continue
            if kind == "type":
                return {"kind": "type", "a": desc_key(t), "b": desc_key(t2)}
            # attributes: fields, or constants of primitive type
            if t[0] == "prim" and t2[0] == "prim" and t[2] not in ("byte", "utf8") and t2[2] not in ("byte", "utf8") and rng.random() < 0.6:
                va = const_value(rng, t)
                vb = const_value(rng, t2)
                if rng.random() < 0.5 and (t[2] == "bool") == (t2[2] == "bool") and t[2].startswith("float") == t2[2].startswith("float") and t == t2:
                    vb = va
                na = rng.choice(["A", "B"])
                return {"kind": "attr", "a": {"type": desc_key(t), "name": na, "value": va},
                        "b": {"type": desc_key(t2), "name": na if rng.random() < 0.7 else "C", "value": vb}}
            na = rng.choice(["x", "y"])
            return {"kind": "attr", "a": {"type": desc_key(t), "name": na, "value": None},
                    "b": {"type": desc_key(t2), "name": na if rng.random() < 0.7 else "z", "value": None}}
    v = gen_value(rng)
    return {"kind": "value", "a": v, "b": variant_value(rng, v)}


def sub_types(t):
    """The type description and every type nested in it (a delimited type hides its members from its own bit length set,
    but they are still objects whose equality and layout the suite queries)."""
    if t[0] == "svc":
        yield from sub_types(t[1])
        yield from sub_types(t[2])
        return
    yield t
    if t[0] in ("farr", "varr", "delim"):
        yield from sub_types(t[1])
    elif t[0] in ("struct", "union"):
        for f in t[1]:
            yield from sub_types(f)


def affordable(t) -> bool:
    for st in sub_types(t):
        nodes: list = []
        if B._cost(nodes, L.s_nodes(L.strip(st), nodes), 32, {}) > B.MOD_BUDGET:
            return False
    return True


def const_value(rng, t):
    kind = t[2]
    if kind == "bool":
        return ["bool", rng.random() < 0.5]
    if kind.startswith("float"):
        return ["rat", rng.choice([0, 1, -3, 5]), rng.choice([1, 2, 4])]
    n = t[1]
    if kind.startswith("int"):
        return ["rat", rng.choice([0, 1, -1, -(2 ** (n - 1)), 2 ** (n - 1) - 1]), 1]
    return ["rat", rng.choice([0, 1, 2**n - 1]), 1]


def desc_key(t):
    return {"ty": t, "cls": type_cls(t), "str": type_str(t, L._Names())}


# ------------------------------------------------------------------------------- implementation side

def build_value(pydsdl, v):
    if v[0] == "rat":
        return pydsdl.Rational(Fraction(v[1], v[2]))
    if v[0] == "bool":
        return pydsdl.Boolean(v[1])
    if v[0] == "str":
        return pydsdl.String("".join(chr(c) for c in v[1]))
    return pydsdl.Set([build_value(pydsdl, x) for x in v[1]])


def build_attr(pydsdl, d, hist: typing.Optional[list] = None, record: typing.Optional[list] = None):
    if "hist" in d and hist is None:
        hist = d["hist"]
    ty, h = build_any(pydsdl, d["type"]["ty"], hist)      # type: ignore  # (build_any is defined below)
    if record is not None:
        record.append(h)
    if d["value"] is None:
        if d["type"]["ty"][0] == "void" and not d.get("as_field"):
            return pydsdl.PaddingField(ty)
        return pydsdl.Field(ty, d["name"])
    return pydsdl.Constant(ty, d["name"], build_value(pydsdl, d["value"]))


# ------------------------------------------------------------------------------- histories and services

HIST_OPS = ["hash", "hash", "set", "dict", "eq", "str", "pickle", "copy", "deepcopy", "bls", "attrs", "wrap"]


def has_svc(t) -> bool:
    return t[0] == "svc"


def n_nodes(t) -> int:
    """Number of objects the constructors build for a description (= number of history slots, in completion order)."""
    k = t[0]
    if k in ("prim", "void"):
        return 1
    if k in ("farr", "varr", "delim"):
        return 1 + n_nodes(t[1])
    if k == "svc":
        return 1 + n_nodes(t[1]) + n_nodes(t[2])
    return 1 + sum(n_nodes(f) for f in t[1])


class _Hist:
    """`plan`: {slot: [op, ...]} - what is done with the object completed in that slot before it is used any further."""

    def __init__(self, pydsdl, plan):
        self.pydsdl = pydsdl
        self.plan = {int(k): v for k, v in (plan or [])}
        self.n = 0
        self.seen: list = []      # (object, hash it had when it was used)
        self.notes: list = []     # contract violations observed while using an object

    def done(self, obj):
        ops = self.plan.get(self.n, ())
        self.n += 1
        for op in ops:
            use(self, obj, op)
        return obj


def use(h: "_Hist", obj, op: str) -> None:
    """A read-only use of a value object (must not be able to influence anything built from it later)."""
    pydsdl = h.pydsdl
    if op == "hash":
        h.seen.append((obj, hash(obj)))
    elif op == "set":
        if obj not in {obj}:
            h.notes.append("%s is not found in a set holding it" % obj)
        h.seen.append((obj, hash(obj)))
    elif op == "dict":
        if {obj: 1}.get(obj) != 1:
            h.notes.append("%s is not found in a dict keyed by it" % obj)
    elif op == "eq":
        if not (obj == obj) or obj != copy.copy(obj):
            h.notes.append("%s is not equal to itself / its copy" % obj)
    elif op == "str":
        str(obj), repr(obj)
    elif op == "pickle":
        r = pickle.loads(pickle.dumps(obj))
        if not (r == obj and hash(r) == hash(obj)):
            h.notes.append("%s: unpickled copy differs / hashes differently" % obj)
    elif op == "copy":
        hash(copy.copy(obj))
    elif op == "deepcopy":
        c = copy.deepcopy(obj)
        if not (c == obj and hash(c) == hash(obj)):
            h.notes.append("%s: deep copy differs / hashes differently" % obj)
    elif op == "bls":
        try:
            b = obj.bit_length_set
            b.min, b.max, sorted(b % 32), obj.alignment_requirement
        except TypeError:
            pass
    elif op == "attrs":
        if isinstance(obj, pydsdl.CompositeType):
            obj.attributes, obj.fields, obj.constants, obj.extent if not isinstance(obj, pydsdl.ServiceType) else None
            try:
                for _f, o in obj.iterate_fields_with_offsets():
                    o.min, o.max
            except TypeError:
                pass
    elif op == "wrap":
        # the object becomes part of OTHER objects first (which are hashed and dropped)
        if isinstance(obj, pydsdl.VoidType):
            hash(pydsdl.PaddingField(obj))
            return
        if isinstance(obj, pydsdl.ServiceType):
            return
        hash(pydsdl.Field(obj, "w"))
        if not (isinstance(obj, pydsdl.CompositeType) and obj.has_parent_service):
            hash(pydsdl.VariableLengthArrayType(obj, 3))
        if isinstance(obj, (pydsdl.StructureType, pydsdl.UnionType)) and not obj.has_parent_service:
            ext = -(-obj.bit_length_set.max // 8) * 8 + 64
            hash(pydsdl.DelimitedType(obj, ext))
    else:
        raise ValueError(op)


def build2(pydsdl, t, names: L._Names, h: _Hist, section: typing.Optional[typing.Tuple[str, str]] = None):
    """Like layout.build_impl (same names, same constructor arguments), plus services, plus the history hook after every
    completed object.  `section` = (service name, "Request" | "Response") for the two sections of a service."""
    k = t[0]
    if k in ("prim", "void"):
        return h.done(L.build_impl(pydsdl, t, names))
    if k == "farr":
        return h.done(pydsdl.FixedLengthArrayType(build2(pydsdl, t[1], names, h), t[2]))
    if k == "varr":
        return h.done(pydsdl.VariableLengthArrayType(build2(pydsdl, t[1], names, h), t[2]))
    if k == "delim":
        return h.done(pydsdl.DelimitedType(build2(pydsdl, t[1], names, h, section), t[2]))
    CM = pydsdl.PrimitiveType.CastMode
    if k in ("struct", "union"):
        attrs = []
        for i, f in enumerate(t[1]):
            ft = build2(pydsdl, f, names, h)
            attrs.append(pydsdl.PaddingField(ft) if f[0] == "void" else pydsdl.Field(ft, "f%d" % i))
        for ci in range(t[2] if len(t) > 2 else 0):
            attrs.append(pydsdl.Constant(pydsdl.UnsignedIntegerType(8, CM.SATURATED), "C%d" % ci, pydsdl.Rational(ci % 256)))
        cls = pydsdl.StructureType if k == "struct" else pydsdl.UnionType
        name = "ns." + names.fresh() if section is None else "ns.%s.%s" % section
        return h.done(cls(name=name, version=pydsdl.Version(1, 0), attributes=attrs, deprecated=False, fixed_port_id=None,
                          source_file_path=Path("/nonexistent/ns/X.1.0.dsdl"), has_parent_service=section is not None))
    if k == "svc":
        # the sections' members are built first (they take the names before the service does, as in type_str)
        cnt = sum(1 for sec in (t[1], t[2]) for st in sub_types(sec) if st[0] in ("struct", "union")) - 2
        svc_name = "T%d" % (names.n + cnt + 1)
        req = build2(pydsdl, t[1], names, h, (svc_name, "Request"))
        resp = build2(pydsdl, t[2], names, h, (svc_name, "Response"))
        got = names.fresh()
        assert got == svc_name, (got, svc_name)
        return h.done(pydsdl.ServiceType(req, resp, None))
    raise ValueError(k)


def build_any(pydsdl, t, plan=None):
    """(object, history record): layout.build_impl for plain descriptions, build2 for histories / services."""
    if plan is None and not has_svc(t):
        return L.build_impl(pydsdl, t, L._Names()), None
    h = _Hist(pydsdl, plan)
    return build2(pydsdl, t, L._Names(), h), h


def twin_diff(pydsdl, obj, twin, where="object") -> typing.Optional[str]:
    """`obj` and `twin` were built from ONE description (by different histories): they, and their members pairwise, are
    interchangeable values."""
    if type(obj) is not type(twin):
        return "%s: classes %s / %s" % (where, type(obj).__name__, type(twin).__name__)
    if not (obj == twin and twin == obj) or obj != twin:
        return "%s %s: not equal to a twin built independently from the same description" % (where, obj)
    if hash(obj) != hash(twin):
        return "%s %s: equal to its independently built twin but hashes differently" % (where, obj)
    if twin not in {obj} or obj not in {twin} or len({obj, twin}) != 1 or {obj: 1}.get(twin) != 1:
        return "%s %s: set / dict lookup by an equal twin fails" % (where, obj)
    if str(obj) != str(twin) or layout_sig(pydsdl, obj) != layout_sig(pydsdl, twin):
        return "%s %s: string form / layout differ from the twin's" % (where, obj)
    if isinstance(obj, pydsdl.ArrayType):
        return twin_diff(pydsdl, obj.element_type, twin.element_type, where + ".element_type")
    if isinstance(obj, pydsdl.DelimitedType):
        r = twin_diff(pydsdl, obj.inner_type, twin.inner_type, where + ".inner_type")
        if r:
            return r
    if isinstance(obj, pydsdl.CompositeType):
        for i, (x, y) in enumerate(zip(obj.attributes, twin.attributes)):
            if not (x == y and y == x) or hash(x) != hash(y) or str(x) != str(y) or type(x) is not type(y):
                return "%s.attributes[%d] (%s): differs from the twin's / hashes differently" % (where, i, x)
            if not isinstance(obj, pydsdl.DelimitedType):
                r = twin_diff(pydsdl, x.data_type, y.data_type, "%s.attributes[%d].data_type" % (where, i))
                if r:
                    return r
    return None


def history_check(pydsdl, obj, desc_ty, h: typing.Optional[_Hist], rebuild) -> typing.Optional[str]:
    if h is None or not h.plan:
        return None
    if h.notes:
        return h.notes[0]
    for o, was in h.seen:
        if hash(o) != was:
            return "the hash of %s changed after it was used to construct another object" % o
    return twin_diff(pydsdl, obj, rebuild())


def gen_hist(rng, t, extra: int = 0) -> list:
    n = n_nodes(t) + extra
    slots = [i for i in range(n) if rng.random() < 0.45] or [rng.randrange(n)]
    if rng.random() < 0.3 and n >= 2:
        slots = sorted(set(slots) | {n - 2})    # the object handed to the last constructor
    return [[i, [rng.choice(HIST_OPS) for _ in range(rng.choice([1, 1, 2, 3]))]] for i in slots]


def gen_fields(rng, union: bool):
    n = rng.choice([2, 2, 3]) if union else rng.choice([1, 2, 2, 3])
    return [L.gen_field(rng, rng.choice([0, 0, 1]), union) for _ in range(n)]


def ext_for(rng, inner) -> int:
    nodes: list = []
    try:
        mx = B.o_max(nodes, L.s_nodes(L.strip(inner), nodes)) if L.s_valid(L.strip(inner)) else 64
    except Exception:   # an invalid member somewhere below: the case is discarded by the caller's validity filter
        mx = 64
    return -(-mx // 8) * 8 + 8 * rng.choice([0, 1, 4, 32])


def gen_svc(rng):
    """A service whose RESPONSE holds no composites, so that the service gets the name its request alone would get."""
    rk = rng.choice(["struct", "struct", "union"])
    req = [rk, gen_fields(rng, rk == "union")]
    resp = ["struct", [L.gen_prim_field(rng) for _ in range(rng.choice([0, 1, 2]))]]
    if rng.random() < 0.3:
        req = ["delim", req, ext_for(rng, req)]
    if rng.random() < 0.3:
        resp = ["delim", resp, ext_for(rng, resp)]
    return ["svc", req, resp]


def gen_xkind(rng):
    """Two descriptions of DIFFERENT kinds that get the same full name and version (or differ by one array level)."""
    ch = rng.choice(["svc-msg", "svc-msg", "svc-svc", "struct-union", "sealed-delim", "delim-delim", "array-of"])
    if ch in ("svc-msg", "svc-svc"):
        a = gen_svc(rng)
        if ch == "svc-svc":
            b = copy.deepcopy(a)
            if rng.random() < 0.5:
                b[2] = ["struct", [L.gen_prim_field(rng)]]     # same kind, same name: the property demands nothing
            return a, b
        b = copy.deepcopy(a[1])                                 # the request section's definition as a message of its own
        x = rng.random()
        if x < 0.3:
            b = b[1] if b[0] == "delim" else ["delim", b, ext_for(rng, b)]
        elif x < 0.5:
            body = b[1] if b[0] == "delim" else b
            nv = [f for f in body[1] if f[0] != "void"]
            if body[0] == "struct" and len(nv) >= 2:
                body[0], body[1] = "union", nv
            elif body[0] == "union":
                body[0] = "struct"
        return (a, b) if rng.random() < 0.5 else (b, a)
    if ch == "array-of":
        a = L.gen_ty(rng, rng.choice([0, 1, 2]), top=rng.random() < 0.5)
        e = ["prim", 8, "byte"] if a[0] == "prim" and a[2] == "utf8" else a
        b = [rng.choice(["farr", "varr"]), copy.deepcopy(e), rng.choice([1, 1, 2])]
        return (a, b) if rng.random() < 0.5 else (b, a)
    fs = gen_fields(rng, True)
    if ch == "struct-union":
        a, b = ["struct", fs], ["union", copy.deepcopy(fs)]
        if rng.random() < 0.4:
            e = ext_for(rng, a)
            a, b = ["delim", a, e], ["delim", b, max(e, ext_for(rng, b))]
    elif ch == "sealed-delim":
        a = [rng.choice(["struct", "union"]), fs]
        b = ["delim", copy.deepcopy(a), ext_for(rng, a)]
    else:
        a = ["delim", ["struct", fs], ext_for(rng, ["struct", fs])]
        b = ["delim", ["union", copy.deepcopy(fs)], ext_for(rng, ["union", fs])]
    return (a, b) if rng.random() < 0.5 else (b, a)


def valid_any(t) -> bool:
    if t[0] == "svc":
        return all(st[0] in ("struct", "union", "delim") and L.s_valid(L.strip(st)) for st in (t[1], t[2]))
    return L.s_valid(L.strip(t))


def gen_special(rng, prop):
    """History and cross-kind cases (see the module docstring)."""
    for _ in range(100):
        what = rng.choice(["hist", "hist", "hist", "hist", "xkind", "xkind", "xkind", "hist-attr", "hist-attr", "xattr", "xvalue"])
        if what == "xkind":
            a, b = gen_xkind(rng)
            if not (valid_any(a) and valid_any(b) and affordable(a) and affordable(b)):
                continue
            c = {"kind": "type", "class": "xkind", "a": desc_key(a), "b": desc_key(b)}
            if rng.random() < 0.3:
                c["hist_a"] = gen_hist(rng, a)
            return c
        if what == "xvalue":
            v = gen_value(rng)
            if v[0] == "rat":
                w = ["bool", v[1] != 0] if rng.random() < 0.5 else ["str", [ord(c) for c in str(Fraction(v[1], v[2]))]]
            elif v[0] == "bool":
                w = ["rat", int(v[1]), 1]
            elif v[0] == "str":
                w = ["set", [v]] if rng.random() < 0.5 else ["rat", len(v[1]), 1]
            else:
                w = copy.deepcopy(v[1][0])
            return {"kind": "value", "class": "xkind", "a": v, "b": w} if rng.random() < 0.5 else {"kind": "value", "class": "xkind", "a": w, "b": v}
        if what == "xattr":
            # padding against a nameless void field: two classes, one value (the model and the property see one attribute)
            w = rng.choice([1, 3, 8, 16, 64])
            w2 = w if rng.random() < 0.6 else w % 64 + 1
            if rng.random() < 0.5:
                return {"kind": "attr", "class": "xkind", "a": {"type": desc_key(["void", w]), "name": "", "value": None},
                        "b": {"type": desc_key(["void", w2]), "name": "", "value": None, "as_field": True}}
            # a field against a constant of the same type and name (they used to compare equal with different hashes:
            # genuine defect, repaired in /repo by 09edd0e)
            pt = rng.choice([["prim", 8, "uintsat"], ["prim", 16, "uintsat"], ["prim", 7, "intsat"], ["prim", 1, "bool"], ["prim", 32, "floatsat"]])
            nm = rng.choice(["x", "y", "A"])
            fld = {"type": desc_key(pt), "name": nm, "value": None}
            cst = {"type": desc_key(pt), "name": nm, "value": const_value(rng, pt)}
            return {"kind": "attr", "class": "xkind", "a": fld, "b": cst} if rng.random() < 0.5 else {"kind": "attr", "class": "xkind", "a": cst, "b": fld}
        if rng.random() < 0.25:
            t = gen_svc(rng)
        else:
            t = L.gen_ty(rng, rng.choice([1, 2, 2, 3]), top=rng.random() < 0.8)
        if not (valid_any(t) and affordable(t)):
            continue
        if what == "hist-attr":
            if t[0] == "svc" or (t[0] == "prim" and t[2] in ("byte", "utf8")):
                continue
            name = rng.choice(["x", "y"])
            value = const_value(rng, t) if t[0] == "prim" and rng.random() < 0.7 else None
            a = {"type": desc_key(t), "name": name, "value": value, "hist": gen_hist(rng, t)}
            b = {"type": desc_key(t), "name": name, "value": value}
            if rng.random() < 0.3:
                b["hist"] = gen_hist(rng, t)
            return {"kind": "attr", "class": "hist", "a": a, "b": b}
        t2 = copy.deepcopy(t) if rng.random() < 0.75 or t[0] == "svc" else mutate_type(rng, t)
        if not (valid_any(t2) and affordable(t2)):
            continue
        c = {"kind": "type", "class": "hist", "a": desc_key(t), "b": desc_key(t2), "hist_a": gen_hist(rng, t)}
        if rng.random() < 0.35:
            c["hist_b"] = gen_hist(rng, t2)
        return c
    raise RuntimeError("generator failed")


ACCESSORS = ["attributes", "fields", "fields_except_padding", "constants", "name_components", "namespace_components"]


def alias_check(obj) -> typing.Optional[str]:
    for acc in ACCESSORS:
        if not hasattr(obj, acc):
            continue
        got = getattr(obj, acc)
        if not isinstance(got, list):
            continue
        snap = [str(x) for x in got]
        before = (str(obj), getattr(obj, "short_name", None), getattr(obj, "full_namespace", None))
        got.append(None)
        got.reverse()
        del got[1:]
        again = getattr(obj, acc)
        if [str(x) for x in again] != snap:
            return "mutating the list returned by .%s changed the object (%s -> %s)" % (acc, snap[:4], [str(x) for x in again][:4])
        after = (str(obj), getattr(obj, "short_name", None), getattr(obj, "full_namespace", None))
        if before != after:
            return "mutating the list returned by .%s changed %s -> %s" % (acc, before, after)
    return None


def layout_sig(pydsdl, o):
    if isinstance(o, pydsdl.SerializableType):
        try:
            b = o.bit_length_set
            sig = [b.min, b.max, sorted(b % 32), o.alignment_requirement]
        except TypeError:
            sig = ["no-bls"]
        if isinstance(o, pydsdl.ServiceType):
            sig += [layout_sig(pydsdl, o.request_type), layout_sig(pydsdl, o.response_type)]
        if isinstance(o, pydsdl.CompositeType):
            sig += [None if isinstance(o, pydsdl.ServiceType) else o.extent, [str(a) for a in o.attributes], o.full_name, tuple(o.version), o.deprecated, o.fixed_port_id]
        return sig
    return None


def pickle_check(pydsdl, o) -> typing.Optional[str]:
    try:
        r = pickle.loads(pickle.dumps(o))
    except Exception as ex:
        return "pickling failed: %s: %s" % (type(ex).__name__, ex)
    if not (r == o and o == r):
        return "unpickled object is not equal to the original"
    if hash(r) != hash(o):
        return "unpickled object hashes differently"
    if str(r) != str(o) or type(r) is not type(o):
        return "unpickled object has another string form / class: %s vs %s" % (r, o)
    if layout_sig(pydsdl, r) != layout_sig(pydsdl, o):
        return "unpickled object has another layout / attributes"
    return None


def nested_check(pydsdl, obj, desc) -> typing.Optional[str]:
    """After the outer object has been compared / hashed: every nested type still has the Specification's layout
    (querying an aggregate must not change what its members report)."""
    k = desc[0]
    if k == "svc":
        return nested_check(pydsdl, obj.request_type, desc[1]) or nested_check(pydsdl, obj.response_type, desc[2])
    try:
        b = obj.bit_length_set
        got = (b.min, b.max, tuple(sorted(b % 32)), tuple(sorted(b % 8)))
    except TypeError:
        return None
    nodes: list = []
    r = L.s_nodes(L.strip(desc), nodes)
    exp = (B.o_min(nodes, r), B.o_max(nodes, r), tuple(sorted(B.o_res(nodes, r, 32))), tuple(sorted(B.o_res(nodes, r, 8))))
    if got != exp:
        return "nested %s reports (min, max, %%32, %%8) = %s, expected %s" % (obj, got, exp)
    if k in ("farr", "varr"):
        return nested_check(pydsdl, obj.element_type, desc[1])
    if k == "delim":
        return nested_check(pydsdl, obj.inner_type, desc[1])
    if k in ("struct", "union"):
        for f, fd in zip(obj.fields, desc[1]):
            r2 = nested_check(pydsdl, f.data_type, fd)
            if r2:
                return r2
    return None


_CHILD = r"""
import sys, json, pickle
sys.path.insert(0, %r)
sys.path.insert(0, %r)
import common
from suites import values as V
pydsdl = common.import_pydsdl()
req = json.loads(sys.stdin.read())
twin = V.build_any(pydsdl, req["ty"])[0]
obj = pickle.loads(bytes.fromhex(req["blob"]))
print(json.dumps({"eq": bool(obj == twin and twin == obj), "hash_eq": hash(obj) == hash(twin), "in_set": obj in {twin}, "str_eq": str(obj) == str(twin)}))
"""


def cross_process_check(desc_ty, obj) -> typing.Optional[str]:
    """Pickle here (after hashing), unpickle in a process with ANOTHER hash seed, compare with an independently built twin."""
    import json
    import os
    import subprocess
    import sys

    hash(obj)
    blob = pickle.dumps(obj).hex()
    env = dict(os.environ)
    env["PYTHONHASHSEED"] = "12345"
    env["VERIF_REPO"] = str(common.REPO)
    code = _CHILD % (str(common.REPO), str(Path(__file__).resolve().parent.parent))
    try:
        r = subprocess.run([sys.executable, "-c", code], input=json.dumps({"ty": desc_ty, "blob": blob}), env=env,
                           stdout=subprocess.PIPE, stderr=subprocess.PIPE, text=True, timeout=120)
    except subprocess.TimeoutExpired:
        return "unpickling in another process timed out"
    if r.returncode != 0:
        return "unpickling in another process failed: %s" % r.stderr[-200:]
    res = json.loads(r.stdout.strip().splitlines()[-1])
    if not all(res.values()):
        return "object pickled here and unpickled under another hash seed vs an independently built twin: %s" % res
    return None


class ValuesSuite(common.Suite):
    name = "values"

    def generate(self, rng, n, prop, tier):
        return [gen_case(rng, prop) for _ in range(n)]

    def corpus(self, prop):
        u8 = ["prim", 8, "uintsat"]
        s1 = ["struct", [u8]]
        s2 = ["struct", [["prim", 16, "uintsat"]]]
        nfc, nfd = [ord(c) for c in "café"], [ord(c) for c in "café"]
        return [
            {"kind": "value", "a": ["str", nfc], "b": ["str", nfd]},
            {"kind": "value", "a": ["str", nfc], "b": ["str", list(nfc)]},
            {"kind": "value", "a": ["set", [["str", nfc]]], "b": ["set", [["str", nfd]]]},
            {"kind": "value", "a": ["rat", 2, 4], "b": ["rat", 1, 2]},
            {"kind": "type", "a": desc_key(["farr", s1, 3]), "b": desc_key(["farr", s2, 3])},
            {"kind": "type", "a": desc_key(["varr", ["struct", [s1, u8]], 3]), "b": desc_key(["varr", ["struct", [s2, u8]], 3])},
            {"kind": "type", "a": desc_key(["struct", [u8, ["void", 3]]]), "b": desc_key(["struct", [u8, ["void", 3]]])},
            {"kind": "attr", "a": {"type": desc_key(["farr", s1, 2]), "name": "x", "value": None}, "b": {"type": desc_key(["farr", s2, 2]), "name": "x", "value": None}},
            {"kind": "type", "a": desc_key(["prim", 8, "uintsat"]), "b": desc_key(["prim", 8, "byte"])},
            {"kind": "type", "xproc": True, "a": desc_key(["struct", [u8, ["varr", s1, 3]]]), "b": desc_key(["struct", [u8, ["varr", s1, 3]]])},
            {"kind": "type", "a": desc_key(["union", [["farr", ["prim", 3, "uintsat"], 3], ["prim", 16, "uintsat"]]]), "b": desc_key(["union", [["farr", ["prim", 3, "uintsat"], 3], ["prim", 16, "uintsat"]]])},
            {"kind": "type", "a": desc_key(["struct", [["union", [["struct", [["prim", 5, "uintsat"]]], u8]], u8]]), "b": desc_key(["struct", [["union", [["struct", [["prim", 5, "uintsat"]]], u8]], u8]])},
            {"kind": "type", "a": desc_key(["void", 8]), "b": desc_key(["prim", 8, "uintsat"])},
            # histories: the inner type is a dict key before it is wrapped / the element before the array / the sections before the service
            {"kind": "type", "class": "hist", "a": desc_key(["delim", s1, 64]), "b": desc_key(["delim", s1, 64]), "hist_a": [[1, ["dict"]]]},
            {"kind": "type", "class": "hist", "a": desc_key(["farr", ["union", [u8, s2]], 3]), "b": desc_key(["farr", ["union", [u8, s2]], 3]),
             "hist_a": [[2, ["hash"]], [3, ["set", "pickle"]]], "hist_b": [[4, ["hash"]]]},
            {"kind": "type", "class": "hist", "a": desc_key(["svc", s1, ["delim", s2, 64]]), "b": desc_key(["svc", s1, ["delim", s2, 64]]),
             "hist_a": [[1, ["hash", "wrap"]], [3, ["set"]], [4, ["deepcopy"]]]},
            {"kind": "attr", "class": "hist", "a": {"type": desc_key(s1), "name": "x", "value": None, "hist": [[1, ["hash", "wrap"]]]},
             "b": {"type": desc_key(s1), "name": "x", "value": None}},
            # one name, different kinds
            {"kind": "type", "class": "xkind", "a": desc_key(["svc", s1, s2]), "b": desc_key(s1)},
            {"kind": "type", "class": "xkind", "a": desc_key(["union", [u8, u8]]), "b": desc_key(["svc", ["union", [u8, u8]], ["struct", []]])},
            {"kind": "type", "class": "xkind", "a": desc_key(["svc", s1, s2]), "b": desc_key(["delim", s1, 8])},
            {"kind": "type", "class": "xkind", "a": desc_key(["struct", [u8, u8]]), "b": desc_key(["union", [u8, u8]])},
            {"kind": "type", "class": "xkind", "a": desc_key(s1), "b": desc_key(["delim", s1, 8])},
            {"kind": "attr", "class": "xkind", "a": {"type": desc_key(["void", 8]), "name": "", "value": None},
             "b": {"type": desc_key(["void", 8]), "name": "", "value": None, "as_field": True}},
            {"kind": "value", "class": "xkind", "a": ["rat", 1, 1], "b": ["bool", True]},
        ]

    def run_impl(self, case):
        pydsdl = common.import_pydsdl()
        try:
            k = case["kind"]
            if k == "bls":
                objs = B.build_impl(pydsdl, case["nodes"], case["how"])
                a, b = objs[case["a"]], objs[case["b"]]
            elif k == "type":
                a, ha = build_any(pydsdl, case["a"]["ty"], case.get("hist_a"))
                b, hb = build_any(pydsdl, case["b"]["ty"], case.get("hist_b"))
            elif k == "attr":
                rec: list = []
                a, b = build_attr(pydsdl, case["a"], record=rec), build_attr(pydsdl, case["b"], record=rec)
                ha, hb = rec
            else:
                a, b = build_value(pydsdl, case["a"]), build_value(pydsdl, case["b"])
        except Exception as ex:
            return {"res": "exc:%s" % type(ex).__name__, "soft_msg": str(ex)[:200]}
        out: dict = {"res": "ok"}
        try:
            out["eq"] = bool(a == b)
            out["sym"] = bool(b == a) == out["eq"] and bool(a != b) == (not out["eq"])
            out["refl"] = bool(a == a) and bool(b == b) and not (a != a)
            out["hash_eq"] = hash(a) == hash(b)
            out["hash_stable"] = hash(a) == hash(a) and hash(copy.copy(a)) == hash(a) if k != "bls" else True
            out["str_a"], out["str_b"] = str(a), str(b)
            out["cls_a"], out["cls_b"] = type(a).__name__, type(b).__name__
            # equal objects are interchangeable as set members / dict keys; unequal ones are two members
            out["container_ok"] = ((b in {a}) == out["eq"] and (a in {b}) == out["eq"] and len({a, b}) == (1 if out["eq"] else 2)
                                   and ({a: 1}.get(b) == 1) == out["eq"] and ([b].count(a) == 1) == out["eq"]) if k != "bls" else True
            if k in ("type", "attr"):
                hk = None
                if k == "type":
                    hk = (history_check(pydsdl, a, case["a"]["ty"], ha, lambda: build_any(pydsdl, case["a"]["ty"])[0])
                          or history_check(pydsdl, b, case["b"]["ty"], hb, lambda: build_any(pydsdl, case["b"]["ty"])[0]))
                else:
                    hk = (history_check(pydsdl, a, None, ha, lambda: build_attr(pydsdl, case["a"], hist=[]))
                          or history_check(pydsdl, b, None, hb, lambda: build_attr(pydsdl, case["b"], hist=[])))
                out["history_ok"] = hk is None
                if hk:
                    out["soft_history"] = hk
            al = alias_check(a) or alias_check(b)
            out["alias_ok"] = al is None
            if al:
                out["soft_alias"] = al
            pk = None if k == "bls" else (pickle_check(pydsdl, a) or pickle_check(pydsdl, b))
            if k == "type":
                nk = nested_check(pydsdl, a, case["a"]["ty"]) or nested_check(pydsdl, b, case["b"]["ty"])
                if nk:
                    out["nested_ok"] = False
                    out["soft_nested"] = nk
                # a deterministic sample of the cases also crosses a process boundary
                if pk is None and (len(out["str_a"]) + case["a"]["ty"][0].__len__() + len(str(case["a"]["ty"]))) % 23 == 0 or case.get("xproc"):
                    pk = cross_process_check(case["a"]["ty"], a)
            out["pickle_ok"] = pk is None
            if pk:
                out["soft_pickle"] = pk
        except Exception as ex:
            return {"res": "exc:%s" % type(ex).__name__, "soft_msg": str(ex)[:200]}
        return out

    def model_case(self, case):
        # Expression strings are identified by their NFC-normalised form (the Specification's notion of string equality;
        # String.__eq__/__hash__ since repo fix 5c4ff03): the key model receives the normal form, computed here with
        # unicodedata (trusted reference), as the code points of the string.
        case = nfc_values(case)
        c = {"id": case["id"], "kind": case["kind"]}
        if case["kind"] == "bls":
            c.update(nodes=case["nodes"], a=case["a"], b=case["b"])
        elif case["kind"] == "type":
            # histories are invisible to the model (values have none); a service has no layout: ["svc"]
            for side in ("a", "b"):
                d = case[side]
                c[side] = {"ty": ["svc"] if has_svc(d["ty"]) else L.strip(d["ty"]), "cls": d["cls"], "str": d["str"]}
        elif case["kind"] == "attr":
            for side in ("a", "b"):
                d = case[side]
                c[side] = {"type": {"ty": L.strip(d["type"]["ty"]), "cls": d["type"]["cls"], "str": d["type"]["str"]},
                           "name": d["name"], "value": d["value"]}
        else:
            c["a"], c["b"] = case["a"], case["b"]
        return c

    def compare(self, case, impl, model, prop):
        if impl.get("res") != "ok":
            return "impl %s (%s), model %s" % (impl.get("res"), impl.get("soft_msg"), model)
        if "err" in model:
            return "model error %s" % model["err"]
        if impl["eq"] != model["eq"]:
            return "eq: impl=%s model=%s" % (impl["eq"], model["eq"])
        if model.get("hash_eq") and not impl["hash_eq"]:
            return "hash keys equal in the model but the hashes differ"
        return None

    def oracle(self, case, impl, prop):
        if impl.get("res") != "ok":
            return "building / comparing valid objects raised %s: %s" % (impl.get("res"), impl.get("soft_msg"))
        if not impl["refl"]:
            return "equality is not reflexive"
        if not impl["sym"]:
            return "equality is not symmetric (or != disagrees with ==)"
        if impl["eq"] and not impl["hash_eq"]:
            return "equal objects have different hashes: %s vs %s" % (impl["str_a"], impl["str_b"])
        if not impl["hash_stable"]:
            return "hash of an object is not stable"
        if not impl["alias_ok"]:
            return "accessor aliasing: %s" % impl.get("soft_alias")
        if not impl["pickle_ok"]:
            return "pickle: %s" % impl.get("soft_pickle")
        if impl.get("nested_ok") is False:
            return "aliasing: %s" % impl.get("soft_nested")
        if impl.get("container_ok") is False:
            return "set / dict / list membership disagrees with ==: %s vs %s" % (impl["str_a"], impl["str_b"])
        if impl.get("history_ok") is False:
            return "history: %s" % impl.get("soft_history")
        k = case["kind"]
        if k == "type" or k == "attr":
            da = case["a"] if k == "type" else case["a"]["type"]
            db = case["b"] if k == "type" else case["b"]["type"]
            same_desc = da["ty"] == db["ty"]
            differs = da["cls"] != db["cls"] or da["str"] != db["str"] or bls_key(da["ty"]) != bls_key(db["ty"])
            if k == "type":
                if impl["str_a"] != da["str"] or impl["str_b"] != db["str"]:
                    return "normalised string form: %s / %s, expected %s / %s" % (impl["str_a"], impl["str_b"], da["str"], db["str"])
                if impl["cls_a"] != da["cls"] or impl["cls_b"] != db["cls"]:
                    return "class: %s / %s, expected %s / %s" % (impl["cls_a"], impl["cls_b"], da["cls"], db["cls"])
            if k == "attr":
                same_rest = case["a"]["name"] == case["b"]["name"] and val_eq(case["a"]["value"], case["b"]["value"])
                if same_desc and same_rest and not impl["eq"]:
                    return "attributes built from equal descriptions are unequal"
                if (differs or not same_rest) and impl["eq"]:
                    return "attributes that differ in type / name / value compare equal: %s vs %s" % (impl["str_a"], impl["str_b"])
                return None
            if same_desc and not impl["eq"]:
                return "types built from equal descriptions are unequal: %s" % impl["str_a"]
            if differs and impl["eq"]:
                return "types that differ in kind, string form or bit length set compare equal: %s (%s) vs %s (%s)" % (impl["str_a"], bls_key(da["ty"]), impl["str_b"], bls_key(db["ty"]))
        elif k == "value":
            exp = val_eq(case["a"], case["b"])
            if impl["eq"] != exp:
                return "values %s and %s: == gives %s" % (impl["str_a"], impl["str_b"], impl["eq"])
        elif k == "bls":
            nodes = case["nodes"]
            i, j = case["a"], case["b"]
            di, dj = B.o_den(nodes, i, 400, {}), B.o_den(nodes, j, 400, {})
            if di is not None and dj is not None and di == dj and not impl["eq"]:
                return "equal bit length sets reported as different"
            ka = (B.o_min(nodes, i), B.o_max(nodes, i), B.o_res(nodes, i, 32))
            kb = (B.o_min(nodes, j), B.o_max(nodes, j), B.o_res(nodes, j, 32))
            if ka == kb and not impl["eq"]:
                return "bit length sets with equal min / max / residues reported as different"
            if ka != kb and impl["eq"]:
                return "bit length sets that differ in min / max / residues mod 32 compare equal"
        return None

    def signature(self, case, desc, prop):
        return "values/%s/%s" % (case["kind"], desc.split(":")[0][:50])

    def shrink(self, case):
        # histories only: fewer used objects, fewer uses per object
        keys = [(None, "hist_a"), (None, "hist_b")] if case["kind"] == "type" else [("a", "hist"), ("b", "hist")] if case["kind"] == "attr" else []
        for side, key in keys:
            holder = case if side is None else case[side]
            hh = holder.get(key)
            if not hh:
                continue
            for i in range(len(hh)):
                for smaller in ([hh[:i] + hh[i + 1:]] + [hh[:i] + [[hh[i][0], hh[i][1][:j] + hh[i][1][j + 1:]]] + hh[i + 1:]
                                                       for j in range(len(hh[i][1])) if len(hh[i][1]) > 1]):
                    c = copy.deepcopy(case)
                    (c if side is None else c[side])[key] = smaller
                    yield c

    def features(self, case, impl):
        yield "kind:" + case["kind"]
        if case.get("class"):
            yield "class:" + case["class"]
        hists = [case.get("hist_a"), case.get("hist_b")] if case["kind"] == "type" else \
            [case["a"].get("hist"), case["b"].get("hist")] if case["kind"] == "attr" else []
        for hh in hists:
            for _slot, ops in hh or []:
                for op in ops:
                    yield "hist-op:" + op
        if case.get("class") == "xkind" and case["kind"] == "type":
            yield "xkind:%s/%s%s" % (case["a"]["cls"], case["b"]["cls"], ":same-str" if case["a"]["str"] == case["b"]["str"] else "")
        if impl.get("res") == "ok":
            yield "eq:%s" % impl["eq"]
            if case["kind"] in ("type", "attr"):
                da = case["a"] if case["kind"] == "type" else case["a"]["type"]
                yield "cls:" + da["cls"]

    def nontrivial(self, case, impl):
        return impl.get("res") == "ok"


def nfc_cps(cps):
    import unicodedata

    try:
        return [ord(c) for c in unicodedata.normalize("NFC", "".join(chr(c) for c in cps))]
    except (ValueError, TypeError):
        return list(cps)


def nfc_value(v):
    if isinstance(v, list) and v and v[0] == "str":
        return ["str", nfc_cps(v[1])]
    if isinstance(v, list) and v and v[0] == "set":
        return ["set", [nfc_value(x) for x in v[1]]]
    return v


def nfc_values(case):
    c = dict(case)
    if case.get("kind") == "value":
        c["a"], c["b"] = nfc_value(case["a"]), nfc_value(case["b"])
    elif case.get("kind") == "attr":
        for side in ("a", "b"):
            d = dict(case[side])
            d["value"] = nfc_value(d.get("value"))
            c[side] = d
    return c


def val_eq(a, b) -> bool:
    if a is None or b is None:
        return a is None and b is None
    if a[0] != b[0]:
        return False
    if a[0] == "rat":
        return Fraction(a[1], a[2]) == Fraction(b[1], b[2])
    if a[0] == "str":
        return nfc_cps(a[1]) == nfc_cps(b[1])
    if a[0] == "bool":
        return a[1] == b[1]
    return all(any(val_eq(x, y) for y in b[1]) for x in a[1]) and all(any(val_eq(x, y) for y in a[1]) for x in b[1])


SUITE = ValuesSuite()
