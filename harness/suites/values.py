"""
Suite `values` (C18): pairs of value objects of the same class built INDEPENDENTLY from equal or different
descriptions — bit length sets, types (primitives, arrays, composites), attributes (fields, constants), expression
values (Rational, Boolean, String, Set) — observed through ==, hash, pickling and mutation of every list returned by
a public accessor.

Two further case classes (both are `type` / `attr` / `value` cases for the model, which is indifferent to them):
  * histories (`hist`): immutable values cannot remember what was done with them, so every object on the way to the
    final one may be USED (hashed, compared, kept in a set / dict, pickled, copied, queried, wrapped into another
    object) BEFORE it is handed to the next public constructor (array, field / padding / constant, structure, union,
    delimited, service); the result must honour the eq / hash / container / pickle contract against a twin built
    without any such history, member by member;
  * pairs of DIFFERENT kinds with one name (`xkind`): structure / union / delimited / service with the same full
    name and version, X against an array of X, padding against a nameless void field, a rational against a boolean ...

  * look-alikes (`alike`, gen_lookalike): two descriptions that differ in exactly ONE observable while every other one
    COINCIDES, numeric coincidences of bit length sets across different shapes included: a sealed composite whose first
    32 bits are fields / length prefixes / a union tag against a delimited one of the same name (32-bit delimiter header)
    with the matching extent; structure [8 bits, X] against union [X, Y inside X]; equal (min, max, residues mod 32) with
    different sets; same kind / name / set with different members; and pairs identical up to ONE attribute of the
    definition (version, name, namespace - in the string form; deprecation, port-ID, doc, source path - not in it), also
    as element / attribute types.  A composite description may carry a fourth element `meta` for that purpose
    ({"name", "ns", "ver", "dep", "pid", "doc", "dir", "file"}).
  * cross-process (`xproc`: a share of the cases of EVERY kind, and one corpus case per kind of object): both objects -
    alone, in a list / tuple / dict, as a field's type and inside a holder structure with padding and a constant - are
    hashed and pickled here, unpickled by an interpreter with ANOTHER string-hash seed and compared there (==, hash, set /
    dict lookups, string form, layout, member by member; also through copy / deepcopy / pickle made there) with twins built
    there; then the same the other way round.  Anything interpreter-specific that an object keeps and persists (a stored
    hash, ...) shows up as "equal objects, different hashes" on the other side.

Outcome: {"eq", "sym", "refl", "hash_eq", "alias_ok", "pickle_ok", "str_a", "str_b", "obs_a", "obs_b", ...}.
The Lean model decides `eq` (and the hash-key equality) from the keys the library's __eq__/__hash__ inspect.
Oracle (independent): reflexive, symmetric, eq -> equal hashes, equal descriptions -> equal objects, objects that
differ in class, string form or (min, max, residues mod 32) of the bit length set -> unequal (judged twice: on the
descriptions, and on what the two objects themselves show - `obs_a` / `obs_b`: equal objects must be indistinguishable in
kind, string form and bit length set), accessor lists are copies, pickling round-trips (within the process and across
processes).
"""
from __future__ import annotations

import copy
import pickle
import random
import typing
import unicodedata
from fractions import Fraction
from pathlib import Path

import common
from suites import bls as B
from suites import layout as L


# ------------------------------------------------------------------------------- descriptions -> strings / keys

def type_str(t, names: L._Names) -> str:
    """The normalised string form the Specification prescribes for a type expression."""
    k = t[0]
    if k == "prim":
        kind = t[2]
        if kind in ("bool", "byte", "utf8"):
            return kind
        cm = "truncated " if kind.endswith("trunc") else "saturated "
        base = "float" if kind.startswith("float") else "int" if kind.startswith("int") else "uint"
        return cm + base + str(t[1])
    if k == "void":
        return "void%d" % t[1]
    if k == "farr":
        return "%s[%d]" % (type_str(t[1], names), t[2])
    if k == "varr":
        return "%s[<=%d]" % (type_str(t[1], names), t[2])
    if k == "delim":
        return type_str(t[1], names)
    if k == "svc":
        # request and response sections are <service>.Request / .Response; the service takes the next name
        for sec in (t[1], t[2]):
            body = sec[1] if sec[0] == "delim" else sec
            for f in body[1]:
                type_str(f, names)
        return "ns.%s.1.0" % names.fresh()
    # composites are named ns.T<n> in construction order (children first), like layout.build_impl does; the optional
    # fourth element of a composite description (`meta`) overrides name / version (and carries the attributes that
    # never show in the string form: deprecation, port-ID, doc, source path)
    for f in t[1]:
        type_str(f, names)
    auto = names.fresh()
    m = meta_of(t)
    ver = m.get("ver", [1, 0])
    return "%s.%s.%d.%d" % (m.get("ns", "ns"), m.get("name", auto), ver[0], ver[1])


def meta_of(t) -> dict:
    return t[3] if t[0] in ("struct", "union") and len(t) > 3 and t[3] else {}


def has_meta(t) -> bool:
    return any(meta_of(st) for st in sub_types(t))


def type_cls(t) -> str:
    k = t[0]
    if k == "prim":
        kind = t[2]
        return {"bool": "BooleanType", "byte": "ByteType", "utf8": "UTF8Type"}.get(
            kind, "FloatType" if kind.startswith("float") else "SignedIntegerType" if kind.startswith("int") else "UnsignedIntegerType")
    return {"void": "VoidType", "farr": "FixedLengthArrayType", "varr": "VariableLengthArrayType", "struct": "StructureType",
            "union": "UnionType", "delim": "DelimitedType", "svc": "ServiceType"}[k]


def bls_key(t):
    if t[0] == "svc":
        return ("no bit length set",)
    nodes: list = []
    r = L.s_nodes(L.strip(t), nodes)
    return (B.o_min(nodes, r), B.o_max(nodes, r), tuple(sorted(B.o_res(nodes, r, 32))))


# ------------------------------------------------------------------------------- generators

def mutate_type(rng, t):
    """A description that differs from `t` in one place (possibly only deep inside a same-named composite)."""
    t = copy.deepcopy(t)
    path = []
    cur = t
    while True:
        k = cur[0]
        opts = ["here"]
        if k in ("farr", "varr", "delim"):
            opts += ["down", "down"]
        if k in ("struct", "union") and cur[1]:
            opts += ["down", "down"]
        c = rng.choice(opts)
        if c == "here":
            break
        if k in ("farr", "varr", "delim"):
            cur = cur[1]
        else:
            cur = cur[1][rng.randrange(len(cur[1]))]
    k = cur[0]
    if k == "prim":
        kind = cur[2]
        if kind in ("bool", "byte", "utf8"):
            cur[:] = ["prim", 8, "uintsat"] if kind != "bool" else ["prim", 1, "uintsat"]
        else:
            ch = rng.choice(["width", "cast", "sign"])
            if ch == "width" and not kind.startswith("float"):
                cur[1] = cur[1] + 1 if cur[1] < 64 else cur[1] - 1
                if kind.startswith("int") and cur[1] < 2:
                    cur[1] = 2
            elif ch == "cast" and not kind.startswith("int"):
                cur[2] = kind[:-5] + "sat" if kind.endswith("trunc") else kind[:-3] + "trunc"
            elif kind.startswith("float"):
                cur[1] = {16: 32, 32: 64, 64: 16}[cur[1]]
            elif kind.startswith("uint") and cur[1] >= 2:
                cur[2] = "intsat"
            else:
                cur[1] = cur[1] + 1 if cur[1] < 64 else cur[1] - 1
    elif k == "void":
        cur[1] = cur[1] + 1 if cur[1] < 64 else 1
    elif k in ("farr", "varr"):
        ch = rng.choice(["cap", "cap", "kind"])
        if ch == "cap":
            cur[2] = cur[2] + rng.choice([1, 32, 256])
        else:
            cur[0] = "varr" if k == "farr" else "farr"
            if cur[1][0] == "prim" and cur[1][2] == "utf8":
                cur[1] = ["prim", 8, "byte"]
    elif k in ("struct", "union"):
        ch = rng.choice(["add", "drop", "swap"])
        if ch == "add" or len(cur[1]) < 3:
            cur[1].append(["prim", rng.choice([1, 8, 16, 32]), "uintsat"])
        elif ch == "drop":
            cur[1].pop()
        else:
            cur[1][0], cur[1][-1] = cur[1][-1], cur[1][0]
    elif k == "delim":
        cur[2] += 8 * rng.choice([1, 4, 32])
    return t


def gen_value(rng, kinds=("rat", "rat", "bool", "str", "str", "set")):
    k = rng.choice(kinds)
    if k == "rat":
        return ["rat", rng.choice([0, 1, -1, 2, 3, 7, 255, -128, 2**64, 10**30]), rng.choice([1, 1, 2, 3, 7, 1000])]
    if k == "bool":
        return ["bool", rng.random() < 0.5]
    if k == "str":
        s = rng.choice(["", "a", "A", "abc", "café", "café", "Å", "Å", "Å", "가", "가", "x y", "\U0001f600", "q̣̇", "q̣̇"])
        return ["str", [ord(c) for c in s]]
    n = rng.randint(1, 4)
    kind = rng.choice(["rat", "str"])
    return ["set", [gen_value(rng, (kind,)) for _ in range(n)]]


def variant_value(rng, v):
    """Same mathematical value written differently, or a different one."""
    v = copy.deepcopy(v)
    ch = rng.random()
    if v[0] == "rat":
        if ch < 0.5:
            m = rng.choice([2, 3, 10, 2**40])
            return ["rat", v[1] * m, v[2] * m]
        return ["rat", v[1] + rng.choice([1, -1, 2**64]), v[2]]
    if v[0] == "bool":
        return ["bool", v[1] if ch < 0.5 else not v[1]]
    if v[0] == "str":
        s = "".join(chr(c) for c in v[1])
        if ch < 0.35:
            return v
        if ch < 0.7:
            alt = unicodedata.normalize(rng.choice(["NFC", "NFD"]), s)
            return ["str", [ord(c) for c in alt]]
        return ["str", v[1] + [ord("z")]]
    if ch < 0.4:
        e = list(v[1])
        rng.shuffle(e)
        return ["set", e + e[:1]]
    if ch < 0.7:
        return ["set", [variant_value(rng, x) for x in v[1]]]
    return ["set", v[1][:-1] if len(v[1]) > 1 else v[1] + [v[1][0][:1] + ([v[1][0][1] + 1, v[1][0][2]] if v[1][0][0] == "rat" else [v[1][0][1] + [33]])]]


def gen_case(rng, prop):
    if rng.random() < 0.3:
        return gen_special(rng, prop)
    kind = rng.choice(["bls", "type", "type", "type", "attr", "value", "value"])
    if kind == "bls":
        for _ in range(20):
            c = B.gen_case(rng, prop)
            n = len(c["nodes"])
            i, j = rng.randrange(n), rng.randrange(n)
            if rng.random() < 0.3:
                # an independently built copy of the same expression
                c["nodes"] = c["nodes"] + copy.deepcopy(c["nodes"])
                c["how"] = c["how"] + c["how"]
                j = i + n
                for node in c["nodes"][n:]:
                    if node[0] in ("pad", "rep", "rrep"):
                        node[1] += n
                    elif node[0] in ("cat", "uni"):
                        node[1] = [x + n for x in node[1]]
            if all(B._cost(c["nodes"], x, 32, {}) <= B.MOD_BUDGET for x in (i, j)):
                return {"kind": "bls", "nodes": c["nodes"], "how": c["how"], "a": i, "b": j}
    if kind in ("type", "attr"):
        for _ in range(50):
            t = L.gen_ty(rng, rng.choice([1, 2, 2, 3]), top=rng.random() < 0.7)
            if not L.s_valid(L.strip(t)):
                continue
            if kind == "attr" and t[0] == "prim" and t[2] in ("byte", "utf8"):
                continue
            t2 = copy.deepcopy(t) if rng.random() < 0.4 else mutate_type(rng, t)
            if not L.s_valid(L.strip(t2)):
                continue
            # equality / hash of the type AND of every member type are queried (nested-member checks): each must be cheap
            if not (affordable(t) and affordable(t2)):
                continue
            if kind == "type":
                return {"kind": "type", "a": desc_key(t), "b": desc_key(t2)}
            # attributes: fields, or constants of primitive type
            if t[0] == "prim" and t2[0] == "prim" and t[2] not in ("byte", "utf8") and t2[2] not in ("byte", "utf8") and rng.random() < 0.6:
                va = const_value(rng, t)
                vb = const_value(rng, t2)
                if rng.random() < 0.5 and (t[2] == "bool") == (t2[2] == "bool") and t[2].startswith("float") == t2[2].startswith("float") and t == t2:
                    vb = va
                na = rng.choice(["A", "B"])
                return {"kind": "attr", "a": {"type": desc_key(t), "name": na, "value": va},
                        "b": {"type": desc_key(t2), "name": na if rng.random() < 0.7 else "C", "value": vb}}
            na = rng.choice(["x", "y"])
            return {"kind": "attr", "a": {"type": desc_key(t), "name": na, "value": None},
                    "b": {"type": desc_key(t2), "name": na if rng.random() < 0.7 else "z", "value": None}}
    v = gen_value(rng)
    return {"kind": "value", "a": v, "b": variant_value(rng, v)}


def sub_types(t):
    """The type description and every type nested in it (a delimited type hides its members from its own bit length set,
    but they are still objects whose equality and layout the suite queries)."""
    if t[0] == "svc":
        yield from sub_types(t[1])
        yield from sub_types(t[2])
        return
    yield t
    if t[0] in ("farr", "varr", "delim"):
        yield from sub_types(t[1])
    elif t[0] in ("struct", "union"):
        for f in t[1]:
            yield from sub_types(f)


def affordable(t) -> bool:
    for st in sub_types(t):
        nodes: list = []
        if B._cost(nodes, L.s_nodes(L.strip(st), nodes), 32, {}) > B.MOD_BUDGET:
            return False
    return True


def const_value(rng, t):
    kind = t[2]
    if kind == "bool":
        return ["bool", rng.random() < 0.5]
    if kind.startswith("float"):
        return ["rat", rng.choice([0, 1, -3, 5]), rng.choice([1, 2, 4])]
    n = t[1]
    if kind.startswith("int"):
        return ["rat", rng.choice([0, 1, -1, -(2 ** (n - 1)), 2 ** (n - 1) - 1]), 1]
    return ["rat", rng.choice([0, 1, 2**n - 1]), 1]


def desc_key(t):
    return {"ty": t, "cls": type_cls(t), "str": type_str(t, L._Names())}


# ------------------------------------------------------------------------------- implementation side

def build_value(pydsdl, v):
    if v[0] == "rat":
        return pydsdl.Rational(Fraction(v[1], v[2]))
    if v[0] == "bool":
        return pydsdl.Boolean(v[1])
    if v[0] == "str":
        return pydsdl.String("".join(chr(c) for c in v[1]))
    return pydsdl.Set([build_value(pydsdl, x) for x in v[1]])


def build_attr(pydsdl, d, hist: typing.Optional[list] = None, record: typing.Optional[list] = None):
    if "hist" in d and hist is None:
        hist = d["hist"]
    ty, h = build_any(pydsdl, d["type"]["ty"], hist)      # type: ignore  # (build_any is defined below)
    if record is not None:
        record.append(h)
    kw = {"doc": d["doc"]} if "doc" in d else {}
    if d["value"] is None:
        if d["type"]["ty"][0] == "void" and not d.get("as_field"):
            return pydsdl.PaddingField(ty, **kw)
        return pydsdl.Field(ty, d["name"], **kw)
    return pydsdl.Constant(ty, d["name"], build_value(pydsdl, d["value"]), **kw)


# ------------------------------------------------------------------------------- histories and services

HIST_OPS = ["hash", "hash", "set", "dict", "eq", "str", "pickle", "copy", "deepcopy", "bls", "attrs", "wrap"]


def has_svc(t) -> bool:
    return t[0] == "svc"


def n_nodes(t) -> int:
    """Number of objects the constructors build for a description (= number of history slots, in completion order)."""
    k = t[0]
    if k in ("prim", "void"):
        return 1
    if k in ("farr", "varr", "delim"):
        return 1 + n_nodes(t[1])
    if k == "svc":
        return 1 + n_nodes(t[1]) + n_nodes(t[2])
    return 1 + sum(n_nodes(f) for f in t[1])


class _Hist:
    """`plan`: {slot: [op, ...]} - what is done with the object completed in that slot before it is used any further."""

    def __init__(self, pydsdl, plan):
        self.pydsdl = pydsdl
        self.plan = {int(k): v for k, v in (plan or [])}
        self.n = 0
        self.seen: list = []      # (object, hash it had when it was used)
        self.notes: list = []     # contract violations observed while using an object

    def done(self, obj):
        ops = self.plan.get(self.n, ())
        self.n += 1
        for op in ops:
            use(self, obj, op)
        return obj


def use(h: "_Hist", obj, op: str) -> None:
    """A read-only use of a value object (must not be able to influence anything built from it later)."""
    pydsdl = h.pydsdl
    if op == "hash":
        h.seen.append((obj, hash(obj)))
    elif op == "set":
        if obj not in {obj}:
            h.notes.append("%s is not found in a set holding it" % obj)
        h.seen.append((obj, hash(obj)))
    elif op == "dict":
        if {obj: 1}.get(obj) != 1:
            h.notes.append("%s is not found in a dict keyed by it" % obj)
    elif op == "eq":
        if not (obj == obj) or obj != copy.copy(obj):
            h.notes.append("%s is not equal to itself / its copy" % obj)
    elif op == "str":
        str(obj), repr(obj)
    elif op == "pickle":
        r = pickle.loads(pickle.dumps(obj))
        if not (r == obj and hash(r) == hash(obj)):
            h.notes.append("%s: unpickled copy differs / hashes differently" % obj)
    elif op == "copy":
        hash(copy.copy(obj))
    elif op == "deepcopy":
        c = copy.deepcopy(obj)
        if not (c == obj and hash(c) == hash(obj)):
            h.notes.append("%s: deep copy differs / hashes differently" % obj)
    elif op == "bls":
        try:
            b = obj.bit_length_set
            b.min, b.max, sorted(b % 32), obj.alignment_requirement
        except TypeError:
            pass
    elif op == "attrs":
        if isinstance(obj, pydsdl.CompositeType):
            obj.attributes, obj.fields, obj.constants, obj.extent if not isinstance(obj, pydsdl.ServiceType) else None
            try:
                for _f, o in obj.iterate_fields_with_offsets():
                    o.min, o.max
            except TypeError:
                pass
    elif op == "wrap":
        # the object becomes part of OTHER objects first (which are hashed and dropped)
        if isinstance(obj, pydsdl.VoidType):
            hash(pydsdl.PaddingField(obj))
            return
        if isinstance(obj, pydsdl.ServiceType):
            return
        hash(pydsdl.Field(obj, "w"))
        if not (isinstance(obj, pydsdl.CompositeType) and obj.has_parent_service):
            hash(pydsdl.VariableLengthArrayType(obj, 3))
        if isinstance(obj, (pydsdl.StructureType, pydsdl.UnionType)) and not obj.has_parent_service:
            ext = -(-obj.bit_length_set.max // 8) * 8 + 64
            hash(pydsdl.DelimitedType(obj, ext))
    else:
        raise ValueError(op)


def build2(pydsdl, t, names: L._Names, h: _Hist, section: typing.Optional[typing.Tuple[str, str]] = None):
    """Like layout.build_impl (same names, same constructor arguments), plus services, plus the history hook after every
    completed object.  `section` = (service name, "Request" | "Response") for the two sections of a service."""
    k = t[0]
    if k in ("prim", "void"):
        return h.done(L.build_impl(pydsdl, t, names))
    if k == "farr":
        return h.done(pydsdl.FixedLengthArrayType(build2(pydsdl, t[1], names, h), t[2]))
    if k == "varr":
        return h.done(pydsdl.VariableLengthArrayType(build2(pydsdl, t[1], names, h), t[2]))
    if k == "delim":
        return h.done(pydsdl.DelimitedType(build2(pydsdl, t[1], names, h, section), t[2]))
    CM = pydsdl.PrimitiveType.CastMode
    if k in ("struct", "union"):
        attrs = []
        for i, f in enumerate(t[1]):
            ft = build2(pydsdl, f, names, h)
            attrs.append(pydsdl.PaddingField(ft) if f[0] == "void" else pydsdl.Field(ft, "f%d" % i))
        for ci in range(t[2] if len(t) > 2 else 0):
            attrs.append(pydsdl.Constant(pydsdl.UnsignedIntegerType(8, CM.SATURATED), "C%d" % ci, pydsdl.Rational(ci % 256)))
        cls = pydsdl.StructureType if k == "struct" else pydsdl.UnionType
        if section is not None:
            return h.done(cls(name="ns.%s.%s" % section, version=pydsdl.Version(1, 0), attributes=attrs, deprecated=False, fixed_port_id=None,
                              source_file_path=Path("/nonexistent/ns/X.1.0.dsdl"), has_parent_service=True))
        auto = names.fresh()
        m = meta_of(t)
        ns = m.get("ns", "ns")
        ver = m.get("ver", [1, 0])
        kw = {"doc": m["doc"]} if "doc" in m else {}
        return h.done(cls(name="%s.%s" % (ns, m.get("name", auto)), version=pydsdl.Version(ver[0], ver[1]), attributes=attrs,
                          deprecated=bool(m.get("dep", False)), fixed_port_id=m.get("pid"),
                          source_file_path=Path("/%s/%s/%s.dsdl" % (m.get("dir", "nonexistent"), ns.replace(".", "/"), m.get("file", "X.1.0"))),
                          has_parent_service=False, **kw))
    if k == "svc":
        # the sections' members are built first (they take the names before the service does, as in type_str)
        cnt = sum(1 for sec in (t[1], t[2]) for st in sub_types(sec) if st[0] in ("struct", "union")) - 2
        svc_name = "T%d" % (names.n + cnt + 1)
        req = build2(pydsdl, t[1], names, h, (svc_name, "Request"))
        resp = build2(pydsdl, t[2], names, h, (svc_name, "Response"))
        got = names.fresh()
        assert got == svc_name, (got, svc_name)
        return h.done(pydsdl.ServiceType(req, resp, None))
    raise ValueError(k)


def build_any(pydsdl, t, plan=None):
    """(object, history record): layout.build_impl for plain descriptions, build2 for histories / services."""
    if plan is None and not has_svc(t) and not has_meta(t):
        return L.build_impl(pydsdl, t, L._Names()), None
    h = _Hist(pydsdl, plan)
    return build2(pydsdl, t, L._Names(), h), h


def twin_diff(pydsdl, obj, twin, where="object") -> typing.Optional[str]:
    """`obj` and `twin` were built from ONE description (by different histories): they, and their members pairwise, are
    interchangeable values."""
    if type(obj) is not type(twin):
        return "%s: classes %s / %s" % (where, type(obj).__name__, type(twin).__name__)
    if not (obj == twin and twin == obj) or obj != twin:
        return "%s %s: not equal to a twin built independently from the same description" % (where, obj)
    if hash(obj) != hash(twin):
        return "%s %s: equal to its independently built twin but hashes differently" % (where, obj)
    if twin not in {obj} or obj not in {twin} or len({obj, twin}) != 1 or {obj: 1}.get(twin) != 1:
        return "%s %s: set / dict lookup by an equal twin fails" % (where, obj)
    if str(obj) != str(twin) or layout_sig(pydsdl, obj) != layout_sig(pydsdl, twin):
        return "%s %s: string form / layout differ from the twin's" % (where, obj)
    if isinstance(obj, pydsdl.ArrayType):
        return twin_diff(pydsdl, obj.element_type, twin.element_type, where + ".element_type")
    if isinstance(obj, pydsdl.DelimitedType):
        r = twin_diff(pydsdl, obj.inner_type, twin.inner_type, where + ".inner_type")
        if r:
            return r
    if isinstance(obj, pydsdl.CompositeType):
        for i, (x, y) in enumerate(zip(obj.attributes, twin.attributes)):
            if not (x == y and y == x) or hash(x) != hash(y) or str(x) != str(y) or type(x) is not type(y):
                return "%s.attributes[%d] (%s): differs from the twin's / hashes differently" % (where, i, x)
            if not isinstance(obj, pydsdl.DelimitedType):
                r = twin_diff(pydsdl, x.data_type, y.data_type, "%s.attributes[%d].data_type" % (where, i))
                if r:
                    return r
    return None


def history_check(pydsdl, obj, desc_ty, h: typing.Optional[_Hist], rebuild) -> typing.Optional[str]:
    if h is None or not h.plan:
        return None
    if h.notes:
        return h.notes[0]
    for o, was in h.seen:
        if hash(o) != was:
            return "the hash of %s changed after it was used to construct another object" % o
    return twin_diff(pydsdl, obj, rebuild())


def gen_hist(rng, t, extra: int = 0) -> list:
    n = n_nodes(t) + extra
    slots = [i for i in range(n) if rng.random() < 0.45] or [rng.randrange(n)]
    if rng.random() < 0.3 and n >= 2:
        slots = sorted(set(slots) | {n - 2})    # the object handed to the last constructor
    return [[i, [rng.choice(HIST_OPS) for _ in range(rng.choice([1, 1, 2, 3]))]] for i in slots]


def gen_fields(rng, union: bool):
    n = rng.choice([2, 2, 3]) if union else rng.choice([1, 2, 2, 3])
    return [L.gen_field(rng, rng.choice([0, 0, 1]), union) for _ in range(n)]


def ext_for(rng, inner) -> int:
    nodes: list = []
    try:
        mx = B.o_max(nodes, L.s_nodes(L.strip(inner), nodes)) if L.s_valid(L.strip(inner)) else 64
    except Exception:   # an invalid member somewhere below: the case is discarded by the caller's validity filter
        mx = 64
    return -(-mx // 8) * 8 + 8 * rng.choice([0, 1, 4, 32])


def gen_svc(rng):
    """A service whose RESPONSE holds no composites, so that the service gets the name its request alone would get."""
    rk = rng.choice(["struct", "struct", "union"])
    req = [rk, gen_fields(rng, rk == "union")]
    resp = ["struct", [L.gen_prim_field(rng) for _ in range(rng.choice([0, 1, 2]))]]
    if rng.random() < 0.3:
        req = ["delim", req, ext_for(rng, req)]
    if rng.random() < 0.3:
        resp = ["delim", resp, ext_for(rng, resp)]
    return ["svc", req, resp]


def gen_xkind(rng):
    """Two descriptions of DIFFERENT kinds that get the same full name and version (or differ by one array level)."""
    ch = rng.choice(["svc-msg", "svc-msg", "svc-svc", "struct-union", "sealed-delim", "delim-delim", "array-of"])
    if ch in ("svc-msg", "svc-svc"):
        a = gen_svc(rng)
        if ch == "svc-svc":
            b = copy.deepcopy(a)
            if rng.random() < 0.5:
                b[2] = ["struct", [L.gen_prim_field(rng)]]     # same kind, same name: the property demands nothing
            return a, b
        b = copy.deepcopy(a[1])                                 # the request section's definition as a message of its own
        x = rng.random()
        if x < 0.3:
            b = b[1] if b[0] == "delim" else ["delim", b, ext_for(rng, b)]
        elif x < 0.5:
            body = b[1] if b[0] == "delim" else b
            nv = [f for f in body[1] if f[0] != "void"]
            if body[0] == "struct" and len(nv) >= 2:
                body[0], body[1] = "union", nv
            elif body[0] == "union":
                body[0] = "struct"
        return (a, b) if rng.random() < 0.5 else (b, a)
    if ch == "array-of":
        a = L.gen_ty(rng, rng.choice([0, 1, 2]), top=rng.random() < 0.5)
        e = ["prim", 8, "byte"] if a[0] == "prim" and a[2] == "utf8" else a
        b = [rng.choice(["farr", "varr"]), copy.deepcopy(e), rng.choice([1, 1, 2])]
        return (a, b) if rng.random() < 0.5 else (b, a)
    fs = gen_fields(rng, True)
    if ch == "struct-union":
        a, b = ["struct", fs], ["union", copy.deepcopy(fs)]
        if rng.random() < 0.4:
            e = ext_for(rng, a)
            a, b = ["delim", a, e], ["delim", b, max(e, ext_for(rng, b))]
    elif ch == "sealed-delim":
        a = [rng.choice(["struct", "union"]), fs]
        b = ["delim", copy.deepcopy(a), ext_for(rng, a)]
    else:
        a = ["delim", ["struct", fs], ext_for(rng, ["struct", fs])]
        b = ["delim", ["union", copy.deepcopy(fs)], ext_for(rng, ["union", fs])]
    return (a, b) if rng.random() < 0.5 else (b, a)


# ------------------------------------------------------------------------------- look-alikes: one observable differs, the rest COINCIDES

U8 = ["prim", 8, "uintsat"]
NAMES_Q = ["Q", "Q", "Q", "Node", "A_b", "Z9"]


def fixed_piece(rng, bits: int, union: bool = False, depth: int = 0):
    """One field of exactly `bits` bits (a multiple of 8)."""
    opts = []
    if bits <= 64:
        opts += [["prim", bits, "uintsat"], ["prim", bits, "uinttrunc"], ["prim", bits, "intsat"]]
        if not union:
            opts.append(["void", bits])
    if bits in (16, 32, 64):
        opts.append(["prim", bits, "float" + rng.choice(["sat", "trunc"])])
    opts.append(["farr", rng.choice([U8, ["prim", 8, "byte"], ["prim", 8, "intsat"]]), bits // 8])
    if bits % 16 == 0:
        opts.append(["farr", ["prim", 16, rng.choice(["uintsat", "intsat", "floatsat"])], bits // 16])
    if bits <= 32:
        opts.append(["farr", ["prim", 1, "bool"], bits])
        opts.append(["struct", [["prim", bits, "uintsat"]]])
    if bits >= 16 and depth < 2:
        opts.append(["struct", fixed_fields(rng, bits, depth=depth + 1)])
    return rng.choice(opts)


def fixed_fields(rng, bits: int, union: bool = False, depth: int = 0) -> list:
    """Fields whose lengths sum to exactly `bits` (a multiple of 8); every field starts at a byte boundary."""
    out = []
    left = bits
    while left > 0:
        b = 8 * rng.randint(1, left // 8) if rng.random() < 0.6 else left
        if len(out) >= 3:
            b = left
        out.append(fixed_piece(rng, b, union, depth))
        left -= b
    return out


def byte_array(rng, n: int):
    """Variable-length array of `n` one-byte elements: bit length set {prefix + 8k | k <= n}."""
    e = rng.choice([U8, U8, ["prim", 8, "byte"], ["prim", 8, "utf8"], ["prim", 8, "intsat"], ["prim", 8, "uinttrunc"], ["farr", U8, 1]])
    return ["varr", e, n]


def gen_headed(rng, form: typing.Optional[str] = None, par=None):
    """A SEALED composite whose bit length set is exactly {32 + 8k | k <= n}: what a delimited type of extent 8n has
    (32-bit delimiter header + any number of bytes up to the extent).  The 32 leading bits are fields, length prefixes
    and / or a union tag.  Returns (description, n, form, parameters) - the same form and parameters give another shape
    with the same set."""
    form = form or rng.choice(["fixed", "bytes", "bytes", "bytes", "bits", "union", "two"])
    if form == "fixed":
        return ["struct", fixed_fields(rng, 32)], 0, form, None
    if form == "bytes":
        p, n = par or rng.choice([(8, rng.choice([1, 2, 3, 4, 100, 255, rng.randint(1, 255)])),
                                  (16, rng.choice([256, 257, 1000, 65535, rng.randint(256, 65535)])),
                                  (32, rng.choice([65536, 65537, 2**20, 2**32 - 1, rng.randint(65536, 2**32 - 1)]))])
        fs = fixed_fields(rng, 32 - p) if p < 32 else []
        fs.insert(rng.randint(0, len(fs)), byte_array(rng, n))
        return ["struct", fs], n, form, (p, n)
    if form == "bits":
        # elements narrower than a byte: the final padding of the structure rounds every length up to a byte
        w, cap = par or (rng.randint(1, 7), rng.randint(1, 255))
        e = ["prim", 1, "bool"] if w == 1 and rng.random() < 0.5 else ["prim", w, rng.choice(["uintsat", "uinttrunc"] + (["intsat"] if w >= 2 else []))]
        return ["struct", fixed_fields(rng, 24) + [["varr", e, cap]]], -(-w * cap // 8), form, (w, cap)
    if form == "two":
        n1, n2 = par or (rng.randint(1, 255), rng.randint(1, 255))
        fs = [byte_array(rng, n1), byte_array(rng, n2)] + fixed_fields(rng, 16)
        rng.shuffle(fs)
        return ["struct", fs], n1 + n2, form, (n1, n2)
    # union: 8-bit tag; one variant attains every length 24 + 8k, the others are among them
    n = par if par is not None else rng.choice([0, 1, 3, 7, 255, rng.randint(1, 255)])

    def variant(full: bool):
        if n == 0 or (not full and rng.random() < 0.5):
            m = 0 if n == 0 else rng.randint(0, min(n, 5))
            return fixed_piece(rng, 24 + 8 * m, union=True)
        m = n if full else rng.randint(1, n)
        fs = fixed_fields(rng, 16) + [byte_array(rng, m)]
        rng.shuffle(fs)
        return ["struct", fs]

    vs = [variant(True)] + [variant(False) for _ in range(rng.choice([1, 1, 2]))]
    rng.shuffle(vs)
    return ["union", vs], n, form, n


def small_inner(rng, ext: int):
    """A definition that fits into an extent of `ext` bits."""
    for _ in range(6):
        k = rng.choice(["struct", "struct", "union"])
        t = [k, gen_fields(rng, k == "union")] if rng.random() < 0.6 else ["struct", [L.gen_prim_field(rng) for _ in range(rng.choice([0, 1, 2]))]]
        if L.s_valid(["delim", L.strip(t), ext]):
            return t
    return ["struct", []]


def with_meta(t, **m):
    """`t` (a structure / union / delimited description) with the meta attributes of its top-level definition set."""
    if t[0] == "delim":
        return ["delim", with_meta(t[1], **m), t[2]]
    old = dict(meta_of(t))
    old.update(m)
    return [t[0], t[1], t[2] if len(t) > 2 else 0, old]


META_ALTS = {
    "dep": lambda rng, v: not v,
    "pid": lambda rng, v: rng.choice([0, 1, 100, 8191]) if v is None else rng.choice([None, (v + 1) % 8192]),
    "doc": lambda rng, v: (v or "") + rng.choice([" ", "x", "\n"]),
    "dir": lambda rng, v: "elsewhere",
    "file": lambda rng, v: rng.choice(["Y.1.0", "X.2.7", "123.X.1.0"]),
    "ver": lambda rng, v: rng.choice([[v[0], v[1] + 1], [v[0] + 1, v[1]], [v[1], v[0]] if v[0] != v[1] else [v[0] + 1, v[1] + 1], [0, 1] if v != [0, 1] else [1, 0]]),
    "name": lambda rng, v: rng.choice([v + "_", v.lower() if v.lower() != v else v.upper(), v + "1", "Q_" if v != "Q_" else "Q"]),
    "ns": lambda rng, v: rng.choice(["nt", "ns.sub", "Ns"]) if v == "ns" else "ns",
}
META_DEFAULT = {"dep": False, "pid": None, "doc": "", "dir": "nonexistent", "file": "X.1.0", "ver": [1, 0], "name": "Q", "ns": "ns"}
META_IN_STR = ("ver", "name", "ns")


def gen_lookalike(rng):
    """(a, b, sub-class): two descriptions that differ in ONE observable while the others coincide - in particular the
    numeric key (min, max, residues mod 32) of the bit length set coincides across different shapes / kinds."""
    sub = rng.choice(["sealed-delim", "sealed-delim", "sealed-delim", "struct-union", "struct-union", "shape", "approx", "meta", "meta", "strform"])
    base = {"name": rng.choice(NAMES_Q)}
    if rng.random() < 0.3:
        base.update(rng.choice([{"ver": [rng.choice([0, 1, 2, 254]), rng.choice([1, 3, 254])]}, {"dep": True}, {"pid": rng.choice([0, 7509, 8191])}, {"doc": "d"}]))
    if sub == "sealed-delim":
        sealed, n, _form, _par = gen_headed(rng)
        inner = small_inner(rng, 8 * n)
        if rng.random() < 0.3 and n == 0:
            inner = ["struct", [], rng.choice([1, 2])]
        a, b = with_meta(sealed, **base), with_meta(["delim", inner, 8 * n], **base)
        x = rng.random()
        if x < 0.12:      # one level up: the look-alikes as array elements (one kind again)
            k, c = rng.choice(["farr", "varr"]), rng.choice([1, 2, 3])
            a, b = [k, a, c], [k, b, c]
        elif x < 0.2:     # near miss: the extent is one byte off
            b = with_meta(["delim", inner, 8 * n + 8], **base)
    elif sub == "struct-union":
        # union [X, Y...] with every Y inside X  ~  structure [8-bit field, X]
        x = rng.choice([fixed_piece(rng, 8 * rng.randint(1, 6), union=True), byte_array(rng, rng.choice([1, 3, 7, 200])),
                        ["struct", gen_fields(rng, False)], gen_headed(rng)[0]])
        if not L.s_valid(L.strip(x)):
            x = U8
        ys = [copy.deepcopy(x) for _ in range(rng.choice([1, 1, 2]))]
        if x[0] == "varr" and x[1][0] == "prim" and rng.random() < 0.6:
            ys[0] = ["prim", 8 + 8 * rng.randint(0, min(x[2], 7)), "uintsat"]
        vs = [x] + ys
        rng.shuffle(vs)
        a = with_meta(["struct", [fixed_piece(rng, 8), copy.deepcopy(x)]], **base)
        b = with_meta(["union", vs], **base)
        if rng.random() < 0.25:
            n = rng.choice([0, 1, 8])
            nodes: list = []
            mx = B.o_max(nodes, L.s_nodes(L.strip(a), nodes))
            ext = -(-mx // 8) * 8 + 8 * n
            a, b = ["delim", a, ext], ["delim", b, ext]
    elif sub == "shape":
        # one kind, one name, one bit length set - different members
        k = rng.choice(["plain", "headed"])
        if k == "plain":
            bits = 8 * rng.randint(1, 12)
            a, b = ["struct", fixed_fields(rng, bits)], ["struct", fixed_fields(rng, bits)]
        else:
            a, _n, form, par = gen_headed(rng)
            b = gen_headed(rng, form, par)[0]
        a, b = with_meta(a, **base), with_meta(b, **base)
        if rng.random() < 0.3:
            a[2], b[2] = rng.choice([0, 1, 2]), rng.choice([0, 1, 3])      # number of constants
    elif sub == "approx":
        # equal (min, max, residues mod 32), different sets, different kinds: [8 bits, uint8[<=n]] vs a union of few widths
        n = rng.randint(4, 40)
        ws = sorted({8, 8 * (n + 1)} | {8 * rng.randint(1, n + 1) for _ in range(rng.randint(3, 6))} | {16, 24, 32})
        ws = [w for w in ws if w <= 8 * (n + 1)]
        a = with_meta(["struct", [fixed_piece(rng, 8), ["varr", U8, n]]], **base)
        b = with_meta(["union", [fixed_piece(rng, w, union=True) for w in ws]], **base)
    elif sub == "meta":
        # identical definitions except for one attribute of the definition itself
        t = rng.choice([gen_headed(rng)[0], ["struct", gen_fields(rng, False)], ["union", gen_fields(rng, True)]])
        if rng.random() < 0.3:
            t = ["delim", t, ext_for(rng, t)]
        key = rng.choice(sorted(META_ALTS))
        a = with_meta(t, **base)
        cur = dict(META_DEFAULT)
        cur.update(base)
        b = with_meta(copy.deepcopy(t), **dict(base, **{key: META_ALTS[key](rng, cur[key])}))
        sub = "meta-" + key
    else:
        # one kind, one bit length set, the string forms differ in one place: element type vs capacity, cast mode
        w, c = rng.choice([(8, 4), (8, 2), (16, 2), (8, 8), (16, 4)])
        k = rng.choice(["farr", "varr"])
        cm = rng.choice(["uintsat", "uinttrunc"])
        a = [k, ["prim", w, cm], c]
        b = rng.choice([[k, ["prim", w, "uinttrunc" if cm == "uintsat" else "uintsat"], c],
                        ["farr", ["prim", 2 * w, cm], c // 2] if k == "farr" else [k, ["prim", w, "intsat"], c],
                        [k, ["farr", ["prim", w, cm], 1], c]])
    return (a, b, sub) if rng.random() < 0.5 else (b, a, sub)


def valid_any(t) -> bool:
    if t[0] == "svc":
        return all(st[0] in ("struct", "union", "delim") and L.s_valid(L.strip(st)) for st in (t[1], t[2]))
    return L.s_valid(L.strip(t))


def gen_special(rng, prop):
    """History and cross-kind cases (see the module docstring)."""
    for _ in range(100):
        what = rng.choice(["hist", "hist", "hist", "hist", "xkind", "xkind", "xkind", "hist-attr", "hist-attr", "xattr", "xvalue",
                           "alike", "alike", "alike", "alike", "alike"])
        if what == "alike":
            a, b, sub = gen_lookalike(rng)
            if not (valid_any(a) and valid_any(b) and affordable(a) and affordable(b)):
                continue
            x = rng.random()
            if x < 0.2 and not (a[0] == "prim" or b[0] == "prim"):
                # the look-alikes as the types of two attributes with one name (and, sometimes, two docs)
                nm = rng.choice(["x", "y"])
                da, db = {"type": desc_key(a), "name": nm, "value": None}, {"type": desc_key(b), "name": nm, "value": None}
                if rng.random() < 0.3:
                    da["doc"], db["doc"] = "one", rng.choice(["one", "two"])
                return {"kind": "attr", "class": "alike", "sub": sub, "a": da, "b": db}
            c = {"kind": "type", "class": "alike", "sub": sub, "a": desc_key(a), "b": desc_key(b)}
            if x > 0.85:
                c["hist_a"] = gen_hist(rng, a)
            return c
        if what == "xkind":
            a, b = gen_xkind(rng)
            if not (valid_any(a) and valid_any(b) and affordable(a) and affordable(b)):
                continue
            c = {"kind": "type", "class": "xkind", "a": desc_key(a), "b": desc_key(b)}
            if rng.random() < 0.3:
                c["hist_a"] = gen_hist(rng, a)
            return c
        if what == "xvalue":
            v = gen_value(rng)
            if v[0] == "rat":
                w = ["bool", v[1] != 0] if rng.random() < 0.5 else ["str", [ord(c) for c in str(Fraction(v[1], v[2]))]]
            elif v[0] == "bool":
                w = ["rat", int(v[1]), 1]
            elif v[0] == "str":
                w = ["set", [v]] if rng.random() < 0.5 else ["rat", len(v[1]), 1]
            else:
                w = copy.deepcopy(v[1][0])
            return {"kind": "value", "class": "xkind", "a": v, "b": w} if rng.random() < 0.5 else {"kind": "value", "class": "xkind", "a": w, "b": v}
        if what == "xattr":
            # padding against a nameless void field: two classes, one value (the model and the property see one attribute)
            w = rng.choice([1, 3, 8, 16, 64])
            w2 = w if rng.random() < 0.6 else w % 64 + 1
            if rng.random() < 0.5:
                return {"kind": "attr", "class": "xkind", "a": {"type": desc_key(["void", w]), "name": "", "value": None},
                        "b": {"type": desc_key(["void", w2]), "name": "", "value": None, "as_field": True}}
            # a field against a constant of the same type and name (they used to compare equal with different hashes:
            # genuine defect, repaired in /repo by 09edd0e)
            pt = rng.choice([["prim", 8, "uintsat"], ["prim", 16, "uintsat"], ["prim", 7, "intsat"], ["prim", 1, "bool"], ["prim", 32, "floatsat"]])
            nm = rng.choice(["x", "y", "A"])
            fld = {"type": desc_key(pt), "name": nm, "value": None}
            cst = {"type": desc_key(pt), "name": nm, "value": const_value(rng, pt)}
            return {"kind": "attr", "class": "xkind", "a": fld, "b": cst} if rng.random() < 0.5 else {"kind": "attr", "class": "xkind", "a": cst, "b": fld}
        if rng.random() < 0.25:
            t = gen_svc(rng)
        else:
            t = L.gen_ty(rng, rng.choice([1, 2, 2, 3]), top=rng.random() < 0.8)
        if not (valid_any(t) and affordable(t)):
            continue
        if what == "hist-attr":
            if t[0] == "svc" or (t[0] == "prim" and t[2] in ("byte", "utf8")):
                continue
            name = rng.choice(["x", "y"])
            value = const_value(rng, t) if t[0] == "prim" and rng.random() < 0.7 else None
            a = {"type": desc_key(t), "name": name, "value": value, "hist": gen_hist(rng, t)}
            b = {"type": desc_key(t), "name": name, "value": value}
            if rng.random() < 0.3:
                b["hist"] = gen_hist(rng, t)
            return {"kind": "attr", "class": "hist", "a": a, "b": b}
        t2 = copy.deepcopy(t) if rng.random() < 0.75 or t[0] == "svc" else mutate_type(rng, t)
        if not (valid_any(t2) and affordable(t2)):
            continue
        c = {"kind": "type", "class": "hist", "a": desc_key(t), "b": desc_key(t2), "hist_a": gen_hist(rng, t)}
        if rng.random() < 0.35:
            c["hist_b"] = gen_hist(rng, t2)
        return c
    raise RuntimeError("generator failed")


ACCESSORS = ["attributes", "fields", "fields_except_padding", "constants", "name_components", "namespace_components"]


def alias_check(obj) -> typing.Optional[str]:
    for acc in ACCESSORS:
        if not hasattr(obj, acc):
            continue
        got = getattr(obj, acc)
        if not isinstance(got, list):
            continue
        snap = [str(x) for x in got]
        before = (str(obj), getattr(obj, "short_name", None), getattr(obj, "full_namespace", None))
        got.append(None)
        got.reverse()
        del got[1:]
        again = getattr(obj, acc)
        if [str(x) for x in again] != snap:
            return "mutating the list returned by .%s changed the object (%s -> %s)" % (acc, snap[:4], [str(x) for x in again][:4])
        after = (str(obj), getattr(obj, "short_name", None), getattr(obj, "full_namespace", None))
        if before != after:
            return "mutating the list returned by .%s changed %s -> %s" % (acc, before, after)
    return None


def layout_sig(pydsdl, o):
    if isinstance(o, pydsdl.SerializableType):
        try:
            b = o.bit_length_set
            sig = [b.min, b.max, sorted(b % 32), o.alignment_requirement]
        except TypeError:
            sig = ["no-bls"]
        if isinstance(o, pydsdl.ServiceType):
            sig += [layout_sig(pydsdl, o.request_type), layout_sig(pydsdl, o.response_type)]
        if isinstance(o, pydsdl.CompositeType):
            sig += [None if isinstance(o, pydsdl.ServiceType) else o.extent, [str(a) for a in o.attributes], o.full_name, tuple(o.version), o.deprecated, o.fixed_port_id,
                    o.doc, [(type(a).__name__, a.name, a.doc) for a in o.attributes], str(o.source_file_path), o.has_parent_service]
        return sig
    return None


def pickle_check(pydsdl, o) -> typing.Optional[str]:
    try:
        r = pickle.loads(pickle.dumps(o))
    except Exception as ex:
        return "pickling failed: %s: %s" % (type(ex).__name__, ex)
    if not (r == o and o == r):
        return "unpickled object is not equal to the original"
    if hash(r) != hash(o):
        return "unpickled object hashes differently"
    if type(r) is not type(o) or (str(r) != str(o) and not isinstance(o, pydsdl.BitLengthSet)):
        return "unpickled object has another string form / class: %s vs %s" % (r, o)
    if layout_sig(pydsdl, r) != layout_sig(pydsdl, o):
        return "unpickled object has another layout / attributes"
    if isinstance(o, pydsdl.BitLengthSet) and (r.min, r.max, sorted(r % 32)) != (o.min, o.max, sorted(o % 32)):
        return "unpickled bit length set has another min / max / residues"
    if hasattr(o, "data_type") and (r.name, r.doc, str(r.data_type), layout_sig(pydsdl, r.data_type)) != (o.name, o.doc, str(o.data_type), layout_sig(pydsdl, o.data_type)):
        return "unpickled attribute has another name / doc / data type"
    return None


def nested_check(pydsdl, obj, desc) -> typing.Optional[str]:
    """After the outer object has been compared / hashed: every nested type still has the Specification's layout
    (querying an aggregate must not change what its members report)."""
    k = desc[0]
    if k == "svc":
        return nested_check(pydsdl, obj.request_type, desc[1]) or nested_check(pydsdl, obj.response_type, desc[2])
    try:
        b = obj.bit_length_set
        got = (b.min, b.max, tuple(sorted(b % 32)), tuple(sorted(b % 8)))
    except TypeError:
        return None
    nodes: list = []
    r = L.s_nodes(L.strip(desc), nodes)
    exp = (B.o_min(nodes, r), B.o_max(nodes, r), tuple(sorted(B.o_res(nodes, r, 32))), tuple(sorted(B.o_res(nodes, r, 8))))
    if got != exp:
        return "nested %s reports (min, max, %%32, %%8) = %s, expected %s" % (obj, got, exp)
    if k in ("farr", "varr"):
        return nested_check(pydsdl, obj.element_type, desc[1])
    if k == "delim":
        return nested_check(pydsdl, obj.inner_type, desc[1])
    if k in ("struct", "union"):
        for f, fd in zip(obj.fields, desc[1]):
            r2 = nested_check(pydsdl, f.data_type, fd)
            if r2:
                return r2
    return None


def obs_key(pydsdl, o):
    """What the property lets equality depend on, as the OBJECT shows it: (class, string form, (min, max, residues mod 32))."""
    try:
        b = o.bit_length_set
        bk = [b.min, b.max, sorted(b % 32)]
    except TypeError:
        bk = ["no bit length set"]
    return [type(o).__name__, str(o), bk]


def plain_diff(x, y, where: str, strict_str: bool = True) -> typing.Optional[str]:
    """Two objects that stand for ONE value (an object and its copy / unpickled image / independently built twin)."""
    if type(x) is not type(y):
        return "%s: classes %s / %s" % (where, type(x).__name__, type(y).__name__)
    if not (x == y and y == x) or x != y:
        return "%s %s: not equal to %s" % (where, x, y)
    if hash(x) != hash(y):
        return "%s %s: equal objects hash differently (%d / %d)" % (where, x, hash(x), hash(y))
    if y not in {x} or x not in {y} or len({x, y}) != 1 or {x: 1}.get(y) != 1 or {y: 1}.get(x) != 1:
        return "%s %s: set / dict lookup by the equal object fails" % (where, x)
    if strict_str and str(x) != str(y):
        return "%s: string forms %s / %s" % (where, x, y)
    return None


def value_diff(pydsdl, x, y, where: str) -> typing.Optional[str]:
    """plain_diff, and the same for everything the object is made of (by kind of object)."""
    if isinstance(x, pydsdl.BitLengthSet):
        d = plain_diff(x, y, where, strict_str=False)
        if d is None and isinstance(y, pydsdl.BitLengthSet) and (x.min, x.max, sorted(x % 32), sorted(x % 8)) != (y.min, y.max, sorted(y % 32), sorted(y % 8)):
            d = "%s: min / max / residues differ" % where
        return d
    if isinstance(x, pydsdl.SerializableType):
        return twin_diff(pydsdl, x, y, where) if type(x) is type(y) else plain_diff(x, y, where)
    d = plain_diff(x, y, where)
    if d is None and hasattr(x, "data_type"):       # attributes
        d = twin_diff(pydsdl, x.data_type, y.data_type, where + ".data_type")
        if d is None and (x.name, getattr(x, "doc", None)) != (y.name, getattr(y, "doc", None)):
            d = "%s: name / doc differ" % where
        if d is None and hasattr(x, "value"):
            d = plain_diff(x.value, y.value, where + ".value")
    return d


def images_diff(pydsdl, obj, twin, where: str) -> typing.Optional[str]:
    """`obj` came from elsewhere (another process); `twin` was built here: obj and every image of obj made HERE
    (shallow / deep copy, pickle round trip) stand for the twin's value."""
    d = value_diff(pydsdl, obj, twin, where)
    if d:
        return d
    for how, img in (("copy", copy.copy(obj)), ("deepcopy", copy.deepcopy(obj)), ("pickle", pickle.loads(pickle.dumps(obj)))):
        d = value_diff(pydsdl, img, twin, "%s of %s" % (how, where))
        if d:
            return d
    return None


def build_pair(pydsdl, case, history: bool = True):
    """(a, b, history of a, history of b) of a case; `history=False`: the same two values built the plain way."""
    k = case["kind"]
    if k == "bls":
        objs = B.build_impl(pydsdl, case["nodes"], case["how"])
        return objs[case["a"]], objs[case["b"]], None, None
    if k == "type":
        a, ha = build_any(pydsdl, case["a"]["ty"], case.get("hist_a") if history else None)
        b, hb = build_any(pydsdl, case["b"]["ty"], case.get("hist_b") if history else None)
        return a, b, ha, hb
    if k == "attr":
        rec: list = []
        if history:
            a, b = build_attr(pydsdl, case["a"], record=rec), build_attr(pydsdl, case["b"], record=rec)
        else:
            a, b = build_attr(pydsdl, case["a"], hist=[], record=rec), build_attr(pydsdl, case["b"], hist=[], record=rec)
        return a, b, rec[0], rec[1]
    return build_value(pydsdl, case["a"]), build_value(pydsdl, case["b"]), None, None


def bundle(pydsdl, a, b) -> dict:
    """What crosses the process boundary: the two objects alone, in containers, and inside bigger objects."""
    out = {"a": a, "b": b, "list": [a, b, a], "tuple": (b, a), "dict": {"k": a, "l": [b]}}
    try:
        if isinstance(a, pydsdl.SerializableType) and not isinstance(a, pydsdl.ServiceType) and not isinstance(a, pydsdl.VoidType) \
                and not (isinstance(a, pydsdl.CompositeType) and a.has_parent_service):
            out["field_of_a"] = pydsdl.Field(a, "w")
            if not isinstance(a, (pydsdl.UTF8Type, pydsdl.ByteType)):
                out["holder_of_a"] = pydsdl.StructureType(
                    name="ns.Holder", version=pydsdl.Version(1, 0), attributes=[pydsdl.Field(a, "w"), pydsdl.PaddingField(pydsdl.VoidType(8)), pydsdl.Constant(pydsdl.UnsignedIntegerType(8, pydsdl.PrimitiveType.CastMode.SATURATED), "C", pydsdl.Rational(7))],
                    deprecated=False, fixed_port_id=None, source_file_path=Path("/nonexistent/ns/Holder.1.0.dsdl"), has_parent_service=False)
    except pydsdl.InvalidDefinitionError:
        pass   # e.g. a deprecated type cannot be held by a non-deprecated one
    return out


def bundle_diff(pydsdl, got: dict, fresh: dict) -> typing.Optional[str]:
    if sorted(got) != sorted(fresh):
        return "bundle keys %s / %s" % (sorted(got), sorted(fresh))
    pairs = [("a", got["a"], fresh["a"]), ("b", got["b"], fresh["b"]), ("list[0]", got["list"][0], fresh["a"]), ("list[1]", got["list"][1], fresh["b"]),
             ("tuple[0]", got["tuple"][0], fresh["b"]), ("dict value", got["dict"]["k"], fresh["a"]), ("dict list value", got["dict"]["l"][0], fresh["b"])]
    for k in ("field_of_a", "holder_of_a"):
        if k in fresh:
            pairs.append((k, got[k], fresh[k]))
    for where, x, y in pairs:
        # the two objects themselves also through every kind of image made on this side; their other occurrences as they are
        d = images_diff(pydsdl, x, y, where) if where in ("a", "b") else value_diff(pydsdl, x, y, where)
        if d:
            return d
    return None


def xproc_child() -> None:
    """Runs in ANOTHER interpreter process (other string-hash seed): unpickle the parent's bundle, build the same values
    here, compare; send a bundle built (and hashed) here back."""
    import json
    import sys

    pydsdl = common.import_pydsdl()
    req = json.loads(sys.stdin.read())
    a, b, _, _ = build_pair(pydsdl, req["case"], history=False)
    fresh = bundle(pydsdl, a, b)
    try:
        got = pickle.loads(bytes.fromhex(req["blob"]))
        d = bundle_diff(pydsdl, got, fresh)
    except Exception as ex:
        d = "unpickling / using the unpickled objects raised %s: %s" % (type(ex).__name__, ex)
    for o in (a, b):
        hash(o)
    print(json.dumps({"diff": d, "back": pickle.dumps(fresh).hex(), "seed": sys.flags.hash_randomization and __import__("os").environ.get("PYTHONHASHSEED")}))


_CHILD = r"""
import sys
sys.path.insert(0, %r)
sys.path.insert(0, %r)
import common
from suites import values as V
V.xproc_child()
"""


def cross_process_check(pydsdl, case, a, b) -> typing.Optional[str]:
    """Pickle here (after hashing), unpickle in a process with ANOTHER hash seed and compare there with independently
    built twins; then the same in the other direction."""
    import json
    import os
    import subprocess
    import sys

    for o in (a, b):
        hash(o)
    mine = bundle(pydsdl, a, b)
    for o in mine.values():
        try:
            hash(o)
        except TypeError:
            pass    # the containers
    c = {k: v for k, v in case.items() if k not in ("id", "hist_a", "hist_b")}
    env = dict(os.environ)
    env["PYTHONHASHSEED"] = "12345" if env.get("PYTHONHASHSEED") != "12345" else "54321"
    env["VERIF_REPO"] = str(common.REPO)
    code = _CHILD % (str(common.REPO), str(Path(__file__).resolve().parent.parent))
    try:
        r = subprocess.run([sys.executable, "-c", code], input=json.dumps({"case": c, "blob": pickle.dumps(mine).hex()}), env=env,
                           stdout=subprocess.PIPE, stderr=subprocess.PIPE, text=True, timeout=100)
    except subprocess.TimeoutExpired:
        return "unpickling in another process timed out"
    if r.returncode != 0:
        return "unpickling in another process failed: %s" % r.stderr[-300:]
    res = json.loads(r.stdout.strip().splitlines()[-1])
    if res["diff"]:
        return "pickled here, unpickled by a process with another hash seed, against a twin built there: %s" % res["diff"]
    try:
        back = pickle.loads(bytes.fromhex(res["back"]))
        d = bundle_diff(pydsdl, back, mine)
    except Exception as ex:
        d = "raised %s: %s" % (type(ex).__name__, ex)
    if d:
        return "pickled by a process with another hash seed, unpickled here, against a twin built here: %s" % d
    return None


def corpus_alike() -> list:
    """Look-alikes whose every observable but one coincides (see gen_lookalike)."""
    q = {"name": "Q"}
    u16, u24 = ["prim", 16, "uintsat"], ["prim", 24, "uintsat"]
    hdr = ["struct", [u16, ["void", 8], ["varr", U8, 255]]]                      # {32 + 8k | k <= 255}
    hdr_u = ["union", [u24, ["struct", [u16, ["varr", U8, 3]]]]]                  # {32 + 8k | k <= 3}
    pairs = [
        ("sealed-delim", with_meta(["struct", [u16, u16]], **q), with_meta(["delim", ["struct", []], 0], **q)),
        ("sealed-delim", with_meta(hdr, **q), with_meta(["delim", ["struct", [U8]], 2040], **q)),
        ("sealed-delim", with_meta(["delim", ["union", [U8, u16]], 24], **q), with_meta(hdr_u, **q)),
        ("sealed-delim", with_meta(["struct", [["varr", ["prim", 8, "byte"], 70000]]], **q), with_meta(["delim", ["struct", [["varr", U8, 9]]], 560000], **q)),
        ("struct-union", with_meta(["struct", [U8, u16]], **q), with_meta(["union", [u16, u16]], **q)),
        ("approx", with_meta(["struct", [U8, ["varr", U8, 7]]], **q), with_meta(["union", [["prim", w, "uintsat"] for w in (8, 16, 24, 32, 64)]], **q)),
        ("shape", with_meta(["struct", [u16]], **q), with_meta(["struct", [U8, ["void", 8]]], **q)),
        ("meta-dep", with_meta(["struct", [U8]], **q), with_meta(["struct", [U8]], name="Q", dep=True)),
        ("meta-pid", with_meta(["struct", [U8]], **q), with_meta(["struct", [U8]], name="Q", pid=7509)),
        ("meta-ver", with_meta(["struct", [U8]], **q), with_meta(["struct", [U8]], name="Q", ver=[1, 1])),
        ("meta-ns", with_meta(["delim", ["struct", [U8]], 8], **q), with_meta(["delim", ["struct", [U8]], 8], name="Q", ns="ns.sub")),
    ]
    out = []
    for sub, a, b in pairs:
        out.append({"kind": "type", "class": "alike", "sub": sub, "a": desc_key(a), "b": desc_key(b)})
        out.append({"kind": "type", "class": "alike", "sub": sub, "a": desc_key(b), "b": desc_key(a)})
    a, b = pairs[1][1], pairs[1][2]
    out.append({"kind": "attr", "class": "alike", "sub": "sealed-delim", "a": {"type": desc_key(a), "name": "x", "value": None}, "b": {"type": desc_key(b), "name": "x", "value": None}})
    out.append({"kind": "attr", "class": "alike", "sub": "doc", "a": {"type": desc_key(U8), "name": "x", "value": None, "doc": "one"},
                "b": {"type": desc_key(U8), "name": "x", "value": None, "doc": "two"}})
    return out


def corpus_xproc() -> list:
    """One object of every kind the property covers crosses a process boundary (pickle <-> another hash seed)."""
    u16 = ["prim", 16, "uintsat"]
    s1 = ["struct", [U8, ["void", 3], ["varr", ["struct", [u16], 2], 3]]]
    types = [
        U8, ["prim", 1, "bool"], ["prim", 32, "floattrunc"], ["prim", 7, "intsat"], ["void", 5], ["farr", ["prim", 8, "byte"], 3], ["varr", ["prim", 8, "utf8"], 300],
        s1, ["union", [s1, u16]], ["delim", s1, 1024], ["varr", ["delim", ["union", [U8, u16]], 64], 2],
        ["svc", ["struct", [U8]], ["delim", ["union", [u16, U8]], 64]], with_meta(["struct", [u16], 1], name="Q", ver=[0, 3], dep=True, pid=11, doc="d"),
    ]
    out = [{"kind": "type", "xproc": True, "a": desc_key(t), "b": desc_key(copy.deepcopy(t))} for t in types]
    attrs = [
        {"type": desc_key(U8), "name": "x", "value": None},
        {"type": desc_key(["void", 8]), "name": "", "value": None},
        {"type": desc_key(s1), "name": "y", "value": None, "doc": "doc"},
        {"type": desc_key(U8), "name": "A", "value": ["rat", 200, 1]},
        {"type": desc_key(["prim", 1, "bool"]), "name": "B", "value": ["bool", True]},
        {"type": desc_key(["prim", 32, "floatsat"]), "name": "C", "value": ["rat", -3, 4]},
        {"type": desc_key(U8), "name": "D", "value": ["str", [97]]},
    ]
    out += [{"kind": "attr", "xproc": True, "a": d, "b": copy.deepcopy(d)} for d in attrs]
    values = [["rat", 2, 4], ["rat", 10**30, 7], ["bool", False], ["str", [ord(c) for c in "café"]], ["str", []],
              ["set", [["str", [97]], ["str", [98, 99]]]], ["set", [["rat", 1, 2], ["rat", 3, 1]]]]
    out += [{"kind": "value", "xproc": True, "a": v, "b": copy.deepcopy(v)} for v in values]
    out.append({"kind": "bls", "xproc": True, "nodes": [["leaf", [8, 16]], ["rrep", 0, 3], ["leaf", [32]], ["cat", [2, 1]], ["pad", 3, 8]],
                "how": ["set", "", "int", "op", ""], "a": 4, "b": 1})
    return out


XPROC_SHARE = 0.04


def xproc_size(case) -> int:
    """Number of objects a case builds (the cross-process probe compares them member by member, several times)."""
    def size(t):
        return n_nodes(t) + sum(st[2] for st in sub_types(t) if st[0] in ("struct", "union") and len(st) > 2)     # (+ constants)

    if case["kind"] == "type":
        return size(case["a"]["ty"]) + size(case["b"]["ty"])
    if case["kind"] == "attr":
        return size(case["a"]["type"]["ty"]) + size(case["b"]["type"]["ty"])
    return 1


class ValuesSuite(common.Suite):
    name = "values"

    def generate(self, rng, n, prop, tier):
        cases = []
        for _ in range(n):
            c = gen_case(rng, prop)
            # a share of the cases of EVERY kind also crosses a process boundary (pickle <-> another hash seed)
            if rng.random() < XPROC_SHARE and xproc_size(c) <= 80:
                c["xproc"] = True
            cases.append(c)
        return cases

    def corpus(self, prop):
        u8 = ["prim", 8, "uintsat"]
        s1 = ["struct", [u8]]
        s2 = ["struct", [["prim", 16, "uintsat"]]]
        nfc, nfd = [ord(c) for c in "café"], [ord(c) for c in "café"]
        return [
            {"kind": "value", "a": ["str", nfc], "b": ["str", nfd]},
            {"kind": "value", "a": ["str", nfc], "b": ["str", list(nfc)]},
            {"kind": "value", "a": ["set", [["str", nfc]]], "b": ["set", [["str", nfd]]]},
            {"kind": "value", "a": ["rat", 2, 4], "b": ["rat", 1, 2]},
            {"kind": "type", "a": desc_key(["farr", s1, 3]), "b": desc_key(["farr", s2, 3])},
            {"kind": "type", "a": desc_key(["varr", ["struct", [s1, u8]], 3]), "b": desc_key(["varr", ["struct", [s2, u8]], 3])},
            {"kind": "type", "a": desc_key(["struct", [u8, ["void", 3]]]), "b": desc_key(["struct", [u8, ["void", 3]]])},
            {"kind": "attr", "a": {"type": desc_key(["farr", s1, 2]), "name": "x", "value": None}, "b": {"type": desc_key(["farr", s2, 2]), "name": "x", "value": None}},
            {"kind": "type", "a": desc_key(["prim", 8, "uintsat"]), "b": desc_key(["prim", 8, "byte"])},
            {"kind": "type", "xproc": True, "a": desc_key(["struct", [u8, ["varr", s1, 3]]]), "b": desc_key(["struct", [u8, ["varr", s1, 3]]])},
            {"kind": "type", "a": desc_key(["union", [["farr", ["prim", 3, "uintsat"], 3], ["prim", 16, "uintsat"]]]), "b": desc_key(["union", [["farr", ["prim", 3, "uintsat"], 3], ["prim", 16, "uintsat"]]])},
            {"kind": "type", "a": desc_key(["struct", [["union", [["struct", [["prim", 5, "uintsat"]]], u8]], u8]]), "b": desc_key(["struct", [["union", [["struct", [["prim", 5, "uintsat"]]], u8]], u8]])},
            {"kind": "type", "a": desc_key(["void", 8]), "b": desc_key(["prim", 8, "uintsat"])},
            # histories: the inner type is a dict key before it is wrapped / the element before the array / the sections before the service
            {"kind": "type", "class": "hist", "a": desc_key(["delim", s1, 64]), "b": desc_key(["delim", s1, 64]), "hist_a": [[1, ["dict"]]]},
            {"kind": "type", "class": "hist", "a": desc_key(["farr", ["union", [u8, s2]], 3]), "b": desc_key(["farr", ["union", [u8, s2]], 3]),
             "hist_a": [[2, ["hash"]], [3, ["set", "pickle"]]], "hist_b": [[4, ["hash"]]]},
            {"kind": "type", "class": "hist", "a": desc_key(["svc", s1, ["delim", s2, 64]]), "b": desc_key(["svc", s1, ["delim", s2, 64]]),
             "hist_a": [[1, ["hash", "wrap"]], [3, ["set"]], [4, ["deepcopy"]]]},
            {"kind": "attr", "class": "hist", "a": {"type": desc_key(s1), "name": "x", "value": None, "hist": [[1, ["hash", "wrap"]]]},
             "b": {"type": desc_key(s1), "name": "x", "value": None}},
            # one name, different kinds
            {"kind": "type", "class": "xkind", "a": desc_key(["svc", s1, s2]), "b": desc_key(s1)},
            {"kind": "type", "class": "xkind", "a": desc_key(["union", [u8, u8]]), "b": desc_key(["svc", ["union", [u8, u8]], ["struct", []]])},
            {"kind": "type", "class": "xkind", "a": desc_key(["svc", s1, s2]), "b": desc_key(["delim", s1, 8])},
            {"kind": "type", "class": "xkind", "a": desc_key(["struct", [u8, u8]]), "b": desc_key(["union", [u8, u8]])},
            {"kind": "type", "class": "xkind", "a": desc_key(s1), "b": desc_key(["delim", s1, 8])},
            {"kind": "attr", "class": "xkind", "a": {"type": desc_key(["void", 8]), "name": "", "value": None},
             "b": {"type": desc_key(["void", 8]), "name": "", "value": None, "as_field": True}},
            {"kind": "value", "class": "xkind", "a": ["rat", 1, 1], "b": ["bool", True]},
        ] + corpus_alike() + corpus_xproc()

    def run_impl(self, case):
        pydsdl = common.import_pydsdl()
        k = case["kind"]
        try:
            a, b, ha, hb = build_pair(pydsdl, case)
        except Exception as ex:
            return {"res": "exc:%s" % type(ex).__name__, "soft_msg": str(ex)[:200]}
        out: dict = {"res": "ok"}
        try:
            out["eq"] = bool(a == b)
            out["sym"] = bool(b == a) == out["eq"] and bool(a != b) == (not out["eq"])
            out["refl"] = bool(a == a) and bool(b == b) and not (a != a)
            out["hash_eq"] = hash(a) == hash(b)
            out["hash_stable"] = hash(a) == hash(a) and hash(copy.copy(a)) == hash(a) and hash(copy.deepcopy(b)) == hash(b)
            out["str_a"], out["str_b"] = str(a), str(b)
            out["cls_a"], out["cls_b"] = type(a).__name__, type(b).__name__
            # what the objects THEMSELVES show of the observables the property lets equality depend on
            if k == "type":
                out["obs_a"], out["obs_b"] = obs_key(pydsdl, a), obs_key(pydsdl, b)
            elif k == "attr":
                out["obs_a"], out["obs_b"] = obs_key(pydsdl, a.data_type), obs_key(pydsdl, b.data_type)
            # equal objects are interchangeable as set members / dict keys; unequal ones are two members
            out["container_ok"] = ((b in {a}) == out["eq"] and (a in {b}) == out["eq"] and len({a, b}) == (1 if out["eq"] else 2)
                                   and ({a: 1}.get(b) == 1) == out["eq"] and ([b].count(a) == 1) == out["eq"])
            if k in ("type", "attr"):
                hk = None
                if k == "type":
                    hk = (history_check(pydsdl, a, case["a"]["ty"], ha, lambda: build_any(pydsdl, case["a"]["ty"])[0])
                          or history_check(pydsdl, b, case["b"]["ty"], hb, lambda: build_any(pydsdl, case["b"]["ty"])[0]))
                else:
                    hk = (history_check(pydsdl, a, None, ha, lambda: build_attr(pydsdl, case["a"], hist=[]))
                          or history_check(pydsdl, b, None, hb, lambda: build_attr(pydsdl, case["b"], hist=[])))
                out["history_ok"] = hk is None
                if hk:
                    out["soft_history"] = hk
            al = alias_check(a) or alias_check(b)
            out["alias_ok"] = al is None
            if al:
                out["soft_alias"] = al
            pk = pickle_check(pydsdl, a) or pickle_check(pydsdl, b)
            if k == "type":
                nk = nested_check(pydsdl, a, case["a"]["ty"]) or nested_check(pydsdl, b, case["b"]["ty"])
                if nk:
                    out["nested_ok"] = False
                    out["soft_nested"] = nk
            # the cases the generator marked also cross a process boundary (both ways), whatever kind of object they hold
            if pk is None and case.get("xproc"):
                pk = cross_process_check(pydsdl, case, a, b)
            out["pickle_ok"] = pk is None
            if pk:
                out["soft_pickle"] = pk
        except Exception as ex:
            return {"res": "exc:%s" % type(ex).__name__, "soft_msg": str(ex)[:200]}
        return out

    def model_case(self, case):
        # Expression strings are identified by their NFC-normalised form (the Specification's notion of string equality;
        # String.__eq__/__hash__ since repo fix 5c4ff03): the key model receives the normal form, computed here with
        # unicodedata (trusted reference), as the code points of the string.
        case = nfc_values(case)
        c = {"id": case["id"], "kind": case["kind"]}
        if case["kind"] == "bls":
            c.update(nodes=case["nodes"], a=case["a"], b=case["b"])
        elif case["kind"] == "type":
            # histories are invisible to the model (values have none); a service has no layout: ["svc"]
            for side in ("a", "b"):
                d = case[side]
                c[side] = {"ty": ["svc"] if has_svc(d["ty"]) else L.strip(d["ty"]), "cls": d["cls"], "str": d["str"]}
        elif case["kind"] == "attr":
            for side in ("a", "b"):
                d = case[side]
                c[side] = {"type": {"ty": L.strip(d["type"]["ty"]), "cls": d["type"]["cls"], "str": d["type"]["str"]},
                           "name": d["name"], "value": d["value"]}
        else:
            c["a"], c["b"] = case["a"], case["b"]
        return c

    def compare(self, case, impl, model, prop):
        if impl.get("res") != "ok":
            return "impl %s (%s), model %s" % (impl.get("res"), impl.get("soft_msg"), model)
        if "err" in model:
            return "model error %s" % model["err"]
        if impl["eq"] != model["eq"]:
            return "eq: impl=%s model=%s" % (impl["eq"], model["eq"])
        if model.get("hash_eq") and not impl["hash_eq"]:
            return "hash keys equal in the model but the hashes differ"
        return None

    def oracle(self, case, impl, prop):
        if impl.get("res") != "ok":
            return "building / comparing valid objects raised %s: %s" % (impl.get("res"), impl.get("soft_msg"))
        if not impl["refl"]:
            return "equality is not reflexive"
        if not impl["sym"]:
            return "equality is not symmetric (or != disagrees with ==)"
        if impl["eq"] and not impl["hash_eq"]:
            return "equal objects have different hashes: %s vs %s" % (impl["str_a"], impl["str_b"])
        if not impl["hash_stable"]:
            return "hash of an object is not stable"
        if not impl["alias_ok"]:
            return "accessor aliasing: %s" % impl.get("soft_alias")
        if not impl["pickle_ok"]:
            return "pickle: %s" % impl.get("soft_pickle")
        if impl.get("nested_ok") is False:
            return "aliasing: %s" % impl.get("soft_nested")
        if impl.get("container_ok") is False:
            return "set / dict / list membership disagrees with ==: %s vs %s" % (impl["str_a"], impl["str_b"])
        if impl.get("history_ok") is False:
            return "history: %s" % impl.get("soft_history")
        k = case["kind"]
        # equal objects are indistinguishable in every observable the property lets equality depend on (judged on what the
        # objects themselves show, whatever they were built from)
        if impl["eq"] and impl.get("obs_a") != impl.get("obs_b"):
            names = ("kind", "string form", "bit length set (min, max, residues mod 32)")
            diff = [n for n, x, y in zip(names, impl["obs_a"], impl["obs_b"]) if x != y]
            return "%s compare equal although they differ in %s: %s %s vs %s %s" % (
                "types" if k == "type" else "attributes whose data types", ", ".join(diff), impl["obs_a"][0], impl["obs_a"][1], impl["obs_b"][0], impl["obs_b"][1])
        if k == "type" or k == "attr":
            da = case["a"] if k == "type" else case["a"]["type"]
            db = case["b"] if k == "type" else case["b"]["type"]
            same_desc = da["ty"] == db["ty"]
            differs = da["cls"] != db["cls"] or da["str"] != db["str"] or bls_key(da["ty"]) != bls_key(db["ty"])
            if k == "type":
                if impl["str_a"] != da["str"] or impl["str_b"] != db["str"]:
                    return "normalised string form: %s / %s, expected %s / %s" % (impl["str_a"], impl["str_b"], da["str"], db["str"])
                if impl["cls_a"] != da["cls"] or impl["cls_b"] != db["cls"]:
                    return "class: %s / %s, expected %s / %s" % (impl["cls_a"], impl["cls_b"], da["cls"], db["cls"])
            if k == "attr":
                same_rest = case["a"]["name"] == case["b"]["name"] and val_eq(case["a"]["value"], case["b"]["value"])
                same_doc = case["a"].get("doc", "") == case["b"].get("doc", "")      # (the property is silent about docs)
                if same_desc and same_rest and same_doc and not impl["eq"]:
                    return "attributes built from equal descriptions are unequal"
                if (differs or not same_rest) and impl["eq"]:
                    return "attributes that differ in type / name / value compare equal: %s vs %s" % (impl["str_a"], impl["str_b"])
                return None
            if same_desc and not impl["eq"]:
                return "types built from equal descriptions are unequal: %s" % impl["str_a"]
            if differs and impl["eq"]:
                return "types that differ in kind, string form or bit length set compare equal: %s (%s) vs %s (%s)" % (impl["str_a"], bls_key(da["ty"]), impl["str_b"], bls_key(db["ty"]))
        elif k == "value":
            exp = val_eq(case["a"], case["b"])
            if impl["eq"] != exp:
                return "values %s and %s: == gives %s" % (impl["str_a"], impl["str_b"], impl["eq"])
        elif k == "bls":
            nodes = case["nodes"]
            i, j = case["a"], case["b"]
            di, dj = B.o_den(nodes, i, 400, {}), B.o_den(nodes, j, 400, {})
            if di is not None and dj is not None and di == dj and not impl["eq"]:
                return "equal bit length sets reported as different"
            ka = (B.o_min(nodes, i), B.o_max(nodes, i), B.o_res(nodes, i, 32))
            kb = (B.o_min(nodes, j), B.o_max(nodes, j), B.o_res(nodes, j, 32))
            if ka == kb and not impl["eq"]:
                return "bit length sets with equal min / max / residues reported as different"
            if ka != kb and impl["eq"]:
                return "bit length sets that differ in min / max / residues mod 32 compare equal"
        return None

    def signature(self, case, desc, prop):
        return "values/%s/%s" % (case["kind"], desc.split(":")[0][:50])

    def shrink(self, case):
        # histories only: fewer used objects, fewer uses per object
        keys = [(None, "hist_a"), (None, "hist_b")] if case["kind"] == "type" else [("a", "hist"), ("b", "hist")] if case["kind"] == "attr" else []
        for side, key in keys:
            holder = case if side is None else case[side]
            hh = holder.get(key)
            if not hh:
                continue
            for i in range(len(hh)):
                for smaller in ([hh[:i] + hh[i + 1:]] + [hh[:i] + [[hh[i][0], hh[i][1][:j] + hh[i][1][j + 1:]]] + hh[i + 1:]
                                                       for j in range(len(hh[i][1])) if len(hh[i][1]) > 1]):
                    c = copy.deepcopy(case)
                    (c if side is None else c[side])[key] = smaller
                    yield c

    def features(self, case, impl):
        yield "kind:" + case["kind"]
        if case.get("class"):
            yield "class:" + case["class"]
        if case.get("xproc"):
            yield "xproc:" + case["kind"]
            if impl.get("res") == "ok":
                yield "xproc-cls:" + impl["cls_a"]
        if case.get("class") == "alike":
            da, db = (case["a"], case["b"]) if case["kind"] == "type" else (case["a"]["type"], case["b"]["type"])
            same = (da["cls"] == db["cls"], da["str"] == db["str"], bls_key(da["ty"]) == bls_key(db["ty"]))
            yield "alike:%s:%s:kind%sstr%sbls%s" % (case["kind"], case.get("sub"), *("=" if x else "!" for x in same))
        hists = [case.get("hist_a"), case.get("hist_b")] if case["kind"] == "type" else \
            [case["a"].get("hist"), case["b"].get("hist")] if case["kind"] == "attr" else []
        for hh in hists:
            for _slot, ops in hh or []:
                for op in ops:
                    yield "hist-op:" + op
        if case.get("class") == "xkind" and case["kind"] == "type":
            yield "xkind:%s/%s%s" % (case["a"]["cls"], case["b"]["cls"], ":same-str" if case["a"]["str"] == case["b"]["str"] else "")
        if impl.get("res") == "ok":
            yield "eq:%s" % impl["eq"]
            if case["kind"] in ("type", "attr"):
                da = case["a"] if case["kind"] == "type" else case["a"]["type"]
                yield "cls:" + da["cls"]

    def nontrivial(self, case, impl):
        return impl.get("res") == "ok"


def nfc_cps(cps):
    import unicodedata

    try:
        return [ord(c) for c in unicodedata.normalize("NFC", "".join(chr(c) for c in cps))]
    except (ValueError, TypeError):
        return list(cps)


def nfc_value(v):
    if isinstance(v, list) and v and v[0] == "str":
        return ["str", nfc_cps(v[1])]
    if isinstance(v, list) and v and v[0] == "set":
        return ["set", [nfc_value(x) for x in v[1]]]
    return v


def nfc_values(case):
    c = dict(case)
    if case.get("kind") == "value":
        c["a"], c["b"] = nfc_value(case["a"]), nfc_value(case["b"])
    elif case.get("kind") == "attr":
        for side in ("a", "b"):
            d = dict(case[side])
            d["value"] = nfc_value(d.get("value"))
            c[side] = d
    return c


def val_eq(a, b) -> bool:
    if a is None or b is None:
        return a is None and b is None
    if a[0] != b[0]:
        return False
    if a[0] == "rat":
        return Fraction(a[1], a[2]) == Fraction(b[1], b[2])
    if a[0] == "str":
        return nfc_cps(a[1]) == nfc_cps(b[1])
    if a[0] == "bool":
        return a[1] == b[1]
    return all(any(val_eq(x, y) for y in b[1]) for x in a[1]) and all(any(val_eq(x, y) for y in a[1]) for x in b[1])


SUITE = ValuesSuite()
