"""
Suite `values` (C18): pairs of value objects of the same class built INDEPENDENTLY from equal or different
descriptions — bit length sets, types (primitives, arrays, composites), attributes (fields, constants), expression
values (Rational, Boolean, String, Set) — observed through ==, hash, pickling and mutation of every list returned by
a public accessor.

Outcome: {"eq", "sym", "refl", "hash_eq", "alias_ok", "pickle_ok", "str_a", "str_b"}.
The Lean model decides `eq` (and the hash-key equality) from the keys the library's __eq__/__hash__ inspect.
Oracle (independent): reflexive, symmetric, eq -> equal hashes, equal descriptions -> equal objects, objects that
differ in class, string form or (min, max, residues mod 32) of the bit length set -> unequal, accessor lists are
copies, pickling round-trips.
"""
from __future__ import annotations

import copy
import pickle
import random
import typing
import unicodedata
from fractions import Fraction
from pathlib import Path

import common
from suites import bls as B
from suites import layout as L


# ------------------------------------------------------------------------------- descriptions -> strings / keys

def type_str(t, names: L._Names) -> str:
    """The normalised string form the Specification prescribes for a type expression."""
    k = t[0]
    if k == "prim":
        kind = t[2]
        if kind in ("bool", "byte", "utf8"):
            return kind
        cm = "truncated " if kind.endswith("trunc") else "saturated "
        base = "float" if kind.startswith("float") else "int" if kind.startswith("int") else "uint"
        return cm + base + str(t[1])
    if k == "void":
        return "void%d" % t[1]
    if k == "farr":
        return "%s[%d]" % (type_str(t[1], names), t[2])
    if k == "varr":
        return "%s[<=%d]" % (type_str(t[1], names), t[2])
    if k == "delim":
        return type_str(t[1], names)
    # composites are named ns.T<n> in construction order (children first), like layout.build_impl does
    for f in t[1]:
        type_str(f, names)
    return "ns.%s.1.0" % names.fresh()


def type_cls(t) -> str:
    k = t[0]
    if k == "prim":
        kind = t[2]
        return {"bool": "BooleanType", "byte": "ByteType", "utf8": "UTF8Type"}.get(
            kind, "FloatType" if kind.startswith("float") else "SignedIntegerType" if kind.startswith("int") else "UnsignedIntegerType")
    return {"void": "VoidType", "farr": "FixedLengthArrayType", "varr": "VariableLengthArrayType", "struct": "StructureType",
            "union": "UnionType", "delim": "DelimitedType"}[k]


def bls_key(t):
    nodes: list = []
    r = L.s_nodes(L.strip(t), nodes)
    return (B.o_min(nodes, r), B.o_max(nodes, r), tuple(sorted(B.o_res(nodes, r, 32))))


# ------------------------------------------------------------------------------- generators

def mutate_type(rng, t):
    """A description that differs from `t` in one place (possibly only deep inside a same-named composite)."""
    t = copy.deepcopy(t)
    path = []
    cur = t
    while True:
        k = cur[0]
        opts = ["here"]
        if k in ("farr", "varr", "delim"):
            opts += ["down", "down"]
        if k in ("struct", "union") and cur[1]:
            opts += ["down", "down"]
        c = rng.choice(opts)
        if c == "here":
            break
        if k in ("farr", "varr", "delim"):
            cur = cur[1]
        else:
            cur = cur[1][rng.randrange(len(cur[1]))]
    k = cur[0]
    if k == "prim":
        kind = cur[2]
        if kind in ("bool", "byte", "utf8"):
            cur[:] = ["prim", 8, "uintsat"] if kind != "bool" else ["prim", 1, "uintsat"]
        else:
            ch = rng.choice(["width", "cast", "sign"])
            if ch == "width" and not kind.startswith("float"):
                cur[1] = cur[1] + 1 if cur[1] < 64 else cur[1] - 1
                if kind.startswith("int") and cur[1] < 2:
                    cur[1] = 2
            elif ch == "cast" and not kind.startswith("int"):
                cur[2] = kind[:-5] + "sat" if kind.endswith("trunc") else kind[:-3] + "trunc"
            elif kind.startswith("float"):
                cur[1] = {16: 32, 32: 64, 64: 16}[cur[1]]
            elif kind.startswith("uint") and cur[1] >= 2:
                cur[2] = "intsat"
            else:
                cur[1] = cur[1] + 1 if cur[1] < 64 else cur[1] - 1
    elif k == "void":
        cur[1] = cur[1] + 1 if cur[1] < 64 else 1
    elif k in ("farr", "varr"):
        ch = rng.choice(["cap", "cap", "kind"])
        if ch == "cap":
            cur[2] = cur[2] + rng.choice([1, 32, 256])
        else:
            cur[0] = "varr" if k == "farr" else "farr"
            if cur[1][0] == "prim" and cur[1][2] == "utf8":
                cur[1] = ["prim", 8, "byte"]
    elif k in ("struct", "union"):
        ch = rng.choice(["add", "drop", "swap"])
        if ch == "add" or len(cur[1]) < 3:
            cur[1].append(["prim", rng.choice([1, 8, 16, 32]), "uintsat"])
        elif ch == "drop":
            cur[1].pop()
        else:
            cur[1][0], cur[1][-1] = cur[1][-1], cur[1][0]
    elif k == "delim":
        cur[2] += 8 * rng.choice([1, 4, 32])
    return t


def gen_value(rng, kinds=("rat", "rat", "bool", "str", "str", "set")):
    k = rng.choice(kinds)
    if k == "rat":
        return ["rat", rng.choice([0, 1, -1, 2, 3, 7, 255, -128, 2**64, 10**30]), rng.choice([1, 1, 2, 3, 7, 1000])]
    if k == "bool":
        return ["bool", rng.random() < 0.5]
    if k == "str":
        s = rng.choice(["", "a", "A", "abc", "café", "café", "Å", "Å", "Å", "가", "가", "x y", "\U0001f600", "q̣̇", "q̣̇"])
        return ["str", [ord(c) for c in s]]
    n = rng.randint(1, 4)
    kind = rng.choice(["rat", "str"])
    return ["set", [gen_value(rng, (kind,)) for _ in range(n)]]


def variant_value(rng, v):
    """Same mathematical value written differently, or a different one."""
    v = copy.deepcopy(v)
    ch = rng.random()
    if v[0] == "rat":
        if ch < 0.5:
            m = rng.choice([2, 3, 10, 2**40])
            return ["rat", v[1] * m, v[2] * m]
        return ["rat", v[1] + rng.choice([1, -1, 2**64]), v[2]]
    if v[0] == "bool":
        return ["bool", v[1] if ch < 0.5 else not v[1]]
    if v[0] == "str":
        s = "".join(chr(c) for c in v[1])
        if ch < 0.35:
            return v
        if ch < 0.7:
            alt = unicodedata.normalize(rng.choice(["NFC", "NFD"]), s)
            return ["str", [ord(c) for c in alt]]
        return ["str", v[1] + [ord("z")]]
    if ch < 0.4:
        e = list(v[1])
        rng.shuffle(e)
        return ["set", e + e[:1]]
    if ch < 0.7:
        return ["set", [variant_value(rng, x) for x in v[1]]]
    return ["set", v[1][:-1] if len(v[1]) > 1 else v[1] + [v[1][0][:1] + ([v[1][0][1] + 1, v[1][0][2]] if v[1][0][0] == "rat" else [v[1][0][1] + [33]])]]


def gen_case(rng, prop):
    kind = rng.choice(["bls", "type", "type", "type", "attr", "value", "value"])
    if kind == "bls":
        for _ in range(20):
            c = B.gen_case(rng, prop)
            n = len(c["nodes"])
            i, j = rng.randrange(n), rng.randrange(n)
            if rng.random() < 0.3:
                # an independently built copy of the same expression
                c["nodes"] = c["nodes"] + copy.deepcopy(c["nodes"])
                c["how"] = c["how"] + c["how"]
                j = i + n
                for node in c["nodes"][n:]:
                    if node[0] in ("pad", "rep", "rrep"):
                        node[1] += n
                    elif node[0] in ("cat", "uni"):
                        node[1] = [x + n for x in node[1]]
            if all(B._cost(c["nodes"], x, 32, {}) <= B.MOD_BUDGET for x in (i, j)):
                return {"kind": "bls", "nodes": c["nodes"], "how": c["how"], "a": i, "b": j}
    if kind in ("type", "attr"):
        for _ in range(50):
            t = L.gen_ty(rng, rng.choice([1, 2, 2, 3]), top=rng.random() < 0.7)
            if not L.s_valid(L.strip(t)):
                continue
            if kind == "attr" and t[0] == "prim" and t[2] in ("byte", "utf8"):
                continue
            t2 = copy.deepcopy(t) if rng.random() < 0.4 else mutate_type(rng, t)
            if not L.s_valid(L.strip(t2)):
                continue
            # equality / hash of the type AND of every member type are queried (nested-member checks): each must be cheap
            if not (affordable(t) and affordable(t2)):
                continue
            if kind == "type":
                return {"kind": "type", "a": desc_key(t), "b": desc_key(t2)}
            # attributes: fields, or constants of primitive type
            if t[0] == "prim" and t2[0] == "prim" and t[2] not in ("byte", "utf8") and t2[2] not in ("byte", "utf8") and rng.random() < 0.6:
                va = const_value(rng, t)
                vb = const_value(rng, t2)
                if rng.random() < 0.5 and (t[2] == "bool") == (t2[2] == "bool") and t[2].startswith("float") == t2[2].startswith("float") and t == t2:
                    vb = va
                na = rng.choice(["A", "B"])
                return {"kind": "attr", "a": {"type": desc_key(t), "name": na, "value": va},
                        "b": {"type": desc_key(t2), "name": na if rng.random() < 0.7 else "C", "value": vb}}
            na = rng.choice(["x", "y"])
            return {"kind": "attr", "a": {"type": desc_key(t), "name": na, "value": None},
                    "b": {"type": desc_key(t2), "name": na if rng.random() < 0.7 else "z", "value": None}}
    v = gen_value(rng)
    return {"kind": "value", "a": v, "b": variant_value(rng, v)}


def sub_types(t):
    """The type description and every type nested in it (a delimited type hides its members from its own bit length set,
    but they are still objects whose equality and layout the suite queries)."""
    yield t
    if t[0] in ("farr", "varr", "delim"):
        yield from sub_types(t[1])
    elif t[0] in ("struct", "union"):
        for f in t[1]:
            yield from sub_types(f)


def affordable(t) -> bool:
    for st in sub_types(t):
        nodes: list = []
        if B._cost(nodes, L.s_nodes(L.strip(st), nodes), 32, {}) > B.MOD_BUDGET:
            return False
    return True


def const_value(rng, t):
    kind = t[2]
    if kind == "bool":
        return ["bool", rng.random() < 0.5]
    if kind.startswith("float"):
        return ["rat", rng.choice([0, 1, -3, 5]), rng.choice([1, 2, 4])]
    n = t[1]
    if kind.startswith("int"):
        return ["rat", rng.choice([0, 1, -1, -(2 ** (n - 1)), 2 ** (n - 1) - 1]), 1]
    return ["rat", rng.choice([0, 1, 2**n - 1]), 1]


def desc_key(t):
    return {"ty": t, "cls": type_cls(t), "str": type_str(t, L._Names())}


# ------------------------------------------------------------------------------- implementation side

def build_value(pydsdl, v):
    if v[0] == "rat":
        return pydsdl.Rational(Fraction(v[1], v[2]))
    if v[0] == "bool":
        return pydsdl.Boolean(v[1])
    if v[0] == "str":
        return pydsdl.String("".join(chr(c) for c in v[1]))
    return pydsdl.Set([build_value(pydsdl, x) for x in v[1]])


def build_attr(pydsdl, d):
    ty = L.build_impl(pydsdl, d["type"]["ty"], L._Names())
    if d["value"] is None:
        if d["type"]["ty"][0] == "void":
            return pydsdl.PaddingField(ty)
        return pydsdl.Field(ty, d["name"])
    return pydsdl.Constant(ty, d["name"], build_value(pydsdl, d["value"]))


ACCESSORS = ["attributes", "fields", "fields_except_padding", "constants", "name_components", "namespace_components"]


def alias_check(obj) -> typing.Optional[str]:
    for acc in ACCESSORS:
        if not hasattr(obj, acc):
            continue
        got = getattr(obj, acc)
        if not isinstance(got, list):
            continue
        snap = [str(x) for x in got]
        before = (str(obj), getattr(obj, "short_name", None), getattr(obj, "full_namespace", None))
        got.append(None)
        got.reverse()
        del got[1:]
        again = getattr(obj, acc)
        if [str(x) for x in again] != snap:
            return "mutating the list returned by .%s changed the object (%s -> %s)" % (acc, snap[:4], [str(x) for x in again][:4])
        after = (str(obj), getattr(obj, "short_name", None), getattr(obj, "full_namespace", None))
        if before != after:
            return "mutating the list returned by .%s changed %s -> %s" % (acc, before, after)
    return None


def layout_sig(pydsdl, o):
    if isinstance(o, pydsdl.SerializableType):
        try:
            b = o.bit_length_set
            sig = [b.min, b.max, sorted(b % 32), o.alignment_requirement]
        except TypeError:
            sig = ["no-bls"]
        if isinstance(o, pydsdl.CompositeType):
            sig += [o.extent, [str(a) for a in o.attributes], o.full_name, tuple(o.version), o.deprecated, o.fixed_port_id]
        return sig
    return None


def pickle_check(pydsdl, o) -> typing.Optional[str]:
    try:
        r = pickle.loads(pickle.dumps(o))
    except Exception as ex:
        return "pickling failed: %s: %s" % (type(ex).__name__, ex)
    if not (r == o and o == r):
        return "unpickled object is not equal to the original"
    if hash(r) != hash(o):
        return "unpickled object hashes differently"
    if str(r) != str(o) or type(r) is not type(o):
        return "unpickled object has another string form / class: %s vs %s" % (r, o)
    if layout_sig(pydsdl, r) != layout_sig(pydsdl, o):
        return "unpickled object has another layout / attributes"
    return None


def nested_check(pydsdl, obj, desc) -> typing.Optional[str]:
    """After the outer object has been compared / hashed: every nested type still has the Specification's layout
    (querying an aggregate must not change what its members report)."""
    k = desc[0]
    try:
        b = obj.bit_length_set
        got = (b.min, b.max, tuple(sorted(b % 32)), tuple(sorted(b % 8)))
    except TypeError:
        return None
    nodes: list = []
    r = L.s_nodes(L.strip(desc), nodes)
    exp = (B.o_min(nodes, r), B.o_max(nodes, r), tuple(sorted(B.o_res(nodes, r, 32))), tuple(sorted(B.o_res(nodes, r, 8))))
    if got != exp:
        return "nested %s reports (min, max, %%32, %%8) = %s, expected %s" % (obj, got, exp)
    if k in ("farr", "varr"):
        return nested_check(pydsdl, obj.element_type, desc[1])
    if k == "delim":
        return nested_check(pydsdl, obj.inner_type, desc[1])
    if k in ("struct", "union"):
        for f, fd in zip(obj.fields, desc[1]):
            r2 = nested_check(pydsdl, f.data_type, fd)
            if r2:
                return r2
    return None


_CHILD = r"""
import sys, json, pickle
sys.path.insert(0, %r)
sys.path.insert(0, %r)
import common
from suites import layout as L
pydsdl = common.import_pydsdl()
req = json.loads(sys.stdin.read())
twin = L.build_impl(pydsdl, req["ty"], L._Names())
obj = pickle.loads(bytes.fromhex(req["blob"]))
print(json.dumps({"eq": bool(obj == twin and twin == obj), "hash_eq": hash(obj) == hash(twin), "in_set": obj in {twin}, "str_eq": str(obj) == str(twin)}))
"""


def cross_process_check(desc_ty, obj) -> typing.Optional[str]:
    """Pickle here (after hashing), unpickle in a process with ANOTHER hash seed, compare with an independently built twin."""
    import json
    import os
    import subprocess
    import sys

    hash(obj)
    blob = pickle.dumps(obj).hex()
    env = dict(os.environ)
    env["PYTHONHASHSEED"] = "12345"
    env["VERIF_REPO"] = str(common.REPO)
    code = _CHILD % (str(common.REPO), str(Path(__file__).resolve().parent.parent))
    try:
        r = subprocess.run([sys.executable, "-c", code], input=json.dumps({"ty": desc_ty, "blob": blob}), env=env,
                           stdout=subprocess.PIPE, stderr=subprocess.PIPE, text=True, timeout=120)
    except subprocess.TimeoutExpired:
        return "unpickling in another process timed out"
    if r.returncode != 0:
        return "unpickling in another process failed: %s" % r.stderr[-200:]
    res = json.loads(r.stdout.strip().splitlines()[-1])
    if not all(res.values()):
        return "object pickled here and unpickled under another hash seed vs an independently built twin: %s" % res
    return None


class ValuesSuite(common.Suite):
    name = "values"

    def generate(self, rng, n, prop, tier):
        return [gen_case(rng, prop) for _ in range(n)]

    def corpus(self, prop):
        u8 = ["prim", 8, "uintsat"]
        s1 = ["struct", [u8]]
        s2 = ["struct", [["prim", 16, "uintsat"]]]
        nfc, nfd = [ord(c) for c in "café"], [ord(c) for c in "café"]
        return [
            {"kind": "value", "a": ["str", nfc], "b": ["str", nfd]},
            {"kind": "value", "a": ["str", nfc], "b": ["str", list(nfc)]},
            {"kind": "value", "a": ["set", [["str", nfc]]], "b": ["set", [["str", nfd]]]},
            {"kind": "value", "a": ["rat", 2, 4], "b": ["rat", 1, 2]},
            {"kind": "type", "a": desc_key(["farr", s1, 3]), "b": desc_key(["farr", s2, 3])},
            {"kind": "type", "a": desc_key(["varr", ["struct", [s1, u8]], 3]), "b": desc_key(["varr", ["struct", [s2, u8]], 3])},
            {"kind": "type", "a": desc_key(["struct", [u8, ["void", 3]]]), "b": desc_key(["struct", [u8, ["void", 3]]])},
            {"kind": "attr", "a": {"type": desc_key(["farr", s1, 2]), "name": "x", "value": None}, "b": {"type": desc_key(["farr", s2, 2]), "name": "x", "value": None}},
            {"kind": "type", "a": desc_key(["prim", 8, "uintsat"]), "b": desc_key(["prim", 8, "byte"])},
            {"kind": "type", "xproc": True, "a": desc_key(["struct", [u8, ["varr", s1, 3]]]), "b": desc_key(["struct", [u8, ["varr", s1, 3]]])},
            {"kind": "type", "a": desc_key(["union", [["farr", ["prim", 3, "uintsat"], 3], ["prim", 16, "uintsat"]]]), "b": desc_key(["union", [["farr", ["prim", 3, "uintsat"], 3], ["prim", 16, "uintsat"]]])},
            {"kind": "type", "a": desc_key(["struct", [["union", [["struct", [["prim", 5, "uintsat"]]], u8]], u8]]), "b": desc_key(["struct", [["union", [["struct", [["prim", 5, "uintsat"]]], u8]], u8]])},
            {"kind": "type", "a": desc_key(["void", 8]), "b": desc_key(["prim", 8, "uintsat"])},
        ]

    def run_impl(self, case):
        pydsdl = common.import_pydsdl()
        try:
            k = case["kind"]
            if k == "bls":
                objs = B.build_impl(pydsdl, case["nodes"], case["how"])
                a, b = objs[case["a"]], objs[case["b"]]
            elif k == "type":
                a = L.build_impl(pydsdl, case["a"]["ty"], L._Names())
                b = L.build_impl(pydsdl, case["b"]["ty"], L._Names())
            elif k == "attr":
                a, b = build_attr(pydsdl, case["a"]), build_attr(pydsdl, case["b"])
            else:
                a, b = build_value(pydsdl, case["a"]), build_value(pydsdl, case["b"])
        except Exception as ex:
            return {"res": "exc:%s" % type(ex).__name__, "soft_msg": str(ex)[:200]}
        out: dict = {"res": "ok"}
        try:
            out["eq"] = bool(a == b)
            out["sym"] = bool(b == a) == out["eq"] and bool(a != b) == (not out["eq"])
            out["refl"] = bool(a == a) and bool(b == b) and not (a != a)
            out["hash_eq"] = hash(a) == hash(b)
            out["hash_stable"] = hash(a) == hash(a) and hash(copy.copy(a)) == hash(a) if k != "bls" else True
            out["str_a"], out["str_b"] = str(a), str(b)
            out["cls_a"], out["cls_b"] = type(a).__name__, type(b).__name__
            al = alias_check(a) or alias_check(b)
            out["alias_ok"] = al is None
            if al:
                out["soft_alias"] = al
            pk = None if k == "bls" else (pickle_check(pydsdl, a) or pickle_check(pydsdl, b))
            if k == "type":
                nk = nested_check(pydsdl, a, case["a"]["ty"]) or nested_check(pydsdl, b, case["b"]["ty"])
                if nk:
                    out["nested_ok"] = False
                    out["soft_nested"] = nk
                # a deterministic sample of the cases also crosses a process boundary
                if pk is None and (len(out["str_a"]) + case["a"]["ty"][0].__len__() + len(str(case["a"]["ty"]))) % 23 == 0 or case.get("xproc"):
                    pk = cross_process_check(case["a"]["ty"], a)
            out["pickle_ok"] = pk is None
            if pk:
                out["soft_pickle"] = pk
        except Exception as ex:
            return {"res": "exc:%s" % type(ex).__name__, "soft_msg": str(ex)[:200]}
        return out

    def model_case(self, case):
        # Expression strings are identified by their NFC-normalised form (the Specification's notion of string equality;
        # String.__eq__/__hash__ since repo fix 5c4ff03): the key model receives the normal form, computed here with
        # unicodedata (trusted reference), as the code points of the string.
        case = nfc_values(case)
        c = {"id": case["id"], "kind": case["kind"]}
        if case["kind"] == "bls":
            c.update(nodes=case["nodes"], a=case["a"], b=case["b"])
        elif case["kind"] == "type":
            c["a"] = {"ty": L.strip(case["a"]["ty"]), "cls": case["a"]["cls"], "str": case["a"]["str"]}
            c["b"] = {"ty": L.strip(case["b"]["ty"]), "cls": case["b"]["cls"], "str": case["b"]["str"]}
        elif case["kind"] == "attr":
            for side in ("a", "b"):
                d = case[side]
                c[side] = {"type": {"ty": L.strip(d["type"]["ty"]), "cls": d["type"]["cls"], "str": d["type"]["str"]},
                           "name": d["name"], "value": d["value"]}
        else:
            c["a"], c["b"] = case["a"], case["b"]
        return c

    def compare(self, case, impl, model, prop):
        if impl.get("res") != "ok":
            return "impl %s (%s), model %s" % (impl.get("res"), impl.get("soft_msg"), model)
        if "err" in model:
            return "model error %s" % model["err"]
        if impl["eq"] != model["eq"]:
            return "eq: impl=%s model=%s" % (impl["eq"], model["eq"])
        if model.get("hash_eq") and not impl["hash_eq"]:
            return "hash keys equal in the model but the hashes differ"
        return None

    def oracle(self, case, impl, prop):
        if impl.get("res") != "ok":
            return "building / comparing valid objects raised %s: %s" % (impl.get("res"), impl.get("soft_msg"))
        if not impl["refl"]:
            return "equality is not reflexive"
        if not impl["sym"]:
            return "equality is not symmetric (or != disagrees with ==)"
        if impl["eq"] and not impl["hash_eq"]:
            return "equal objects have different hashes: %s vs %s" % (impl["str_a"], impl["str_b"])
        if not impl["hash_stable"]:
            return "hash of an object is not stable"
        if not impl["alias_ok"]:
            return "accessor aliasing: %s" % impl.get("soft_alias")
        if not impl["pickle_ok"]:
            return "pickle: %s" % impl.get("soft_pickle")
        if impl.get("nested_ok") is False:
            return "aliasing: %s" % impl.get("soft_nested")
        k = case["kind"]
        if k == "type" or k == "attr":
            da = case["a"] if k == "type" else case["a"]["type"]
            db = case["b"] if k == "type" else case["b"]["type"]
            same_desc = da["ty"] == db["ty"]
            differs = da["cls"] != db["cls"] or da["str"] != db["str"] or bls_key(da["ty"]) != bls_key(db["ty"])
            if k == "type":
                if impl["str_a"] != da["str"] or impl["str_b"] != db["str"]:
                    return "normalised string form: %s / %s, expected %s / %s" % (impl["str_a"], impl["str_b"], da["str"], db["str"])
                if impl["cls_a"] != da["cls"] or impl["cls_b"] != db["cls"]:
                    return "class: %s / %s, expected %s / %s" % (impl["cls_a"], impl["cls_b"], da["cls"], db["cls"])
            if k == "attr":
                same_rest = case["a"]["name"] == case["b"]["name"] and val_eq(case["a"]["value"], case["b"]["value"])
                if same_desc and same_rest and not impl["eq"]:
                    return "attributes built from equal descriptions are unequal"
                if (differs or not same_rest) and impl["eq"]:
                    return "attributes that differ in type / name / value compare equal: %s vs %s" % (impl["str_a"], impl["str_b"])
                return None
            if same_desc and not impl["eq"]:
                return "types built from equal descriptions are unequal: %s" % impl["str_a"]
            if differs and impl["eq"]:
                return "types that differ in kind, string form or bit length set compare equal: %s (%s) vs %s (%s)" % (impl["str_a"], bls_key(da["ty"]), impl["str_b"], bls_key(db["ty"]))
        elif k == "value":
            exp = val_eq(case["a"], case["b"])
            if impl["eq"] != exp:
                return "values %s and %s: == gives %s" % (impl["str_a"], impl["str_b"], impl["eq"])
        elif k == "bls":
            nodes = case["nodes"]
            i, j = case["a"], case["b"]
            di, dj = B.o_den(nodes, i, 400, {}), B.o_den(nodes, j, 400, {})
            if di is not None and dj is not None and di == dj and not impl["eq"]:
                return "equal bit length sets reported as different"
            ka = (B.o_min(nodes, i), B.o_max(nodes, i), B.o_res(nodes, i, 32))
            kb = (B.o_min(nodes, j), B.o_max(nodes, j), B.o_res(nodes, j, 32))
            if ka == kb and not impl["eq"]:
                return "bit length sets with equal min / max / residues reported as different"
            if ka != kb and impl["eq"]:
                return "bit length sets that differ in min / max / residues mod 32 compare equal"
        return None

    def signature(self, case, desc, prop):
        return "values/%s/%s" % (case["kind"], desc.split(":")[0][:50])

    def shrink(self, case):
        return []

    def features(self, case, impl):
        yield "kind:" + case["kind"]
        if impl.get("res") == "ok":
            yield "eq:%s" % impl["eq"]
            if case["kind"] in ("type", "attr"):
                da = case["a"] if case["kind"] == "type" else case["a"]["type"]
                yield "cls:" + da["cls"]

    def nontrivial(self, case, impl):
        return impl.get("res") == "ok"


def nfc_cps(cps):
    import unicodedata

    try:
        return [ord(c) for c in unicodedata.normalize("NFC", "".join(chr(c) for c in cps))]
    except (ValueError, TypeError):
        return list(cps)


def nfc_value(v):
    if isinstance(v, list) and v and v[0] == "str":
        return ["str", nfc_cps(v[1])]
    if isinstance(v, list) and v and v[0] == "set":
        return ["set", [nfc_value(x) for x in v[1]]]
    return v


def nfc_values(case):
    c = dict(case)
    if case.get("kind") == "value":
        c["a"], c["b"] = nfc_value(case["a"]), nfc_value(case["b"])
    elif case.get("kind") == "attr":
        for side in ("a", "b"):
            d = dict(case[side])
            d["value"] = nfc_value(d.get("value"))
            c[side] = d
    return c


def val_eq(a, b) -> bool:
    if a is None or b is None:
        return a is None and b is None
    if a[0] != b[0]:
        return False
    if a[0] == "rat":
        return Fraction(a[1], a[2]) == Fraction(b[1], b[2])
    if a[0] == "str":
        return nfc_cps(a[1]) == nfc_cps(b[1])
    if a[0] == "bool":
        return a[1] == b[1]
    return all(any(val_eq(x, y) for y in b[1]) for x in a[1]) and all(any(val_eq(x, y) for y in a[1]) for x in b[1])


SUITE = ValuesSuite()
