"""
Suite `floatconv` (C06): the numeric conversion of float fields.  A Python float or int is serialized into a
single-field structure `{floatN x}` of every width and cast mode through `pydsdl.serialize`; the bit pattern found
in the bytes is compared with the Lean model `WireFloat.roundBinary` / `roundInt` (Model/Float.lean, theorems
C06.float_*), and judged by the exact-rational round-half-even reference `float_bits` of the wire suite.

Case: {"w": 16|32|64, "cast": "sat"|"trunc", "src": ["f", bits64] | ["i", int]}   (finite numbers only: NaN and
      infinities are passed through by the library and are not a rounding question)
Model case: {"w", "cast", "neg", "n", "d"} for floats (exact fraction of the double), {"w", "cast", "neg", "n"} for ints.
"""
from __future__ import annotations

import math
import random
from fractions import Fraction

import common
from suites import wire as W


def _finite(src) -> bool:
    if src[0] == "i":
        return True
    x = W.f64_of_bits(src[1])
    return not (math.isnan(x) or math.isinf(x))


def _neighbours(rng: random.Random, w: int):
    """Doubles at and around the rounding boundaries of binary<w>: a pattern, the midpoint to its successor, and the
    doubles next to that midpoint; the overflow threshold; the subnormal range."""
    eb, mb, ff, fi = W.FMT[w]
    import struct
    top = ((1 << eb) - 1) << mb
    p = rng.choice([0, 1, 2, (1 << mb) - 1, 1 << mb, top - 1, top - 2, rng.randrange(0, top - 1), rng.randrange(0, 1 << (mb + 2))])
    p = min(p, top - 2)
    lo = struct.unpack(ff, struct.pack(fi, p))[0]
    hi = struct.unpack(ff, struct.pack(fi, p + 1))[0]
    if w == 64:
        x = rng.choice([lo, hi])
    else:
        mid = (lo + hi) / 2  # exact in binary64 for the narrower formats
        x = rng.choice([lo, hi, mid, math.nextafter(mid, math.inf), math.nextafter(mid, -math.inf)])
    if rng.random() < 0.15:
        m = float(W.max_finite(w)) if w < 64 else 1.7976931348623157e308
        if w < 64:
            thr = float(W.max_finite(w) + Fraction(2) ** ((1 << (eb - 1)) - 1 - mb - 1))
            x = rng.choice([m, thr, math.nextafter(thr, 0.0), math.nextafter(thr, math.inf), math.nextafter(m, math.inf), 2 * m])
        else:
            x = rng.choice([m, math.nextafter(m, 0.0)])
    if rng.random() < 0.5:
        x = -x
    import struct as _s
    return ["f", _s.unpack("<Q", _s.pack("<d", x))[0]]


def _int_src(rng: random.Random, w: int):
    eb, mb = W.FMT[w][0], W.FMT[w][1]
    bias = (1 << (eb - 1)) - 1
    k = rng.choice([mb + 1, mb + 2, 53, 54, 60, 64, bias, bias + 1, 100, 128, 1023, 1024, rng.randint(1, 1100)])
    base = 1 << k
    i = base + rng.choice([0, 1, -1, 1 << max(0, k - mb - 1), (1 << max(0, k - mb - 1)) + 1, (1 << max(0, k - mb - 1)) - 1,
                           1 << max(0, k - 53), (1 << max(0, k - 53)) + 1, -(1 << max(0, k - mb - 2)) - 1, rng.randrange(0, base)])
    if rng.random() < 0.2:
        i = rng.choice([0, 1, 65504, 65519, 65520, 65521, 2**24 + 1, 2**53 + 1, 2**128 - 2**103 - 1, 2**128 - 2**103, 2**60 + 2**36 + 1,
                        2**1024 - 2**970 - 1, 2**1024 - 2**970, 2**1024, 10**400, rng.randint(0, 10**6)])
    if rng.random() < 0.5:
        i = -i
    return ["i", i]


class FloatConvSuite(common.Suite):
    name = "floatconv"

    def generate(self, rng, n, prop, tier):
        out = []
        while len(out) < n:
            w = rng.choice([16, 32, 64])
            x = rng.random()
            if x < 0.45:
                src = _neighbours(rng, w)
            elif x < 0.7:
                src = _int_src(rng, w)
            else:
                src = W.gen_float_src(rng, w)
            if not _finite(src):
                continue
            out.append({"w": w, "cast": rng.choice(["sat", "trunc"]), "src": src})
        return out

    def corpus(self, prop):
        return [
            {"w": 16, "cast": "trunc", "src": ["i", 65520]}, {"w": 16, "cast": "sat", "src": ["i", 65520]},
            {"w": 16, "cast": "trunc", "src": ["i", 2049]}, {"w": 16, "cast": "trunc", "src": ["i", 2051]},
            {"w": 32, "cast": "trunc", "src": ["i", 2**60 + 2**36 + 1]}, {"w": 32, "cast": "trunc", "src": ["i", 2**128 - 2**103 - 1]},
            {"w": 64, "cast": "sat", "src": ["i", 2**1024]}, {"w": 64, "cast": "trunc", "src": ["i", -2**1024]},
            {"w": 16, "cast": "sat", "src": ["f", 0x8000000000000000]}, {"w": 32, "cast": "trunc", "src": ["f", 0x0000000000000001]},
        ]

    def run_impl(self, case):
        try:
            T = W.build(["struct", [["float", case["w"], case["cast"]]], None])
            P = common.import_pydsdl()
            src = case["src"]
            v = W.f64_of_bits(src[1]) if src[0] == "f" else src[1]
            data = P.serialize(T, {"f0": v})
            return {"bits": int.from_bytes(data, "little")}
        except Exception as ex:  # noqa
            return {"exc": type(ex).__name__, "soft": str(ex)[:200]}

    def model_case(self, case):
        src = case["src"]
        c = {"id": case.get("id"), "w": case["w"], "cast": case["cast"]}
        if src[0] == "i":
            c["neg"] = src[1] < 0
            c["n"] = abs(src[1])
        else:
            x = W.f64_of_bits(src[1])
            q = Fraction(abs(x))
            c["neg"] = math.copysign(1.0, x) < 0
            c["n"] = q.numerator
            c["d"] = q.denominator
        return c

    def oracle(self, case, impl, prop):
        if "exc" in impl:
            return "serialize of a finite number for a float field raised %s: %s" % (impl["exc"], impl.get("soft"))
        want = W.float_bits(case["src"], case["w"], case["cast"])
        if impl["bits"] != want:
            return "float%d %s: pattern 0x%x, round-half-even / cast mode demands 0x%x" % (case["w"], case["cast"], impl["bits"], want)
        return None

    def signature(self, case, desc, prop):
        return "floatconv/float%d/%s/%s" % (case["w"], case["cast"], case["src"][0])

    def shrink(self, case):
        src = case["src"]
        if src[0] == "i" and abs(src[1]) > 1:
            for i in (src[1] // 2, src[1] - (1 if src[1] > 0 else -1)):
                c = dict(case)
                c["src"] = ["i", i]
                yield c

    def features(self, case, impl):
        yield "w%d" % case["w"]
        yield case["cast"]
        yield "src:" + case["src"][0]
        if "bits" in impl:
            eb, mb = W.FMT[case["w"]][0], W.FMT[case["w"]][1]
            e = (impl["bits"] >> mb) & ((1 << eb) - 1)
            yield "class:" + ("zero/subnormal" if e == 0 else "inf" if e == (1 << eb) - 1 else "normal")

    def nontrivial(self, case, impl):
        return True


SUITE = FloatConvSuite()
