"""
Suite `evolve` (C14, layout half): a container holding a delimited type D, and the same container with D replaced
by a revision D' of the same extent whose field list extends (or is a prefix of) D's.  The property: the
container's bit_length_set, extent and the offsets of all its fields are unchanged.
Case: {"ty": C[D], "ty2": C[D'], "qs": [...]}; outcome {"res", "out", "out2"}.

A case may say WHERE THE TYPES COME FROM ("src"; without it: the constructors, everything under version 1.0):
  {"mode": "dsdl" | "ctor",             read from generated DSDL text by the front end / built through the constructors
   "rev": [major, minor, minor'],       version numbers of D and D' (any major version, 0 included)
   "vers": [[major, minor], ..],        version numbers of all other definitions (cycled)
   "layout": "side" | "checkouts",      dsdl: D and D' side by side in one namespace (two minor versions of one name) or
                                        two checkouts of the namespace that differ only in the file of D
   "reader": "namespace" | "files",     dsdl: read_namespace / read_files
   "svc": null | "request" | "response",the container is that section of a service type
   "cpos": "last" | "first" | "mixed"}  dsdl: where the constants of a definition are written
The property and the Specification's layout know nothing of version numbers, of the way a type object was obtained, or of
the place of a definition in a service: the oracle is the same for every source.
"""
from __future__ import annotations

import json
import random
import shutil
import tempfile
import typing
from pathlib import Path

import common
from suites import bls as B
from suites import layout as L


def gen_delim_pair(rng):
    kind = rng.choice(["struct", "struct", "union"])
    n = rng.randint(2, 4) if kind == "union" else rng.randint(0, 3)
    fs = [L.gen_field(rng, 1, union=(kind == "union")) for _ in range(n)]
    extra = [L.gen_field(rng, 1, union=(kind == "union")) for _ in range(rng.randint(1, 3))]
    a = [kind, fs]
    b = [kind, fs + extra]
    mx = 0
    for t in (a, b):
        st = L.strip(t)
        if not L.s_valid(st):
            return None
        nodes: list = []
        mx = max(mx, B.o_max(nodes, L.s_nodes(st, nodes)))
    ext = -(-mx // 8) * 8 + rng.choice([0, 0, 8, 64, 8 * rng.randint(0, 50)])
    d, d2 = ["delim", a, ext], ["delim", b, ext]
    return (d, d2) if rng.random() < 0.5 else (d2, d)


def wrap(rng, d, d2, depth):
    """Put (d, d2) at the same position of two otherwise identical containers."""
    if depth <= 0:
        return d, d2
    kind = rng.choice(["struct", "struct", "union", "farr", "varr", "delim"])
    inner, inner2 = wrap(rng, d, d2, depth - 1)
    if kind in ("farr", "varr"):
        cap = rng.choice([1, 2, 3, 5, 255, 256, 1000])
        return [kind, inner, cap], [kind, inner2, cap]
    if kind in ("struct", "union"):
        union = kind == "union"
        before = [L.gen_field(rng, 1, union) for _ in range(rng.randint(1 if union else 0, 2))]
        after = [L.gen_field(rng, 1, union) for _ in range(rng.randint(0, 3))]
        return [kind, before + [inner] + after], [kind, before + [inner2] + after]
    # nested delimited container: its own extent must hold both variants
    k2 = "struct"
    before = [L.gen_field(rng, 1, False) for _ in range(rng.randint(0, 2))]
    after = [L.gen_field(rng, 1, False) for _ in range(rng.randint(0, 2))]
    a, b = [k2, before + [inner] + after], [k2, before + [inner2] + after]
    mx = 0
    for t in (a, b):
        st = L.strip(t)
        if not L.s_valid(st):
            return a, b
        nodes: list = []
        mx = max(mx, B.o_max(nodes, L.s_nodes(st, nodes)))
    ext = -(-mx // 8) * 8 + rng.choice([0, 8, 128])
    return ["delim", a, ext], ["delim", b, ext]


def gen_case(rng, prop):
    for _ in range(100):
        pair = gen_delim_pair(rng)
        if pair is None:
            continue
        c, c2 = wrap(rng, pair[0], pair[1], rng.choice([1, 1, 2, 2, 3]))
        if c[0] in ("farr", "varr") and rng.random() < 0.5:
            c, c2 = ["struct", [["prim", 3, "uintsat"], c, ["prim", 5, "uintsat"]]], ["struct", [["prim", 3, "uintsat"], c2, ["prim", 5, "uintsat"]]]
        if not (L.s_valid(L.strip(c)) and L.s_valid(L.strip(c2))):
            continue
        q1 = L.make_queries(rng, c, prop)
        if q1 is None or not q1["qs"]:
            continue
        qs = [q for q in q1["qs"] if q[0] not in ("intrinsic", "asserts")]
        # the queries were cost-checked on c; c2 has the same layout by the property, so the costs agree
        case = {"ty": c, "ty2": c2, "qs": qs}
        x = rng.random()
        if x < 0.65:
            src = gen_src(rng, "dsdl" if x < 0.45 else "ctor", c)
            if src["mode"] == "dsdl" and (L.nested_arrays(L.strip(c)) or L.nested_arrays(L.strip(c2))):
                src = gen_src(rng, "ctor", c)  # arrays of arrays cannot be spelled in DSDL
            if src["mode"] == "ctor":
                # (the `_offset_` of a service section is asked through text of its own, under version 1.0)
                pass
            case["src"] = src
        return case
    raise RuntimeError("generator failed")


MAJORS = [0, 0, 0, 1, 1, 2, 3, 7, 100, 255]


def gen_version(rng, major=None):
    major = rng.choice(MAJORS) if major is None else major
    minor = rng.choice([0, 1, 1, 2, 3, 9, 200, 255])
    if major == 0 and minor == 0:
        minor = 1  # 0.0 is not a version
    return [major, minor]


def gen_src(rng, mode, c):
    """Where the two containers come from: see the module docstring.  D and D' are revisions of one definition: same
    name, same major version - ANY major version; the other definitions have versions of their own."""
    major, m1 = gen_version(rng)
    m2 = rng.choice([m for m in (m1 + 1, m1 - 1, m1 + 7, 255, 1, rng.randint(0, 255)) if 0 <= m <= 255 and m != m1 and (major, m) != (0, 0)])
    same_major = rng.random() < 0.3
    vers = [gen_version(rng, major if same_major else None) for _ in range(rng.randint(1, 3))]
    top_composite = c[0] in ("struct", "union", "delim")
    return {"mode": mode, "rev": [major, m1, m2], "vers": vers,
            "layout": rng.choice(["side", "side", "checkouts"]), "reader": rng.choice(["namespace", "files"]),
            "svc": rng.choice([None, None, "request", "response"]) if top_composite else None,
            "cpos": rng.choice(["last", "first", "mixed"])}


# ------------------------------------------------------------------------------- types from text / under version numbers


def rev_path(a, b, path=()):
    """Position (sequence of JSON indices) of the revised delimited definition: where the two containers have member
    lists of different lengths.  None when the descriptions are equal."""
    if a == b:
        return None
    k = a[0]
    if k != b[0]:
        return path
    if k in ("farr", "varr"):
        return rev_path(a[1], b[1], path + (1,))
    if k == "delim":
        if a[1][0] == b[1][0] and len(a[1][1]) != len(b[1][1]):
            return path
        return rev_path(a[1], b[1], path + (1,))
    if k in ("struct", "union"):
        if len(a[1]) != len(b[1]):
            return path
        for i, (x, y) in enumerate(zip(a[1], b[1])):
            if x != y:
                return rev_path(x, y, path + (1, i))
    return path


class _Emit:
    """One side (container with D, or with D') as DSDL text: every composite is a definition file of its own; the
    revised definition is ns.Rev.<major>.<minor of this side>, the others are ns.<prefix><n> under the versions of
    src["vers"].  `files`: file name -> text."""

    def __init__(self, src, side: int, rpath, prefix: str):
        self.src, self.side, self.rpath, self.prefix = src, side, rpath, prefix
        self.files: typing.Dict[str, str] = {}
        self.n = 0

    def rev_version(self):
        r = self.src["rev"]
        return [r[0], r[1] if (self.side == 0 or self.src["layout"] == "checkouts") else r[2]]

    def fresh(self):
        self.n += 1
        vs = self.src["vers"]
        return "%s%d" % (self.prefix, self.n), vs[self.n % len(vs)]

    def type_text(self, t, path) -> str:
        k = t[0]
        if k in ("prim", "void"):
            return L.dsdl_type_text(t, {}, None)
        if k == "farr":
            return "%s[%d]" % (self.type_text(t[1], path + (1,)), t[2])
        if k == "varr":
            return "%s[<=%d]" % (self.type_text(t[1], path + (1,)), t[2])
        name, ver = ("Rev", self.rev_version()) if path == self.rpath else self.fresh()
        self.files["%s.%d.%d.dsdl" % (name, ver[0], ver[1])] = self.def_text(t, path)
        return "ns.%s.%d.%d" % (name, ver[0], ver[1])

    def def_text(self, t, path, probe=None) -> str:
        ext = None
        if t[0] == "delim":
            ext, t, path = t[2], t[1], path + (1,)
        n = len(t[1])
        nconst = t[2] if len(t) > 2 else 0
        cpos = self.src.get("cpos", "last")
        where = [0 if cpos == "first" else n if cpos == "last" else ci % (n + 1) for ci in range(nconst)]
        lines = ["@union"] if t[0] == "union" else []
        for i in range(n + 1):
            lines += ["uint8 C%d = %d" % (ci, ci % 256) for ci in range(nconst) if where[ci] == i]
            if probe == i:
                lines.append("@print _offset_")
            if i < n:
                ft = self.type_text(t[1][i], path + (1, i))
                lines.append(ft if t[1][i][0] == "void" else "%s f%d" % (ft, i))
        lines.append("@sealed" if ext is None else "@extent %d" % ext)
        return "\n".join(lines) + "\n"


def _holder(t):
    """Definitions are composites: an array on top is asked as the only field of a structure."""
    return t if t[0] in ("struct", "union", "delim") else ["struct", [t]]


def dsdl_impl(suite, pydsdl, case):
    """Both containers read from DSDL text; the answers of both to the queries."""
    src = case["src"]
    tops = [_holder(case["ty"]), _holder(case["ty2"])]
    rpath = rev_path(tops[0], tops[1])
    checkouts = src["layout"] == "checkouts"
    top_ver = src["vers"][0]
    d = Path(tempfile.mkdtemp(prefix="verif_evolve_"))
    try:
        dirs = [d / "a" / "ns", d / "b" / "ns"] if checkouts else [d / "ns", d / "ns"]
        tops_files = []
        probes: typing.List[dict] = [{}, {}]
        for side in (0, 1):
            dirs[side].mkdir(parents=True, exist_ok=True)
            suffix = "" if checkouts else "AB"[side]
            em = _Emit(src, side, rpath, "T" if checkouts else "AB"[side])
            text = em.def_text(tops[side], ())
            filler = "uint8 x\n@sealed\n"
            if src["svc"] == "request":
                text = text + "---\n" + filler
            elif src["svc"] == "response":
                text = filler + "---\n" + text
            top_name = ("Svc" if src["svc"] else "Top") + suffix
            em.files["%s.%d.%d.dsdl" % (top_name, top_ver[0], top_ver[1])] = text
            for qi, q in enumerate(case["qs"]):
                if q[0] == "svc_intrinsic":
                    # `_offset_` after q[1] fields of the container as the request of a service (response: q[2])
                    em2 = _Emit(src, side, rpath, em.prefix + "q%dx" % qi)
                    fn = "Q%d%s.%d.%d.dsdl" % (qi, suffix, top_ver[0], top_ver[1])
                    em.files[fn] = em2.def_text(tops[side], (), probe=q[1]) + "---\n" + _Emit(src, side, None, em.prefix + "r%dx" % qi).def_text(q[2], (), probe=q[1])
                    em.files.update(em2.files)
                    probes[side][qi] = fn
            for fn, tx in em.files.items():
                (dirs[side] / fn).write_text(tx)
            tops_files.append((top_name, dirs[side] / ("%s.%d.%d.dsdl" % (top_name, top_ver[0], top_ver[1]))))
        prints: typing.List[typing.Dict[str, list]] = [{}, {}]
        objs = []
        read: dict = {}
        for side in (0, 1):
            key = str(dirs[side])
            if key not in read:
                got: typing.Dict[str, list] = {}

                def handler(p, l, text, got=got):
                    got.setdefault(Path(p).name, []).append(text)

                if src["reader"] == "namespace":
                    types = pydsdl.read_namespace(dirs[side], [], print_output_handler=handler)
                else:
                    wanted = sorted(p for p in dirs[side].iterdir() if p.name.startswith(("Top", "Svc", "Q")))
                    direct, _ = pydsdl.read_files(wanted, [dirs[side]], [], print_output_handler=handler)
                    types = direct
                read[key] = (types, got)
            types, got = read[key]
            prints[side] = got
            name = tops_files[side][0]
            found = [t for t in types if t.short_name == name and [t.version.major, t.version.minor] == list(top_ver)]
            if len(found) != 1:
                raise RuntimeError("definition %s not among the types read" % name)
            obj = found[0]
            if src["svc"]:
                obj = obj.request_type if src["svc"] == "request" else obj.response_type
            if case["ty"][0] not in ("struct", "union", "delim"):
                obj = obj.fields[0].data_type
            objs.append(obj)
        outs = []
        for side in (0, 1):
            out = []
            for qi, q in enumerate(case["qs"]):
                try:
                    if q[0] == "svc_intrinsic":
                        pr = prints[side].get(probes[side][qi], [])
                        out.append([L.parse_set(x) for x in pr] if len(pr) == 2 else "prints:%r" % (pr,))
                    else:
                        out.append(suite.ask(pydsdl, objs[side], None, q, {}))
                except Exception as ex:
                    out.append("exc:%s" % type(ex).__name__)
            outs.append(out)
        return outs
    finally:
        shutil.rmtree(d, ignore_errors=True)


def ctor_impl(suite, pydsdl, case):
    """Both containers built through the constructors, under the version numbers of the case."""
    src = case["src"]
    tops = [case["ty"], case["ty2"]]
    rpath = rev_path(tops[0], tops[1])
    CM = pydsdl.PrimitiveType.CastMode
    outs = []
    for side in (0, 1):
        counter = [0]

        def build(t, path, top=False):
            k = t[0]
            if k in ("prim", "void"):
                return L.build_impl(pydsdl, t, None)
            if k == "farr":
                return pydsdl.FixedLengthArrayType(build(t[1], path + (1,)), t[2])
            if k == "varr":
                return pydsdl.VariableLengthArrayType(build(t[1], path + (1,)), t[2])
            ext = None
            dpath = path
            if k == "delim":
                ext, t, path = t[2], t[1], path + (1,)
            attrs = []
            for i, f in enumerate(t[1]):
                ft = build(f, path + (1, i))
                attrs.append(pydsdl.PaddingField(ft) if f[0] == "void" else pydsdl.Field(ft, "f%d" % i))
            for ci in range(t[2] if len(t) > 2 else 0):
                attrs.append(pydsdl.Constant(pydsdl.UnsignedIntegerType(8, CM.SATURATED), "C%d" % ci, pydsdl.Rational(ci % 256)))
            counter[0] += 1
            if dpath == rpath:
                name, ver = "Rev", [src["rev"][0], src["rev"][1 + side]]
            else:
                name, ver = "T%d" % counter[0], src["vers"][counter[0] % len(src["vers"])]
            svc = top and src["svc"] is not None
            if svc:
                name, ver = "Svc." + src["svc"].capitalize(), src["vers"][0]
            cls = pydsdl.StructureType if t[0] == "struct" else pydsdl.UnionType
            path_ = Path("/nonexistent/ns/%s.%d.%d.dsdl" % (name.split(".")[0], ver[0], ver[1]))
            r = cls(name="ns." + name, version=pydsdl.Version(ver[0], ver[1]), attributes=attrs, deprecated=False,
                    fixed_port_id=None, source_file_path=path_, has_parent_service=svc)
            if ext is not None:
                r = pydsdl.DelimitedType(r, ext)
            if svc:
                other = pydsdl.StructureType(name="ns.Svc." + ("Response" if src["svc"] == "request" else "Request"),
                                             version=pydsdl.Version(ver[0], ver[1]), attributes=[], deprecated=False, fixed_port_id=None,
                                             source_file_path=path_, has_parent_service=True)
                s = pydsdl.ServiceType(r, other, None) if src["svc"] == "request" else pydsdl.ServiceType(other, r, None)
                r = s.request_type if src["svc"] == "request" else s.response_type
            return r

        obj = build(tops[side], (), top=True)
        out = []
        for q in case["qs"]:
            try:
                out.append(suite.ask(pydsdl, obj, tops[side], q, {}))
            except Exception as ex:
                out.append("exc:%s" % type(ex).__name__)
        outs.append(out)
    return outs



def nesting(a, b) -> typing.List[str]:
    """How the revised definition is nested, outermost first (feature strings)."""
    out = []
    rp = rev_path(a, b)
    t = a
    i = 0
    rp = rp or ()
    while i < len(rp):
        k = t[0]
        if k in ("farr", "varr"):
            out.append("array-element")
            t = t[1]
            i += 1
        elif k == "delim":
            t = t[1]
            i += 1
            out.append("member-of-delimited")
        else:
            out.append("field" if k == "struct" else "union-variant")
            t = t[1][rp[i + 1]]
            i += 2
    return sorted(set(out))


class EvolveSuite(common.Suite):
    name = "evolve"

    def generate(self, rng, n, prop, tier):
        return [gen_case(rng, prop) for _ in range(n)]

    def corpus(self, prop):
        u8 = ["prim", 8, "uintsat"]
        d = ["delim", ["struct", [u8]], 64]
        d2 = ["delim", ["struct", [u8, ["prim", 16, "uintsat"], ["varr", u8, 3]]], 64]
        qs = [["min"], ["max"], ["extent"], ["mod", 8], ["mod", 32], ["offsets", [0], [8, 32]], ["offsets", [3, 11], [8]], ["expand"]]
        base = [
            {"ty": ["struct", [["prim", 3, "uintsat"], ["farr", d, 2], ["prim", 7, "uintsat"]]],
             "ty2": ["struct", [["prim", 3, "uintsat"], ["farr", d2, 2], ["prim", 7, "uintsat"]]], "qs": qs},
            {"ty": ["union", [u8, d]], "ty2": ["union", [u8, d2]], "qs": qs},
        ]
        out = list(base)
        # the same pairs from every source: text / constructors, side by side / two checkouts, several major versions,
        # message / service section
        for major in (0, 1, 2):
            for mode, layout, reader, svc in (("dsdl", "side", "namespace", None), ("dsdl", "checkouts", "files", "response"), ("ctor", "side", "namespace", "request")):
                for b in base:
                    out.append(dict(b, src={"mode": mode, "rev": [major, 1, 2], "vers": [[major, 3], [1, 0]], "layout": layout, "reader": reader,
                                            "svc": svc, "cpos": "mixed"}))
        return out

    def run_impl(self, case):
        if "src" in case:
            pydsdl = common.import_pydsdl()
            try:
                outs = (dsdl_impl if case["src"]["mode"] == "dsdl" else ctor_impl)(L.SUITE, pydsdl, case)
            except pydsdl.FrontendError as ex:
                return {"res": "rejected", "soft_cls": type(ex).__name__, "soft_msg": str(ex)[:300]}
            except Exception as ex:
                return {"res": "exc:" + type(ex).__name__, "soft_msg": str(ex)[:300]}
            return {"res": "ok", "out": outs[0], "out2": outs[1]}
        a = L.SUITE.run_impl({"ty": case["ty"], "qs": case["qs"]})
        b = L.SUITE.run_impl({"ty": case["ty2"], "qs": case["qs"]})
        if a.get("res") != "ok" or b.get("res") != "ok":
            return {"res": "rejected" if "rejected" in (a.get("res"), b.get("res")) else str(a.get("res")) + "/" + str(b.get("res"))}
        return {"res": "ok", "out": a["out"], "out2": b["out"]}

    def model_case(self, case):
        return {"id": case["id"], "ty": L.strip(case["ty"]), "ty2": L.strip(case["ty2"]), "qs": case["qs"]}

    def oracle(self, case, impl, prop):
        if impl.get("res") != "ok":
            return "valid container / revision pair not accepted: %s%s" % (impl.get("res"), " (%s: %s)" % (impl.get("soft_cls"), impl.get("soft_msg")) if impl.get("soft_msg") else "")
        for q, a, b in zip(case["qs"], impl["out"], impl["out2"]):
            if a != b:
                return "query %s differs between the container and its revision: %s vs %s" % (q, B._short(a), B._short(b))
        # and the common value is the Specification's
        return L.SUITE.oracle({"ty": case["ty"], "qs": case["qs"]}, {"res": "ok", "out": impl["out"]}, prop)

    def signature(self, case, desc, prop):
        if desc.startswith("query"):
            return "evolve/" + desc.split("'")[1]
        return "evolve/" + desc.split(":")[0][:40]

    def shrink(self, case):
        qs = case["qs"]
        extra = {k: v for k, v in case.items() if k == "src"}
        for i in range(len(qs)):
            if len(qs) > 1:
                yield dict({"ty": case["ty"], "ty2": case["ty2"], "qs": qs[:i] + qs[i + 1:]}, **extra)
        src = case.get("src")
        if src is not None:
            yield {"ty": case["ty"], "ty2": case["ty2"], "qs": qs}
            for key, simple in (("svc", None), ("layout", "side"), ("reader", "namespace"), ("cpos", "last"), ("vers", [[1, 0]])):
                if src.get(key) != simple:
                    yield dict(case, src=dict(src, **{key: simple}))
            r = src["rev"]
            for r2 in ([1, 0, 1], [r[0], 1, 2]):
                if r != r2:
                    yield dict(case, src=dict(src, rev=r2))

    def features(self, case, impl):
        yield "top:" + case["ty"][0]
        for k in set(L.kinds(case["ty"])):
            yield "has:" + k
        for q in case["qs"]:
            yield "q:" + q[0]
        yield "depth:%d" % L.tdepth(case["ty"])
        src = case.get("src")
        yield "source:" + ("constructors/version-1.0" if src is None else "dsdl-text" if src["mode"] == "dsdl" else "constructors/versioned")
        for w in nesting(case["ty"], case["ty2"]):
            yield "revised-type-nested-as:" + w
        if src is not None:
            m = src["rev"][0]
            yield "revised-type-major-version:%s" % (m if m < 2 else "2+")
            yield "other-definitions-major-version-0:%s" % any(v[0] == 0 for v in src["vers"])
            yield "container:" + ("service-" + src["svc"] if src["svc"] else "message")
            if src["mode"] == "dsdl":
                yield "dsdl:%s/read_%s" % ("two-minor-versions-side-by-side" if src["layout"] == "side" else "two-checkouts", src["reader"])
                yield "dsdl:constants-" + src["cpos"]


SUITE = EvolveSuite()
