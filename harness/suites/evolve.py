"""
Suite `evolve` (C14, layout half): a container holding a delimited type D, and the same container with D replaced
by a revision D' of the same extent whose field list extends (or is a prefix of) D's.  The property: the
container's bit_length_set, extent and the offsets of all its fields are unchanged.
Case: {"ty": C[D], "ty2": C[D'], "qs": [...]}; outcome {"res", "out", "out2"}.
"""
from __future__ import annotations

import random
import typing

import common
from suites import bls as B
from suites import layout as L


def gen_delim_pair(rng):
    kind = rng.choice(["struct", "struct", "union"])
    n = rng.randint(2, 4) if kind == "union" else rng.randint(0, 3)
    fs = [L.gen_field(rng, 1, union=(kind == "union")) for _ in range(n)]
    extra = [L.gen_field(rng, 1, union=(kind == "union")) for _ in range(rng.randint(1, 3))]
    a = [kind, fs]
    b = [kind, fs + extra]
    mx = 0
    for t in (a, b):
        st = L.strip(t)
        if not L.s_valid(st):
            return None
        nodes: list = []
        mx = max(mx, B.o_max(nodes, L.s_nodes(st, nodes)))
    ext = -(-mx // 8) * 8 + rng.choice([0, 0, 8, 64, 8 * rng.randint(0, 50)])
    d, d2 = ["delim", a, ext], ["delim", b, ext]
    return (d, d2) if rng.random() < 0.5 else (d2, d)


def wrap(rng, d, d2, depth):
    """Put (d, d2) at the same position of two otherwise identical containers."""
    if depth <= 0:
        return d, d2
    kind = rng.choice(["struct", "struct", "union", "farr", "varr", "delim"])
    inner, inner2 = wrap(rng, d, d2, depth - 1)
    if kind in ("farr", "varr"):
        cap = rng.choice([1, 2, 3, 5, 255, 256, 1000])
        return [kind, inner, cap], [kind, inner2, cap]
    if kind in ("struct", "union"):
        union = kind == "union"
        before = [L.gen_field(rng, 1, union) for _ in range(rng.randint(1 if union else 0, 2))]
        after = [L.gen_field(rng, 1, union) for _ in range(rng.randint(0, 3))]
        return [kind, before + [inner] + after], [kind, before + [inner2] + after]
    # nested delimited container: its own extent must hold both variants
    k2 = "struct"
    before = [L.gen_field(rng, 1, False) for _ in range(rng.randint(0, 2))]
    after = [L.gen_field(rng, 1, False) for _ in range(rng.randint(0, 2))]
    a, b = [k2, before + [inner] + after], [k2, before + [inner2] + after]
    mx = 0
    for t in (a, b):
        st = L.strip(t)
        if not L.s_valid(st):
            return a, b
        nodes: list = []
        mx = max(mx, B.o_max(nodes, L.s_nodes(st, nodes)))
    ext = -(-mx // 8) * 8 + rng.choice([0, 8, 128])
    return ["delim", a, ext], ["delim", b, ext]


def gen_case(rng, prop):
    for _ in range(100):
        pair = gen_delim_pair(rng)
        if pair is None:
            continue
        c, c2 = wrap(rng, pair[0], pair[1], rng.choice([1, 1, 2, 2, 3]))
        if c[0] in ("farr", "varr") and rng.random() < 0.5:
            c, c2 = ["struct", [["prim", 3, "uintsat"], c, ["prim", 5, "uintsat"]]], ["struct", [["prim", 3, "uintsat"], c2, ["prim", 5, "uintsat"]]]
        if not (L.s_valid(L.strip(c)) and L.s_valid(L.strip(c2))):
            continue
        q1 = L.make_queries(rng, c, prop)
        if q1 is None or not q1["qs"]:
            continue
        qs = [q for q in q1["qs"] if q[0] not in ("intrinsic", "asserts")]
        # the queries were cost-checked on c; c2 has the same layout by the property, so the costs agree
        return {"ty": c, "ty2": c2, "qs": qs}
    raise RuntimeError("generator failed")


class EvolveSuite(common.Suite):
    name = "evolve"

    def generate(self, rng, n, prop, tier):
        return [gen_case(rng, prop) for _ in range(n)]

    def corpus(self, prop):
        u8 = ["prim", 8, "uintsat"]
        d = ["delim", ["struct", [u8]], 64]
        d2 = ["delim", ["struct", [u8, ["prim", 16, "uintsat"], ["varr", u8, 3]]], 64]
        qs = [["min"], ["max"], ["extent"], ["mod", 8], ["mod", 32], ["offsets", [0], [8, 32]], ["offsets", [3, 11], [8]], ["expand"]]
        return [
            {"ty": ["struct", [["prim", 3, "uintsat"], ["farr", d, 2], ["prim", 7, "uintsat"]]],
             "ty2": ["struct", [["prim", 3, "uintsat"], ["farr", d2, 2], ["prim", 7, "uintsat"]]], "qs": qs},
            {"ty": ["union", [u8, d]], "ty2": ["union", [u8, d2]], "qs": qs},
        ]

    def run_impl(self, case):
        a = L.SUITE.run_impl({"ty": case["ty"], "qs": case["qs"]})
        b = L.SUITE.run_impl({"ty": case["ty2"], "qs": case["qs"]})
        if a.get("res") != "ok" or b.get("res") != "ok":
            return {"res": "rejected" if "rejected" in (a.get("res"), b.get("res")) else str(a.get("res")) + "/" + str(b.get("res"))}
        return {"res": "ok", "out": a["out"], "out2": b["out"]}

    def model_case(self, case):
        return {"id": case["id"], "ty": L.strip(case["ty"]), "ty2": L.strip(case["ty2"]), "qs": case["qs"]}

    def oracle(self, case, impl, prop):
        if impl.get("res") != "ok":
            return "valid container / revision pair not accepted: %s" % impl.get("res")
        for q, a, b in zip(case["qs"], impl["out"], impl["out2"]):
            if a != b:
                return "query %s differs between the container and its revision: %s vs %s" % (q, B._short(a), B._short(b))
        # and the common value is the Specification's
        return L.SUITE.oracle({"ty": case["ty"], "qs": case["qs"]}, {"res": "ok", "out": impl["out"]}, prop)

    def signature(self, case, desc, prop):
        if desc.startswith("query"):
            return "evolve/" + desc.split("'")[1]
        return "evolve/" + desc.split(":")[0][:40]

    def shrink(self, case):
        qs = case["qs"]
        for i in range(len(qs)):
            if len(qs) > 1:
                yield {"ty": case["ty"], "ty2": case["ty2"], "qs": qs[:i] + qs[i + 1:]}

    def features(self, case, impl):
        yield "top:" + case["ty"][0]
        for k in set(L.kinds(case["ty"])):
            yield "has:" + k
        for q in case["qs"]:
            yield "q:" + q[0]
        yield "depth:%d" % L.tdepth(case["ty"])


SUITE = EvolveSuite()
