"""
Suite `bls` (C01, C16, C18-bls): operator trees built through the PUBLIC BitLengthSet API, queried in varied order,
with re-queries of earlier operands after new sets were built from them (operand immutability, cache transparency).

Case:  {"nodes": [[kind, ...], ...], "qs": [[query, node, arg?], ...], "how": [spelling per node]}
Outcome: {"out": [...]}  (one entry per query; sets are sorted lists)

Spelling of a node (`how`; the Lean model and the oracle never see it - the denoted set does not depend on it):
  leaf      : "set" | "list" | "int" | "gen" | "tuple" | "frozenset" | "dup" (list with a repeated element, reversed) |
              "nested" (BitLengthSet(BitLengthSet(set)))
  cat / uni : "op" | "rop" | "static" (operands as BitLengthSet objects), or
              {"api": A, "forms": [operand form per child], "outer": O}  - every public composition API with every
              admissible operand FORM in every operand position:
              A: "static" (concatenate / unite of an iterable O = list | tuple | gen | iter), "op" (x + y, x | y),
                 "rop" (raw + x, raw | x: the reflected operators), "iop" (t += y, t |= y on a second name of the operand),
                 "fold" (functools.reduce(operator.add / or_, rest, first)), "sum" (sum(rest, first); sum(rest) when the
                 first operand is the plain integer 0)
              form: "bls" (the BitLengthSet object of the child), "copy" (BitLengthSet(child)), "expanded" (the plain set
                 of the child's numerical expansion), and for leaf children the plain Python values "int" (single-valued
                 leaves: the scalar itself, incl. the neutral / absorbing / boundary scalars 0 and 1), "set",
                 "frozenset", "list", "tuple", "gen", "dup"

Oracle (independent of the Lean model and of the library's algorithm): residues by iterated sumsets in Z/d with
square-and-multiply for the repetition count, min/max by direct recursion, exact expansion for small trees.
"""
from __future__ import annotations

import functools
import math
import operator
import random
import typing

import common

BIG_K = [2**8 - 1, 2**8, 2**16, 2**32 - 1, 2**32, 2**63 - 1, 2**63, 2**64 + 3, 10**12 + 7]


# ------------------------------------------------------------------------------- independent oracle


def o_min(nodes, i):
    n = nodes[i]
    k = n[0]
    if k == "leaf":
        return min(n[1])
    if k == "pad":
        return -(-o_min(nodes, n[1]) // n[2]) * n[2]
    if k == "cat":
        return sum(o_min(nodes, j) for j in n[1])
    if k == "rep":
        return o_min(nodes, n[1]) * n[2]
    if k == "rrep":
        return 0
    if k == "uni":
        return min(o_min(nodes, j) for j in n[1])
    raise ValueError(k)


def o_max(nodes, i):
    n = nodes[i]
    k = n[0]
    if k == "leaf":
        return max(n[1])
    if k == "pad":
        return -(-o_max(nodes, n[1]) // n[2]) * n[2]
    if k == "cat":
        return sum(o_max(nodes, j) for j in n[1])
    if k in ("rep", "rrep"):
        return o_max(nodes, n[1]) * n[2]
    if k == "uni":
        return max(o_max(nodes, j) for j in n[1])
    raise ValueError(k)


class TooBig(Exception):
    pass


def _sumset(a, b, d):
    if len(a) * len(b) > 40000:
        raise TooBig()
    return frozenset((x + y) % d for x in a for y in b)


def _nsmul(s, k, d):
    """k-fold sumset of s in Z/d by square-and-multiply (k may be astronomically large)."""
    result = frozenset([0])
    base = frozenset(s)
    while k:
        if k & 1:
            result = _sumset(result, base, d)
        k >>= 1
        if k:
            base = _sumset(base, base, d)
    return result


def o_res(nodes, i, d, memo=None):
    memo = {} if memo is None else memo
    if (i, d) in memo:
        return memo[(i, d)]
    n = nodes[i]
    k = n[0]
    if k == "leaf":
        r = frozenset(v % d for v in n[1])
    elif k == "pad":
        a = n[2]
        l = a * d // math.gcd(a, d)
        r = frozenset((-(-x // a) * a) % d for x in o_res(nodes, n[1], l, memo))
    elif k == "cat":
        r = frozenset([0])
        for j in n[1]:
            r = _sumset(r, o_res(nodes, j, d, memo), d)
    elif k == "rep":
        r = _nsmul(o_res(nodes, n[1], d, memo), n[2], d)
    elif k == "rrep":
        # union over j <= K of j-fold sums == K-fold sums of (R with 0 added)
        r = _nsmul(o_res(nodes, n[1], d, memo) | {0}, n[2], d)
    elif k == "uni":
        r = frozenset().union(*[o_res(nodes, j, d, memo) for j in n[1]])
    else:
        raise ValueError(k)
    memo[(i, d)] = r
    return r


def o_den(nodes, i, limit=4000, memo=None):
    """Exact set by brute force, or None when it would be larger than `limit`."""
    memo = {} if memo is None else memo
    if i in memo:
        return memo[i]
    n = nodes[i]
    k = n[0]
    r: typing.Optional[frozenset]
    if k == "leaf":
        r = frozenset(n[1])
    elif k == "pad":
        c = o_den(nodes, n[1], limit, memo)
        r = None if c is None else frozenset(-(-x // n[2]) * n[2] for x in c)
    elif k == "cat":
        r = frozenset([0])
        for j in n[1]:
            c = o_den(nodes, j, limit, memo)
            if c is None or r is None or len(c) * len(r) > limit * 8:
                r = None
                break
            r = frozenset(x + y for x in r for y in c)
            if len(r) > limit:
                r = None
                break
    elif k in ("rep", "rrep"):
        c = o_den(nodes, n[1], limit, memo)
        if c is None or n[2] > 64:
            r = None
        else:
            acc = frozenset([0])
            out = set(acc)
            for _ in range(n[2]):
                if len(acc) * len(c) > limit * 8:
                    acc = None
                    break
                acc = frozenset(x + y for x in acc for y in c)
                if len(acc) > limit:
                    acc = None
                    break
                out |= acc
            r = None if acc is None else (acc if k == "rep" else frozenset(out))
    elif k == "uni":
        parts = [o_den(nodes, j, limit, memo) for j in n[1]]
        r = None if any(p is None for p in parts) else frozenset().union(*parts)
    else:
        raise ValueError(k)
    memo[i] = r
    return r


def cwr_count(r, k):
    return math.comb(r + k - 1, k) if r > 0 else (1 if k == 0 else 0)


def mod_cost(nodes, i, d, memo=None, cost_memo=None):
    """Number of tuples the library (and the model) enumerate for `modulo(d)` of node i (no caching assumed)."""
    memo = {} if memo is None else memo
    n = nodes[i]
    k = n[0]
    if k == "leaf":
        return len(n[1])
    if k == "pad":
        a = n[2]
        l = a * d // math.gcd(a, d)
        return mod_cost(nodes, n[1], l, memo) + len(o_res(nodes, n[1], l, memo))
    if k == "cat":
        c = sum(mod_cost(nodes, j, d, memo) for j in n[1])
        p = 1
        for j in n[1]:
            p *= len(o_res(nodes, j, d, memo))
        return c + p
    if k in ("rep", "rrep"):
        kk = n[2]
        ek = min(kk, d + kk % d)
        r = len(o_res(nodes, n[1], d, memo))
        c = mod_cost(nodes, n[1], d, memo)
        if k == "rep":
            return c + cwr_count(r, ek)
        return c + (cwr_count(r + 1, ek) if r else 1)  # sum_{j<=ek} C(r+j-1,j) = C(r+ek, ek)
    if k == "uni":
        return sum(mod_cost(nodes, j, d, memo) for j in n[1])
    raise ValueError(k)


def expand_cost(nodes, i, memo=None):
    memo = {} if memo is None else memo
    n = nodes[i]
    k = n[0]
    if k == "leaf":
        return len(n[1])
    den = lambda j: o_den(nodes, j, 400, memo)  # noqa: E731
    if k == "pad":
        return expand_cost(nodes, n[1], memo)
    if k == "uni":
        return sum(expand_cost(nodes, j, memo) for j in n[1])
    if k == "cat":
        p = 1
        for j in n[1]:
            dj = den(j)
            if dj is None:
                return 10**9
            p *= len(dj)
        return p + sum(expand_cost(nodes, j, memo) for j in n[1])
    c = den(n[1])
    if c is None or n[2] > 40:
        return 10**9
    r = len(c)
    base = expand_cost(nodes, n[1], memo)
    if k == "rep":
        return base + cwr_count(r, n[2])
    return base + cwr_count(r + 1, n[2])


# ------------------------------------------------------------------------------- generator

MOD_BUDGET = 6000
EXPAND_BUDGET = 3000


def gen_leaf(rng: random.Random) -> list:
    style = rng.random()
    if style < 0.25:
        vals = [rng.choice([0, 1, 7, 8, 16, 24, 32, 64, 255, 256, 65535])]
    elif style < 0.55:
        base = rng.choice([1, 2, 4, 8, 8, 16])
        vals = [base * rng.randrange(0, 12) for _ in range(rng.randint(1, 4))]
    elif style < 0.9:
        vals = [rng.randrange(0, 40) for _ in range(rng.randint(1, 4))]
    else:
        vals = [rng.choice([0, 1, 2**31, 2**32 + 1, 2**63, 2**64 - 1, 10**18 + 9]) for _ in range(rng.randint(1, 3))]
    out = []
    for v in vals:
        if v not in out:
            out.append(v)
    return out


def gen_k(rng: random.Random) -> int:
    x = rng.random()
    if x < 0.45:
        return rng.randint(0, 6)
    if x < 0.7:
        return rng.randint(7, 70)
    if x < 0.85:
        return rng.choice(BIG_K)
    return rng.choice(BIG_K) + rng.randint(-3, 40)


def gen_align(rng: random.Random) -> int:
    return rng.choice([1, 1, 2, 3, 4, 5, 7, 8, 8, 8, 12, 16, 32, 64])


def gen_div(rng: random.Random) -> int:
    x = rng.random()
    if x < 0.55:
        return rng.choice([1, 2, 3, 4, 5, 6, 7, 8, 8, 8, 9, 12, 16, 32, 32, 64])
    if x < 0.9:
        return rng.randint(1, 40)
    return rng.choice([127, 128, 255, 256, 1000, 2**16, 2**20 + 7])


def _cost(nodes, i, d, memo):
    try:
        o_res(nodes, i, d, memo)
        return mod_cost(nodes, i, d, memo)
    except (TooBig, OverflowError, MemoryError):
        return 10**12


def gen_k_near(rng: random.Random, d: int) -> int:
    """Repetition counts around the boundaries of the library's `equivalent k` reduction for divisor d."""
    base = rng.choice([0, d, d, 2 * d, rng.randint(2, 9) * d, rng.choice(BIG_K) // d * d])
    return max(0, base + rng.choice([-3, -2, -1, 0, 0, 1, 2, d - 2, d - 1]))


def gen_targeted(rng: random.Random) -> dict:
    """Few residues, long sumset chains: a generator g of Z/d (or {0, g}), k correlated with d."""
    d = rng.choice([2, 3, 5, 7, 8, 12, 16, 31, 32, 41, 48, 64, 97, 128]) if rng.random() < 0.7 else rng.randint(2, 140)
    g = rng.choice([1, 1, d - 1, d + 1, rng.randint(1, 3 * d)])
    leaf = rng.choice([[g], [0, g], [g, 2 * g], [g, g + d]])
    nodes: typing.List[list] = [["leaf", sorted(set(leaf))]]
    how = ["set"]
    for _ in range(rng.randint(1, 3)):
        kind = rng.choice(["rep", "rrep", "rrep"])
        nodes.append([kind, 0, gen_k_near(rng, d)])
        how.append(kind)
    top = len(nodes) - 1
    if rng.random() < 0.4:
        a = rng.choice([1, 2, 4, 8, d])
        nodes.append(["pad", top, a])
        how.append("pad")
    elif rng.random() < 0.4:
        nodes.append(["leaf", [rng.randint(0, 2 * d)]])
        how.append("int")
        nodes.append(["cat", [len(nodes) - 1, top]])
        how.append("op")
    qs: typing.List[list] = []
    memo: dict = {}
    for i in range(1, len(nodes)):
        for dd in {d, rng.choice([d, 2 * d, max(1, d // 2), d + 1])}:
            if _cost(nodes, i, dd, memo) <= MOD_BUDGET:
                qs.append([rng.choice(["mod", "mod", "aligned", "asserts"]), i, dd])
        qs.append([rng.choice(["min", "max", "fixed"]), i])
    rng.shuffle(qs)
    return {"nodes": nodes, "how": how, "qs": qs}


HEAVY_BUDGET = 1_200_000


def gen_heavy(rng: random.Random) -> dict:
    """A long repetition of a set with 3-6 distinct residues: tens of thousands of multicombinations after the `equivalent k`
    reduction.  Far above the per-query budget of the ordinary cases, so that code paths selected by the SIZE of the
    enumeration (shortcuts for 'too many' combinations) are exercised; one or two residue queries only."""
    for _ in range(50):
        d = rng.choice([12, 16, 24, 32, 48, 64])
        m = rng.randint(3, 6)
        step = rng.choice([1, 2, 3, 4, 8, d // 4])
        base = rng.randrange(d)
        res = sorted({(base + step * rng.randrange(d)) % d for _ in range(m)})
        if len(res) < 3:
            continue
        leaf = sorted({r + d * rng.choice([0, 0, 1, 2, 5]) for r in res})
        k = rng.choice([2 * d, 2 * d + 1, 3 * d - 1, 5 * d + 3, 200, 2**40 + rng.randrange(d), 2**63 + rng.randrange(d)])
        kind = rng.choice(["rep", "rep", "rrep"])
        nodes: typing.List[list] = [["leaf", leaf], [kind, 0, k]]
        how = ["set", kind]
        top = 1
        r = rng.random()
        if r < 0.3:
            nodes.append(["leaf", [rng.choice([0, 8, 16, 3])]]); how.append("int")
            nodes.append(["cat", [2, 1]]); how.append("op"); top = 3
        elif r < 0.5:
            nodes.append(["pad", 1, rng.choice([2, 4, 8])]); how.append("pad"); top = 2
        elif r < 0.6:
            nodes.append(["leaf", [rng.choice([1, 5, 40])]]); how.append("int")
            nodes.append(["uni", [1, 2]]); how.append("op"); top = 3
        c = _cost(nodes, top, d, {})
        if not (12_000 <= c <= HEAVY_BUDGET):
            continue
        qs = [["mod", top, d]]
        if rng.random() < 0.5:
            qs.append([rng.choice(["aligned", "mod"]), 1, d])
        qs.append([rng.choice(["min", "max"]), top])
        return {"nodes": nodes, "how": how, "qs": qs}
    return {"nodes": [["leaf", [1]]], "how": ["int"], "qs": []}


def gen_lookalike_union(rng: random.Random) -> dict:
    """Union (and concatenation) of two DIFFERENT sets that the approximate BitLengthSet equality cannot tell apart
    (same min, max and residues modulo 32): nothing may be merged or dropped on the strength of `==` / hash."""
    lo = rng.choice([0, 8, 16, 3])
    span = 32 * rng.randint(2, 5)
    a = [lo, lo + span]
    extra = sorted({lo + 32 * rng.randint(1, span // 32 - 1) for _ in range(rng.randint(1, 2))} | ({lo + 16, lo + 16 + 32} if rng.random() < 0.3 else set()))
    b = sorted(set(a) | set(extra))
    if rng.random() < 0.3:  # both with the extra residue class so that the keys still coincide
        a = sorted(set(a) | {lo + 16}) if (lo + 16) in b else a
    nodes: typing.List[list] = [["leaf", a], ["leaf", b]]
    how = ["set", "set"]
    order = [0, 1] if rng.random() < 0.7 else [1, 0]
    if rng.random() < 0.4:
        nodes.append(["rrep", 1, 1])  # the same set again, built symbolically: {0} | b ... keep it simple: repeat_range(1) adds 0
        how.append("rrep")
    nodes.append(["uni", order])
    how.append(rng.choice(["op", "static"]))
    u = len(nodes) - 1
    if rng.random() < 0.5:
        nodes.append(["rep", u, rng.choice([2, 3, 2**63])])
        how.append("rep")
    top = len(nodes) - 1
    qs: typing.List[list] = []
    memo: dict = {}
    for i in {u, top}:
        for d in (64, rng.choice([3, 5, 7, 48, 96, 128])):
            if _cost(nodes, i, d, memo) <= MOD_BUDGET:
                qs.append([rng.choice(["mod", "mod", "aligned"]), i, d])
        if expand_cost(nodes, i, {}) <= EXPAND_BUDGET and o_den(nodes, i, 400, {}) is not None:
            qs.append([rng.choice(["expand", "len"]), i])
        qs.append(["max", i])
    rng.shuffle(qs)
    return {"nodes": nodes, "how": how, "qs": qs}


def gen_lookalike_twins(rng: random.Random) -> dict:
    """Two DIFFERENT sets with the same approximate key (min, max, residues modulo 32), each put through the SAME
    operation with the same arguments, both results queried: an answer must depend on the operand itself, never on an
    operand that merely compares equal (caches keyed by `==` / hash, here or in an earlier case of the same process)."""
    lo = rng.choice([0, 8, 16, 3, 32])
    span = 32 * rng.randint(2, 5)
    mids = [lo + 32 * j for j in range(1, span // 32)]
    ma = sorted(rng.sample(mids, rng.randint(0, min(2, len(mids)))))
    mb = sorted(rng.sample(mids, rng.randint(0, min(2, len(mids)))))
    if ma == mb:
        mb = [m for m in mids if m not in ma][:1] or []
        if ma == mb:
            ma = mids[:1]
    a = sorted({lo, lo + span} | set(ma))
    b = sorted({lo, lo + span} | set(mb))
    nodes: typing.List[list] = [["leaf", a], ["leaf", b]]
    how = ["set", rng.choice(["set", "list"])]
    ia, ib = 0, 1
    if rng.random() < 0.4:  # make them operator-backed (memoised) rather than literal sets
        nodes.append(["leaf", [rng.choice([0, 8, 32])]])
        how.append("int")
        c = len(nodes) - 1
        nodes.append(["cat", [c, 0]]); how.append("op"); ia = len(nodes) - 1
        nodes.append(["cat", [c, 1]]); how.append("op"); ib = len(nodes) - 1
    kind = rng.choice(["rep", "rep", "rrep", "rrep", "pad", "cat", "uni"])
    first, second = (ia, ib) if rng.random() < 0.5 else (ib, ia)
    tops = []
    if kind in ("rep", "rrep"):
        k = rng.choice([2, 2, 3, 4])
        for x in (first, second):
            nodes.append([kind, x, k]); how.append(kind); tops.append(len(nodes) - 1)
    elif kind == "pad":
        al = rng.choice([64, 128, 96, 48])
        for x in (first, second):
            nodes.append(["pad", x, al]); how.append("pad"); tops.append(len(nodes) - 1)
    else:
        nodes.append(["leaf", sorted({rng.choice([0, 8, 16]), rng.choice([8, 40, 72])})]); how.append("set")
        t = len(nodes) - 1
        for x in (first, second):
            nodes.append([kind, [x, t] if rng.random() < 0.5 else [t, x]]); how.append(rng.choice(["op", "static"])); tops.append(len(nodes) - 1)
    qs: typing.List[list] = []
    memo: dict = {}
    for i in tops:
        for d in (64, 128, rng.choice([3, 5, 7, 9, 48, 96, 160])):
            if _cost(nodes, i, d, memo) <= MOD_BUDGET:
                qs.append([rng.choice(["mod", "mod", "aligned"]), i, d])
        if expand_cost(nodes, i, {}) <= EXPAND_BUDGET and o_den(nodes, i, 400, {}) is not None:
            qs.append([rng.choice(["expand", "len"]), i])
        qs.append([rng.choice(["max", "min", "fixed"]), i])
    if rng.random() < 0.5:
        rng.shuffle(qs)
    return {"nodes": nodes, "how": how, "qs": qs}


# --- operand forms: every public composition API x every admissible operand form x every operand position -------------
# The composition APIs accept "BitLengthSet | Iterable[int] | int" for every operand.  What a composition DENOTES depends
# on the operands' sets only - never on how an operand is spelled (object, copy, plain set / list / tuple / generator,
# scalar), on where it stands, or on which entry point (static method, operator, reflected operator, reduce / sum) is
# used.  Scalars that are neutral / absorbing for SOME operator (0 for concatenation and repetition, 1 for alignment and
# counts) are ordinary elements for the others.

BLS_FORMS = ("bls", "copy")
RAW_LEAF_FORMS = ("set", "frozenset", "list", "tuple", "gen", "dup")
LEAF_HOW_1 = ["int", "int", "set", "list", "gen", "tuple", "frozenset", "nested"]
LEAF_HOW_N = ["set", "set", "list", "gen", "tuple", "frozenset", "dup", "nested"]
FORM_SCALARS = [0, 0, 0, 0, 1, 1, 2, 3, 7, 8, 8, 16, 255]


def child_forms(nodes, j, den_memo=None) -> typing.List[str]:
    """The forms in which child j may be handed to a composition API."""
    fs = ["bls", "bls", "copy"]
    n = nodes[j]
    if n[0] == "leaf":
        fs += list(RAW_LEAF_FORMS)
        if len(n[1]) == 1:
            fs += ["int"] * 6
    else:
        dm = {} if den_memo is None else den_memo
        if expand_cost(nodes, j, dm) <= 300 and o_den(nodes, j, 200, dm) is not None:
            fs += ["expanded", "expanded"]
    return fs


def how_ok(kind: str, ch: typing.List[int], h: dict) -> bool:
    """Python-level admissibility: the expression must reach a BitLengthSet method (two plain operands would be
    combined by Python itself), binary APIs have two operands."""
    api, forms = h["api"], h["forms"]
    if len(forms) != len(ch) or not ch:
        return False
    if api == "static":
        return True
    if api in ("op", "iop"):
        return len(ch) == 2 and forms[0] in BLS_FORMS
    if api == "rop":
        return len(ch) == 2 and forms[0] not in BLS_FORMS and forms[1] in BLS_FORMS
    if api in ("fold", "sum"):
        return len(ch) >= 2 and (forms[0] in BLS_FORMS or forms[1] in BLS_FORMS) and (api == "fold" or kind == "cat")
    return False


def gen_how(rng: random.Random, nodes, kind: str, ch: typing.List[int], den_memo=None) -> dict:
    """A random admissible spelling of the composition `kind` over the children `ch`."""
    apis = ["static", "static"]
    if len(ch) == 2:
        apis += ["op", "op", "rop", "rop", "iop"]
    if len(ch) >= 2:
        apis += ["fold", "fold"] + (["sum"] if kind == "cat" else [])
    avail = [child_forms(nodes, j, den_memo) for j in ch]
    for _ in range(30):
        api = rng.choice(apis)
        forms = [rng.choice(a) for a in avail]
        if api == "rop":  # the left operand is a plain value whenever the child has one
            raw = [f for f in avail[0] if f not in BLS_FORMS]
            if not raw:
                continue
            forms[0] = rng.choice(raw)
            forms[1] = rng.choice(BLS_FORMS)
        elif api in ("op", "iop"):
            forms[0] = rng.choice(BLS_FORMS)
        h = {"api": api, "forms": forms, "outer": rng.choice(["list", "list", "tuple", "gen", "iter"])}
        if how_ok(kind, ch, h):
            return h
    return {"api": "static", "forms": ["bls"] * len(ch), "outer": "list"}


def _form_queries(rng, nodes, targets, divisors, qs):
    memo: dict = {}
    for i in targets:
        dm: dict = {}
        for d in divisors:
            if _cost(nodes, i, d, memo) <= MOD_BUDGET:
                qs.append([rng.choice(["mod", "mod", "aligned"]), i, d])
        if expand_cost(nodes, i, dm) <= EXPAND_BUDGET and o_den(nodes, i, 400, dm) is not None:
            qs.append(["expand", i])
            if rng.random() < 0.4:
                qs.append(["len", i])
        qs.append(["min", i])
        qs.append([rng.choice(["max", "fixed", "fixed"]), i])


def gen_forms(rng: random.Random) -> dict:
    """Small trees whose compositions are spelled through every public API with every operand form: 2-4 operands (scalars
    incl. 0 and 1, small sets with and without 0, operator-backed sets), 1-3 compositions over them - a boundary scalar
    is put into a random operand position of most of them -, each optionally wrapped into repeat / repeat_range / pad /
    a further concatenation; every composition and wrapper is queried analytically and numerically, the operands are
    queried again at the end (they must not have been changed)."""
    nodes: typing.List[list] = []
    how: typing.List[typing.Any] = []

    def add(n, h):
        nodes.append(n)
        how.append(h)
        return len(nodes) - 1

    def small_set():
        base = rng.choice([1, 1, 2, 3, 8, 8])
        vals = {base * rng.randint(0 if rng.random() < 0.3 else 1, 9) for _ in range(rng.randint(2, 3))}
        if rng.random() < 0.15:
            vals.add(0)
        return sorted(vals)

    operands: typing.List[int] = []
    for _ in range(rng.randint(2, 4)):
        x = rng.random()
        if x < 0.35 or not operands and x > 0.8:
            operands.append(add(["leaf", [rng.choice(FORM_SCALARS)]], rng.choice(LEAF_HOW_1)))
        elif x < 0.8:
            vals = small_set()
            operands.append(add(["leaf", vals], rng.choice(LEAF_HOW_N if len(vals) > 1 else LEAF_HOW_1)))
        else:
            c = rng.choice(operands)
            kind = rng.choice(["rep", "rrep", "pad"])
            operands.append(add([kind, c, rng.choice([1, 2, 3, 4, 8]) if kind == "pad" else rng.choice([0, 1, 1, 2, 3])], kind))
    comps: typing.List[int] = []
    den_memo: dict = {}
    for _ in range(rng.randint(1, 3)):
        kind = rng.choice(["uni", "uni", "uni", "cat", "cat"])
        pool = operands + comps
        ch = [rng.choice(pool) for _ in range(rng.choice([1, 2, 2, 2, 3, 3, 4]))]
        if rng.random() < 0.65:  # a boundary scalar of its own, in any operand position
            z = add(["leaf", [rng.choice([0, 0, 0, 1])]], "int")
            ch.insert(rng.randrange(len(ch) + 1), z)
        top = add([kind, ch], gen_how(rng, nodes, kind, ch, den_memo))
        comps.append(top)
        x = rng.random()
        if x < 0.5:
            w = rng.choice(["rep", "rrep", "rrep", "pad", "pad", "cat"])
            if w == "pad":
                comps.append(add(["pad", top, rng.choice([2, 3, 4, 8, 8, 16])], "pad"))
            elif w == "cat":
                c = add(["leaf", [rng.choice([1, 3, 8, 16])]], "int")
                chh = [c, top] if rng.random() < 0.5 else [top, c]
                comps.append(add(["cat", chh], gen_how(rng, nodes, "cat", chh, den_memo)))
            else:
                comps.append(add([w, top, rng.choice([0, 1, 2, 2, 3, 5, 2**32 + 1])], w))
    qs: typing.List[list] = []
    divisors = dedup([8, rng.choice([1, 2, 3, 4, 5, 7, 16, 32]), rng.randint(1, 40)])
    _form_queries(rng, nodes, comps, divisors, qs)
    if rng.random() < 0.5:
        rng.shuffle(qs)
    # the operands afterwards: building new sets from them has not changed them
    for i in operands:
        if rng.random() < 0.6:
            qs.append([rng.choice(["expand", "min", "max", "len"]) if nodes[i][0] == "leaf" else rng.choice(["min", "max", "fixed"]), i])
    return {"nodes": nodes, "how": how, "qs": qs}


def dedup(l):
    out = []
    for x in l:
        if x not in out:
            out.append(x)
    return out


FORMS_SHARE = 0.14


def gen_case(rng: random.Random, prop: str) -> dict:
    x = rng.random()
    if x > 1.0 - FORMS_SHARE:
        c = gen_forms(rng)
        if c["qs"]:
            return c
        x = 0.9
    if x < 0.3:
        c = gen_targeted(rng)
        if c["qs"]:
            return c
    elif x < 0.38:
        c = gen_lookalike_union(rng)
        if c["qs"]:
            return c
    elif x < 0.46:
        c = gen_lookalike_twins(rng)
        if c["qs"]:
            return c
    elif x < 0.475:
        c = gen_heavy(rng)
        if c["qs"]:
            return c
    nodes: typing.List[list] = []
    how: typing.List[str] = []
    n_nodes = rng.randint(2, 9)
    while len(nodes) < n_nodes:
        if len(nodes) < 1 or rng.random() < 0.3:
            nodes.append(["leaf", gen_leaf(rng)])
            how.append(rng.choice(["set", "list", "int"]) if len(nodes[-1][1]) == 1 else rng.choice(["set", "list", "gen"]))
            continue
        # prefer recent nodes as children so that the trees get deep
        pick = lambda: max(0, len(nodes) - 1 - int(abs(rng.gauss(0, 2.0))))  # noqa: E731
        kind = rng.choice(["pad", "cat", "cat", "rep", "rrep", "rrep", "uni"])
        if kind == "pad":
            nodes.append(["pad", pick(), gen_align(rng)])
            how.append("pad")
        elif kind in ("rep", "rrep"):
            nodes.append([kind, pick(), gen_k(rng)])
            how.append(kind)
        else:
            m = rng.choice([1, 2, 2, 2, 3, 4])
            ch = [pick() for _ in range(m)]
            nodes.append([kind, ch])
            if rng.random() < 0.3:  # any API, any operand form (see gen_how)
                how.append(gen_how(rng, nodes[:-1], kind, ch))
            elif m == 2:
                how.append(rng.choice(["op", "rop", "static"]))
            else:
                how.append("static")
    qs: typing.List[list] = []
    res_memo: dict = {}
    den_memo: dict = {}
    targets = list(range(len(nodes)))
    rng.shuffle(targets)
    for i in targets[: rng.randint(2, 6)]:
        for _ in range(rng.randint(1, 4)):
            q = rng.choice(["min", "max", "fixed", "mod", "mod", "mod", "aligned", "aligned", "expand", "len", "eq", "hashkey", "asserts"])
            if q in ("mod", "aligned", "asserts"):
                d = gen_div(rng)
                if _cost(nodes, i, d, res_memo) > MOD_BUDGET:
                    d = rng.choice([1, 2, 3, 4])
                    if _cost(nodes, i, d, res_memo) > MOD_BUDGET:
                        continue
                qs.append([q, i, d])
            elif q in ("expand", "len"):
                if expand_cost(nodes, i, den_memo) <= EXPAND_BUDGET and o_den(nodes, i, 400, den_memo) is not None:
                    qs.append([q, i])
            elif q == "eq":
                j = rng.randrange(len(nodes))
                if all(_cost(nodes, x, 32, res_memo) <= MOD_BUDGET for x in (i, j)):
                    qs.append([q, i, j])
            else:
                qs.append([q, i])
    # re-query some earlier answers at the end (aliasing / cache transparency)
    for q in list(qs):
        if rng.random() < 0.3:
            qs.append(list(q))
    rng.shuffle(qs)
    return {"nodes": nodes, "how": how, "qs": qs}


# ------------------------------------------------------------------------------- implementation side


def raw_form(vs, form):
    """The values of a leaf as a plain Python object (no BitLengthSet involved)."""
    if form == "int":
        return vs[0]
    if form == "set":
        return set(vs)
    if form == "frozenset":
        return frozenset(vs)
    if form == "list":
        return list(vs)
    if form == "tuple":
        return tuple(vs)
    if form == "gen":
        return (x for x in vs)
    if form == "dup":
        return list(reversed(vs)) + [vs[0]]
    raise ValueError(form)


def operand_form(B, nodes, objs, j, form):
    if form == "bls":
        return objs[j]
    if form == "copy":
        return B(objs[j])
    if form == "expanded":
        return set(objs[j])
    return raw_form(nodes[j][1], form)


def compose_impl(B, kind, items, h):
    api = h["api"]
    f2 = operator.add if kind == "cat" else operator.or_
    if api == "static":
        outer = {"list": list, "tuple": tuple, "gen": lambda it: (x for x in it), "iter": lambda it: iter(list(it))}[h.get("outer", "list")]
        return (B.concatenate if kind == "cat" else B.unite)(outer(items))
    if api in ("op", "rop"):
        return f2(items[0], items[1])
    if api == "iop":
        t = items[0]
        if kind == "cat":
            t += items[1]
        else:
            t |= items[1]
        return t
    if api == "fold":
        return functools.reduce(f2, items[1:], items[0])
    if api == "sum":
        if isinstance(items[0], int) and items[0] == 0:
            return sum(items[1:])
        return sum(items[1:], items[0])
    raise ValueError(api)


def build_impl(pydsdl, nodes, how):
    B = pydsdl.BitLengthSet
    objs: list = []
    for n, h in zip(nodes, how):
        k = n[0]
        if k == "leaf":
            vs = n[1]
            if h == "int":
                o = B(vs[0])
            elif h == "nested":
                o = B(B(set(vs)))
            elif h in RAW_LEAF_FORMS:
                o = B(raw_form(vs, h))
            else:
                o = B(set(vs))
        elif k == "pad":
            o = objs[n[1]].pad_to_alignment(n[2])
        elif k == "rep":
            o = objs[n[1]].repeat(n[2])
        elif k == "rrep":
            o = objs[n[1]].repeat_range(n[2])
        elif k in ("cat", "uni"):
            ch = [objs[j] for j in n[1]]
            if isinstance(h, dict):
                o = compose_impl(B, k, [operand_form(B, nodes, objs, j, f) for j, f in zip(n[1], h["forms"])], h)
                if not isinstance(o, B):
                    raise TypeError("composition %s did not yield a BitLengthSet but %s" % (h, type(o).__name__))
            elif h == "op" and len(ch) == 2:
                o = (ch[0] + ch[1]) if k == "cat" else (ch[0] | ch[1])
            elif h == "rop" and len(ch) == 2 and nodes[n[1][0]][0] == "leaf":
                raw = set(nodes[n[1][0]][1])
                o = (raw + ch[1]) if k == "cat" else (raw | ch[1])
            else:
                o = B.concatenate(ch) if k == "cat" else B.unite(ch)
        else:
            raise ValueError(k)
        objs.append(o)
    return objs


def ask_impl(objs, q):
    t = q[0]
    o = objs[q[1]]
    if t == "min":
        return o.min
    if t == "max":
        return o.max
    if t == "fixed":
        return bool(o.fixed_length)
    if t == "mod":
        return sorted(o % q[2])
    if t == "aligned":
        if q[2] == 8 and (q[1] % 2 == 0):
            return bool(o.is_aligned_at_byte())
        return bool(o.is_aligned_at(q[2]))
    if t == "asserts":
        sorted(o % q[2])  # an AssertionError here is reported by run_impl
        return True
    if t == "expand":
        return sorted(o)
    if t == "len":
        return len(o)
    if t == "eq":
        r = o == objs[q[2]]
        r2 = objs[q[2]] == o
        if r != r2:
            return "asymmetric"
        return bool(r)
    if t == "hashkey":
        if hash(o) != hash(pydsdl_mod.BitLengthSet(o)):
            return "unstable-hash"
        return [o.min, o.max]
    raise ValueError(t)


pydsdl_mod = None


class BlsSuite(common.Suite):
    name = "bls"

    def generate(self, rng, n, prop, tier):
        return [gen_case(rng, prop) for _ in range(n)]

    def corpus(self, prop):
        return [
            # class docstring example
            {"nodes": [["leaf", [32]], ["leaf", [16]], ["leaf", [8]], ["rrep", 2, 256], ["cat", [1, 3]], ["rrep", 4, 65536], ["cat", [0, 5]]],
             "how": ["int", "int", "int", "rrep", "op", "rrep", "op"],
             "qs": [["min", 6], ["max", 6], ["mod", 6, 16], ["mod", 6, 32], ["fixed", 6], ["aligned", 6, 8]]},
            # non-convergent parity example from the code comment, huge k
            {"nodes": [["leaf", [1, 3]], ["rep", 0, 2**63], ["rep", 0, 2**63 + 1], ["leaf", [7]], ["uni", [0, 3]], ["rep", 4, 2**63], ["pad", 5, 8]],
             "how": ["set", "rep", "rep", "int", "op", "rep", "pad"],
             "qs": [["mod", 1, 2], ["mod", 2, 2], ["mod", 6, 5], ["mod", 6, 12], ["asserts", 6, 12], ["mod", 1, 2]]},
            # k just around d, d-1, 2d-1 (the equivalent-k reduction boundary)
            {"nodes": [["leaf", [0, 1]], ["rep", 0, 6], ["rep", 0, 7], ["rep", 0, 8], ["rrep", 0, 6], ["rrep", 0, 7], ["leaf", [1, 2]], ["rep", 6, 13], ["rep", 6, 14], ["rep", 6, 15]],
             "how": ["set", "rep", "rep", "rep", "rrep", "rrep", "set", "rep", "rep", "rep"],
             "qs": [["mod", i, 7] for i in (1, 2, 3, 4, 5, 7, 8, 9)] + [["mod", i, 8] for i in (1, 2, 3, 7, 8, 9)]},
        ]

    def exhaustive(self, prop, part, parts):
        """Small scope, complete: every operator tree with at most 3 operator nodes over a 4-element leaf alphabet, every
        repetition count 0..5 and two huge ones, alignments {1,2,3,8}, queried for every divisor 1..12 (thorough tier)."""
        leaves = [[0], [1], [8], [0, 3], [1, 2], [8, 16]]
        ks = [0, 1, 2, 3, 5, 2**63, 2**63 + 1]
        aligns = [1, 2, 3, 8]
        trees: typing.List[typing.List[list]] = [[["leaf", l]] for l in leaves]
        level = list(trees)
        for _depth in range(2):
            nxt: typing.List[typing.List[list]] = []
            for t in level:
                top = len(t) - 1
                for a in aligns:
                    nxt.append(t + [["pad", top, a]])
                for k in ks:
                    nxt.append(t + [["rep", top, k]])
                    nxt.append(t + [["rrep", top, k]])
                for l in leaves[:4]:
                    nxt.append(t + [["leaf", l], ["cat", [top, len(t)]]])
                    nxt.append(t + [["leaf", l], ["uni", [len(t), top]]])
            trees += nxt
            level = nxt
        out = []
        for idx, t in enumerate(trees):
            if idx % parts != part:
                continue
            top = len(t) - 1
            how = []
            for n in t:
                how.append({"leaf": "set", "pad": "pad", "rep": "rep", "rrep": "rrep", "cat": "op", "uni": "op"}[n[0]])
            qs = [["min", top], ["max", top], ["fixed", top]]
            memo: dict = {}
            for d in range(1, 13):
                if _cost(t, top, d, memo) <= MOD_BUDGET:
                    qs.append(["mod", top, d])
                    qs.append(["aligned", top, d])
            if expand_cost(t, top, {}) <= EXPAND_BUDGET and o_den(t, top, 400, {}) is not None:
                qs.append(["expand", top])
            out.append({"nodes": t, "how": how, "qs": qs})
        return out

    def run_impl(self, case):
        global pydsdl_mod
        pydsdl_mod = common.import_pydsdl()
        try:
            objs = build_impl(pydsdl_mod, case["nodes"], case["how"])
        except Exception as ex:  # constructors of well-formed trees never raise
            return {"out": None, "soft_err": "build: %s: %s" % (type(ex).__name__, ex)}
        out = []
        for q in case["qs"]:
            try:
                out.append(ask_impl(objs, q))
            except AssertionError as ex:
                out.append("AssertionError")
            except Exception as ex:
                out.append("exc:" + type(ex).__name__)
        return {"out": out}

    def model_case(self, case):
        return {"id": case["id"], "nodes": case["nodes"], "qs": case["qs"]}

    def oracle(self, case, impl, prop):
        nodes = case["nodes"]
        if impl.get("out") is None:
            return "well-formed operator tree rejected: %s" % impl.get("soft_err")
        rm: dict = {}
        dm: dict = {}
        for q, a in zip(case["qs"], impl["out"]):
            t, i = q[0], q[1]
            exp: typing.Any
            if t == "min":
                exp = o_min(nodes, i)
            elif t == "max":
                exp = o_max(nodes, i)
            elif t == "fixed":
                exp = o_min(nodes, i) == o_max(nodes, i)
                den = o_den(nodes, i, 400, dm)
                if den is not None and (len(den) == 1) != exp:
                    return "oracle inconsistency (fixed) at %s" % q
            elif t == "mod":
                exp = sorted(o_res(nodes, i, q[2], rm))
                den = o_den(nodes, i, 400, dm)
                if den is not None and sorted({x % q[2] for x in den}) != exp:
                    return "oracle inconsistency (mod) at %s" % q
            elif t == "aligned":
                exp = set(o_res(nodes, i, q[2], rm)) == {0}
            elif t == "asserts":
                exp = True
            elif t in ("expand", "len"):
                den = o_den(nodes, i, 4000, dm)
                if den is None:
                    continue
                exp = sorted(den) if t == "expand" else len(den)
            elif t == "eq":
                j = q[2]
                same = (o_min(nodes, i), o_max(nodes, i), o_res(nodes, i, 32, rm)) == (o_min(nodes, j), o_max(nodes, j), o_res(nodes, j, 32, rm))
                di, dj = o_den(nodes, i, 400, dm), o_den(nodes, j, 400, dm)
                if prop == "C18" or prop == "C01":
                    # equal sets must never be reported different; different keys must be reported different
                    if di is not None and dj is not None and di == dj and a is not True:
                        return "equal sets reported as different: %s -> %r" % (q, a)
                exp = same
            elif t == "hashkey":
                exp = [o_min(nodes, i), o_max(nodes, i)]
            else:
                continue
            if a != exp:
                return "query %s: implementation answered %s, mathematically defined value is %s" % (q, _short(a), _short(exp))
        return None

    def signature(self, case, desc, prop):
        if desc.startswith("query"):
            return "bls/wrong-answer/" + desc.split("'")[1]
        return "bls/" + desc.split(":")[0][:40]

    def shrink(self, case):
        qs = case["qs"]
        for i in range(len(qs)):
            c = dict(case)
            c["qs"] = qs[:i] + qs[i + 1:]
            if c["qs"]:
                yield c
        # drop unused trailing nodes
        used = {q[1] for q in qs} | {q[2] for q in qs if q[0] == "eq"}
        last = max(used) if used else 0
        if last + 1 < len(case["nodes"]):
            c = dict(case)
            c["nodes"] = case["nodes"][: last + 1]
            c["how"] = case["how"][: last + 1]
            yield c
        # simplify spellings: an operand form becomes the plain object, an API the static method
        for i, h in enumerate(case["how"]):
            if isinstance(h, dict):
                for c_i, f in enumerate(h["forms"]):
                    if f != "bls":
                        h2 = dict(h, forms=h["forms"][:c_i] + ["bls"] + h["forms"][c_i + 1:])
                        if how_ok(case["nodes"][i][0], case["nodes"][i][1], h2):
                            c = dict(case)
                            c["how"] = case["how"][:i] + [h2] + case["how"][i + 1:]
                            yield c
                if h["api"] != "static":
                    c = dict(case)
                    c["how"] = case["how"][:i] + [dict(h, api="static", outer="list")] + case["how"][i + 1:]
                    yield c
        # simplify numbers
        for i, n in enumerate(case["nodes"]):
            if n[0] in ("rep", "rrep") and n[2] > 0:
                for k2 in (n[2] // 2, n[2] - 1):
                    c = dict(case)
                    c["nodes"] = [list(x) for x in case["nodes"]]
                    c["nodes"][i][2] = k2
                    yield c
            if n[0] == "leaf" and len(n[1]) > 1:
                c = dict(case)
                c["nodes"] = [list(x) for x in case["nodes"]]
                c["nodes"][i] = ["leaf", n[1][:-1]]
                yield c

    def features(self, case, impl):
        spelled = False
        for n, h in zip(case["nodes"], case["how"]):
            if isinstance(h, dict):
                spelled = True
                yield "api:%s:%s" % (n[0], h["api"] + ("(" + h.get("outer", "list") + ")" if h["api"] == "static" else ""))
                for pos, (j, f) in enumerate(zip(n[1], h["forms"])):
                    yield "operand-form:" + f
                    if f == "int":
                        v = case["nodes"][j][1][0]
                        where = "only" if len(n[1]) == 1 else "first" if pos == 0 else "last" if pos == len(n[1]) - 1 else "middle"
                        yield "scalar-operand:%s:%s:%s" % (n[0], v if v in (0, 1) else "other", where)
            elif n[0] == "leaf":
                yield "leaf-form:" + str(h)
        if spelled:
            yield "class:operand-forms"
        for n in case["nodes"]:
            yield "node:" + n[0]
            if n[0] in ("rep", "rrep"):
                yield "k:" + ("0" if n[2] == 0 else "small" if n[2] < 8 else "mid" if n[2] < 256 else "huge")
        for q in case["qs"]:
            yield "q:" + q[0]
            if q[0] in ("mod", "aligned"):
                node = case["nodes"][q[1]]
                if node[0] in ("rep", "rrep") and node[2] >= q[2]:
                    yield "reduction-active(k>=d)"
                try:
                    if _cost(case["nodes"], q[1], q[2], {}) > MOD_BUDGET:
                        yield "heavy-enumeration(>%d items)" % MOD_BUDGET
                except Exception:  # noqa: BLE001
                    pass
        yield "depth:%d" % _depth(case["nodes"], len(case["nodes"]) - 1)

    def nontrivial(self, case, impl):
        return any(n[0] != "leaf" for n in case["nodes"]) and len(case["qs"]) > 0


def _depth(nodes, i):
    n = nodes[i]
    if n[0] == "leaf":
        return 0
    ch = n[1] if isinstance(n[1], list) else [n[1]]
    return 1 + max(_depth(nodes, j) for j in ch)


def _short(x):
    s = repr(x)
    return s if len(s) < 200 else s[:200] + "..."


SUITE = BlsSuite()
