"""
Suite `const` (C12): (constant type, initializer) pairs at, just inside and just outside every boundary of every width,
both cast modes, non-integers, strings of length 0/1/2 and non-ASCII, booleans, sets, types that cannot carry constants.

Case / outcome: as in suite `expr` with ctx = ["const", type]; the definition is `<type> X = <initializer>` and the
observed value is `Constant.value` of the returned model (must equal the initializer exactly) or the rejection.
Oracle: the declarative rule of C12 on plain Python integers / Fractions (`expr.o_const`).
"""
from __future__ import annotations

import random
from fractions import Fraction

from suites import expr as X


def int_tree(v: int, rng: random.Random) -> list:
    """An initializer expression whose value is the integer v, in one of several spellings."""
    a = abs(v)
    style = rng.random()
    if style < 0.5 or a < 4:
        t = X.lit_int(a, rng)
    elif style < 0.75 and a & (a + 1) == 0:  # 2**k - 1
        t = ["bin", "sub", ["bin", "pow", X.lit_int(2, rng), X.lit_int(a.bit_length(), rng)], X.lit_int(1, rng)]
    elif style < 0.75 and a & (a - 1) == 0:  # 2**k
        t = ["bin", "pow", X.lit_int(2, rng), X.lit_int(a.bit_length() - 1, rng)]
    elif style < 0.9:
        k = rng.randint(1, max(1, min(a, 1000)))
        t = ["bin", "add", X.lit_int(a - k, rng), X.lit_int(k, rng)]
    else:
        t = ["real", "%d." % a if rng.random() < 0.5 else "%d.0" % a, [a, 1]]
    return ["un", "neg", t] if v < 0 or (v == 0 and rng.random() < 0.1) else t


def frac_tree(q: Fraction, rng: random.Random) -> list:
    if q.denominator == 1:
        return int_tree(q.numerator, rng)
    n = int_tree(q.numerator, rng)
    return ["bin", "div", n, X.lit_int(q.denominator, rng)]


def gen_type(rng: random.Random) -> list:
    x = rng.random()
    if x < 0.06:
        return ["bool"]
    if x < 0.45:
        n = rng.randint(1, 64)
        m = rng.choice(["sat", "trunc"])
        return ["uint", n, m, ("truncated " if m == "trunc" else rng.choice(["", "saturated "])) + "uint%d" % n]
    if x < 0.75:
        n = rng.randint(2, 64)
        return ["int", n, "sat", rng.choice(["", "saturated "]) + "int%d" % n]
    if x < 0.92:
        n = rng.choice([16, 32, 64])
        m = rng.choice(["sat", "trunc"])
        return ["float", n, m, ("truncated " if m == "trunc" else rng.choice(["", "saturated "])) + "float%d" % n]
    # types whose constructor rejects the parameters, or that cannot carry a constant
    return rng.choice([
        ["int", 1, "sat", "int1"],
        ["int", 8, "trunc", "truncated int8"],
        ["int", 65, "sat", "int65"],
        ["uint", 65, "sat", "uint65"],
        ["uint", 100, "trunc", "truncated uint100"],
        ["float", 8, "sat", "float8"],
        ["float", 17, "sat", "float17"],
        ["float", 128, "sat", "float128"],
        ["other", "void8"],
        ["other", "uint8[2]"],
        ["other", "uint8[<=2]"],
        ["other", "byte"],
        ["other", "utf8"],
        ["other", "bool[3]"],
    ])


def boundary_values(ty, rng: random.Random):
    k = ty[0]
    if k in ("uint", "int"):
        n = ty[1]
        pts = [0, 2 ** n - 1, 2 ** n, 2 ** (n - 1), 2 ** (n - 1) - 1, -(2 ** (n - 1)), -(2 ** (n - 1)) - 1, -1, 1, 2 ** n + 1,
               -(2 ** n), 2 ** (n + 1) - 1, 2 ** 64, 2 ** 63, -(2 ** 63) - 1, 127, 128, 255, 256]
        b = rng.choice(pts)
        return Fraction(b + rng.choice([-2, -1, 0, 0, 0, 1, 2]))
    if k == "float":
        m = X.FLOAT_MAX.get(ty[1], Fraction(65504))
        others = [X.FLOAT_MAX[w] for w in (16, 32, 64)]
        b = rng.choice([m, m, -m, -m, rng.choice(others), -rng.choice(others), Fraction(0), Fraction(2) ** 128, Fraction(2) ** 1024, Fraction(2) ** 16])
        d = rng.choice([Fraction(0), Fraction(0), Fraction(1), Fraction(-1), Fraction(1, 3), Fraction(-1, 3), Fraction(1, 10 ** 30), Fraction(-1, 10 ** 30),
                        b / 2 ** 60, -b / 2 ** 60])
        return b + d
    return Fraction(rng.choice([0, 1, 2, 255]))


def gen_init(ty, rng: random.Random) -> list:
    x = rng.random()
    if x < 0.62:
        return frac_tree(boundary_values(ty, rng), rng)
    if x < 0.7:  # non-integers
        q = boundary_values(ty, rng) + rng.choice([Fraction(1, 2), Fraction(-1, 2), Fraction(1, 3), Fraction(1, 10 ** 12)])
        return frac_tree(q, rng) if rng.random() < 0.7 else X.lit_real(rng)
    if x < 0.86:  # strings: length 0 / 1 / 2, ASCII edge, non-ASCII
        cps = rng.choice([[], [97], [48], [0], [0x7F], [0x80], [0xFF], [0xE9], [0x4E2D], [0x1F600], [97, 98], [0x7F, 0x7F], [32], [39], [34], [92], [10]])
        return X.lit_str(rng, list(cps))
    if x < 0.93:
        return ["bool", rng.random() < 0.5]
    if x < 0.97:
        return ["set", [X.lit_int(rng.choice([0, 1, 255]), rng) for _ in range(rng.choice([1, 2]))]]
    return ["bin", "eq", X.lit_int(1, rng), X.lit_int(rng.choice([1, 2]), rng)]


def gen_case(rng: random.Random) -> dict:
    for _ in range(50):
        ty = gen_type(rng)
        tree = gen_init(ty, rng)
        case = {"tree": tree, "env": [], "ctx": ["const", ty]}
        status, _ = X.o_case(case)
        if status == "skip":
            continue
        style = rng.random()
        if style < 0.6:
            case["text"], case["style"] = X.render(tree, rng, 0.0, rng.choice([0.0, 0.5, 1.0])), "minimal"
        else:
            case["text"], case["style"] = X.render(tree, rng, 0.3, rng.choice([0.0, 0.5])), "redundant"
        return case
    raise RuntimeError("generator stuck")


def exhaustive_boundaries():
    """Every width 1..64, both signednesses and cast modes: the six points around both ends of the range (corpus)."""
    r = random.Random(7)
    out = []
    for n in range(1, 65):
        for ty in (["uint", n, "sat", "uint%d" % n], ["uint", n, "trunc", "truncated uint%d" % n], ["int", n, "sat", "int%d" % n]):
            if ty[0] == "int" and n < 2:
                continue
            lo, hi = (0, 2 ** n - 1) if ty[0] == "uint" else (-(2 ** (n - 1)), 2 ** (n - 1) - 1)
            for v in (lo - 1, lo, lo + 1, hi - 1, hi, hi + 1):
                t = int_tree(v, r)
                out.append({"tree": t, "env": [], "ctx": ["const", ty], "text": X.render(t), "style": "plain"})
    for n in (16, 32, 64):
        for m, name in (("sat", "float%d" % n), ("trunc", "truncated float%d" % n)):
            mx = X.FLOAT_MAX[n]
            for q in (mx, -mx, mx + 1, -mx - 1, mx - 1, mx + Fraction(1, 10 ** 40), -mx - Fraction(1, 10 ** 40), mx - Fraction(1, 3), Fraction(1, 3)):
                t = frac_tree(q, r)
                out.append({"tree": t, "env": [], "ctx": ["const", ["float", n, m, name]], "text": X.render(t), "style": "plain"})
    return out


class ConstSuite(X.ExprSuite):
    name = "const"

    def generate(self, rng, n, prop, tier):
        return [gen_case(rng) for _ in range(n)]

    def corpus(self, prop):
        return exhaustive_boundaries()

    def features(self, case, impl):
        ty = case["ctx"][1]
        yield "type:" + ty[0] + (":" + ty[2] if len(ty) > 3 else "")
        if ty[0] in ("uint", "int"):
            yield "width:%s" % ("1-7" if ty[1] < 8 else "8-31" if ty[1] < 32 else "32-63" if ty[1] < 64 else "64+")
        yield "init:" + case["tree"][0]
        yield "outcome:" + ("accepted" if "v" in impl else str(impl.get("err")))
        if impl.get("soft_exc"):
            yield "rejected-as:" + impl["soft_exc"]
        status, val = X.o_case(case)
        if status == "v" and ty[0] in ("uint", "int") and val[0] == "r":
            n = ty[1]
            lo, hi = (0, 2 ** n - 1) if ty[0] == "uint" else (-(2 ** (n - 1)), 2 ** (n - 1) - 1)
            if val[1] in (lo, hi):
                yield "at-boundary"
        yield "style:" + case.get("style", "?")

    def nontrivial(self, case, impl):
        return True

    def signature(self, case, desc, prop):
        ty = case["ctx"][1]
        what = "wrong-value" if "mathematical value" in desc else "wrongly-rejected" if "rejected it" in desc else "wrongly-accepted" if "must be rejected" in desc else \
            "not-an-invalid-definition" if "instead of a value" in desc else "diff"
        return "%s/%s/%s" % (prop, what, ty[0])


SUITE = ConstSuite()
