"""
Suite `const` (C12): (constant type, initializer) pairs at, just inside and just outside every boundary of every width,
both cast modes, non-integers, strings of length 0/1/2 and non-ASCII, booleans, sets, types that cannot carry constants.

Case / outcome: as in suite `expr` with ctx = ["const", type]; the definition is `<type> X = <initializer>` and the
observed value is `Constant.value` of the returned model (must equal the initializer exactly) or the rejection.
Oracle: the declarative rule of C12 on plain Python integers / Fractions (`expr.o_const`); for string initialisers the
rule is applied to the code points as written (`o_const12`): one character below U+0080, nothing "equivalent" to one.

Character family (`gen_char_case`): one-character initialisers drawn per CLASS from the whole of Unicode - ASCII (controls,
quotes, DEL), Latin-1, characters that some text transformation (NFC / NFD / NFKC / NFKD, lower / upper / title / case
folding; classes computed from `unicodedata`, nothing is listed by hand) maps to one ASCII character or to ASCII text,
non-ASCII digits, lone surrogates, astral characters, an ASCII character followed by a combining mark or a
default-ignorable character, the empty string and two characters - written raw or with any escape form, as a plain literal,
concatenated with '' on either side or taken out of a one-element set, for every integer width around 8 and the other types.
Reference family (`gen_refer_case`, "fam": "refer"): definitions with SEVERAL constants in which later initialisers refer
to earlier constants - 1-3 earlier constants of every type / initialiser kind (a character, a boolean, integers at the ends
of their ranges, rationals that a binary float represents exactly or not, saturated / truncated types, constants that
themselves refer to earlier ones), then `<type> X = <expression over their names>` (bare copy into a type of the same,
a wider, a narrower kind; arithmetic, comparisons, logic, two references, sets of references), the target type chosen
around the value.  The expected value is computed by the harness from the STORED value of the referenced constants (the
rule of C12 applied to each earlier constant in turn: a character is its code point); the earlier constants of the returned
model are judged as well ("soft_env").  One case in three is a service: the section under test is the request or the
response, the other section declares constants of the SAME names with other values (a lookup never crosses `---`).
Placement family ("lay"): the rule of C12 holds WHEREVER the constant statement stands and HOWEVER the text ends - attribute
statements are committed lazily (by the next statement, an empty line, or the end of the text), so a constant that nothing
follows takes another path through the reader than one in the middle.  One case in four of the general / character families
is written as `<type> X = <initialiser>` at the first / middle / last position of its section (message, request or response
section of a service - last in the request section means right before `---`), and the text ends in every way a text can end:
final newline, none, trailing blanks, trailing comment (also an empty one `#`), each with and without the final newline,
CR LF line ends with and without the last one.  A compliant initialiser must be IN the returned model (section under test)
with the stored value, a non-compliant one must be rejected.
Second route (`soft_ctor`): the value the initialiser denotes (computed by the harness) is handed to the public
constructors `Constant(<Type>(width, cast mode), "X", String / Rational / Boolean / Set)`; the same rule must hold there.
"""
from __future__ import annotations

import functools
import random
import typing
import unicodedata
from fractions import Fraction

import common
from suites import expr as X


def int_tree(v: int, rng: random.Random) -> list:
    """An initializer expression whose value is the integer v, in one of several spellings."""
    a = abs(v)
    style = rng.random()
    if style < 0.5 or a < 4:
        t = X.lit_int(a, rng)
    elif style < 0.75 and a & (a + 1) == 0:  # 2**k - 1
        t = ["bin", "sub", ["bin", "pow", X.lit_int(2, rng), X.lit_int(a.bit_length(), rng)], X.lit_int(1, rng)]
    elif style < 0.75 and a & (a - 1) == 0:  # 2**k
        t = ["bin", "pow", X.lit_int(2, rng), X.lit_int(a.bit_length() - 1, rng)]
    elif style < 0.9:
        k = rng.randint(1, max(1, min(a, 1000)))
        t = ["bin", "add", X.lit_int(a - k, rng), X.lit_int(k, rng)]
    else:
        t = ["real", "%d." % a if rng.random() < 0.5 else "%d.0" % a, [a, 1]]
    return ["un", "neg", t] if v < 0 or (v == 0 and rng.random() < 0.1) else t


def frac_tree(q: Fraction, rng: random.Random) -> list:
    if q.denominator == 1:
        return int_tree(q.numerator, rng)
    n = int_tree(q.numerator, rng)
    return ["bin", "div", n, X.lit_int(q.denominator, rng)]


def gen_type(rng: random.Random) -> list:
    x = rng.random()
    if x < 0.06:
        return ["bool"]
    if x < 0.45:
        n = rng.randint(1, 64)
        m = rng.choice(["sat", "trunc"])
        return ["uint", n, m, ("truncated " if m == "trunc" else rng.choice(["", "saturated "])) + "uint%d" % n]
    if x < 0.75:
        n = rng.randint(2, 64)
        return ["int", n, "sat", rng.choice(["", "saturated "]) + "int%d" % n]
    if x < 0.92:
        n = rng.choice([16, 32, 64])
        m = rng.choice(["sat", "trunc"])
        return ["float", n, m, ("truncated " if m == "trunc" else rng.choice(["", "saturated "])) + "float%d" % n]
    # types whose constructor rejects the parameters, or that cannot carry a constant
    return rng.choice([
        ["int", 1, "sat", "int1"],
        ["int", 8, "trunc", "truncated int8"],
        ["int", 65, "sat", "int65"],
        ["uint", 65, "sat", "uint65"],
        ["uint", 100, "trunc", "truncated uint100"],
        ["float", 8, "sat", "float8"],
        ["float", 17, "sat", "float17"],
        ["float", 128, "sat", "float128"],
        ["other", "void8"],
        ["other", "uint8[2]"],
        ["other", "uint8[<=2]"],
        ["other", "byte"],
        ["other", "utf8"],
        ["other", "bool[3]"],
    ])


def boundary_values(ty, rng: random.Random):
    k = ty[0]
    if k in ("uint", "int"):
        n = ty[1]
        pts = [0, 2 ** n - 1, 2 ** n, 2 ** (n - 1), 2 ** (n - 1) - 1, -(2 ** (n - 1)), -(2 ** (n - 1)) - 1, -1, 1, 2 ** n + 1,
               -(2 ** n), 2 ** (n + 1) - 1, 2 ** 64, 2 ** 63, -(2 ** 63) - 1, 127, 128, 255, 256]
        b = rng.choice(pts)
        return Fraction(b + rng.choice([-2, -1, 0, 0, 0, 1, 2]))
    if k == "float":
        m = X.FLOAT_MAX.get(ty[1], Fraction(65504))
        others = [X.FLOAT_MAX[w] for w in (16, 32, 64)]
        b = rng.choice([m, m, -m, -m, rng.choice(others), -rng.choice(others), Fraction(0), Fraction(2) ** 128, Fraction(2) ** 1024, Fraction(2) ** 16])
        d = rng.choice([Fraction(0), Fraction(0), Fraction(1), Fraction(-1), Fraction(1, 3), Fraction(-1, 3), Fraction(1, 10 ** 30), Fraction(-1, 10 ** 30),
                        b / 2 ** 60, -b / 2 ** 60])
        return b + d
    return Fraction(rng.choice([0, 1, 2, 255]))


def gen_init(ty, rng: random.Random) -> list:
    x = rng.random()
    if x < 0.62:
        return frac_tree(boundary_values(ty, rng), rng)
    if x < 0.7:  # non-integers
        q = boundary_values(ty, rng) + rng.choice([Fraction(1, 2), Fraction(-1, 2), Fraction(1, 3), Fraction(1, 10 ** 12)])
        return frac_tree(q, rng) if rng.random() < 0.7 else X.lit_real(rng)
    if x < 0.86:  # strings: length 0 / 1 / 2, ASCII edge, non-ASCII
        cps = rng.choice([[], [97], [48], [0], [0x7F], [0x80], [0xFF], [0xE9], [0x4E2D], [0x1F600], [97, 98], [0x7F, 0x7F], [32], [39], [34], [92], [10]])
        return X.lit_str(rng, list(cps))
    if x < 0.93:
        return ["bool", rng.random() < 0.5]
    if x < 0.97:
        return ["set", [X.lit_int(rng.choice([0, 1, 255]), rng) for _ in range(rng.choice([1, 2]))]]
    return ["bin", "eq", X.lit_int(1, rng), X.lit_int(rng.choice([1, 2]), rng)]


# ------------------------------------------------------------------------------------------------ character initialisers
#
# The rule of C12 for strings speaks about the initialiser as written: exactly one character, below U+0080.  Anything that
# merely LOOKS like, normalises to, folds to or encodes to one ASCII character is something else.  The classes below are
# computed from the interpreter's Unicode database, so that every such transformation is represented by its own members.

_SCAN = [(0x80, 0x33000), (0xE0000, 0xE0200)]  # the planes that hold characters (3..13 are unassigned, 15/16 private use)

_TRANSFORMS: typing.List[typing.Tuple[str, typing.Callable[[str], str]]] = [
    ("nfc", lambda c: unicodedata.normalize("NFC", c)),
    ("nfd", lambda c: unicodedata.normalize("NFD", c)),
    ("nfkc", lambda c: unicodedata.normalize("NFKC", c)),
    ("nfkd", lambda c: unicodedata.normalize("NFKD", c)),
    ("lower", str.lower),
    ("upper", str.upper),
    ("title", str.title),
    ("casefold", str.casefold),
]


@functools.lru_cache(maxsize=None)
def char_classes() -> typing.Dict[str, typing.List[int]]:
    """Code points from U+0080 on, by what relates them to ASCII: `<transformation>:1` - the transformation yields ONE
    ASCII character, `<transformation>:n` - it yields ASCII text of another length; `digit` - a decimal digit of another
    script (int() and str.isdigit() accept it); `mark` - combining; `format` - default-ignorable / format characters."""
    out: typing.Dict[str, typing.List[int]] = {}
    for lo, hi in _SCAN:
        for cp in range(lo, hi):
            if 0xD800 <= cp <= 0xDFFF:
                continue
            ch = chr(cp)
            for name, f in _TRANSFORMS:
                t = f(ch)
                if t and t != ch and t.isascii():
                    out.setdefault("%s:%s" % (name, "1" if len(t) == 1 else "n"), []).append(cp)
            if ch.isdecimal():
                out.setdefault("digit", []).append(cp)
            if unicodedata.combining(ch):
                out.setdefault("mark", []).append(cp)
            elif unicodedata.category(ch) == "Cf":
                out.setdefault("format", []).append(cp)
    return out


def char_class_of(cps: typing.List[int]) -> str:
    """Feature label of a string initialiser (for the evidence)."""
    if len(cps) != 1:
        return "len%d" % min(len(cps), 3) + ("" if all(c < 128 for c in cps) else "+non-ascii")
    c = cps[0]
    if c < 128:
        return "ascii" + (":control" if c < 32 or c == 127 else "")
    if 0xD800 <= c <= 0xDFFF:
        return "surrogate"
    ch = chr(c)
    hits = [name for name, f in _TRANSFORMS if len(f(ch)) == 1 and f(ch).isascii()]
    if hits:
        return "ascii-under:" + hits[0]
    return "latin1" if c < 0x100 else "bmp" if c < 0x10000 else "astral"


def gen_chars(rng: random.Random) -> typing.List[int]:
    """The code points of a string initialiser: one class first, then a member of it."""
    cc = char_classes()
    x = rng.random()
    if x < 0.22:
        return [rng.choice([rng.randrange(128), rng.randrange(128), rng.choice([0, 9, 10, 13, 31, 32, 34, 39, 48, 75, 92, 96, 126, 127])])]
    if x < 0.62:   # one character that some transformation turns into ASCII: every transformation equally often
        name = rng.choice(sorted(cc))
        return [rng.choice(cc[name])]
    if x < 0.70:
        return [rng.choice([rng.randrange(0x80, 0x100), rng.randrange(0x100, 0xD800), rng.randrange(0xE000, 0x10000), 0x80, 0xFF, 0x100, 0x7FF, 0x800, 0xFFFD, 0xFFFE])]
    if x < 0.76:
        return [rng.choice([rng.randrange(0x10000, 0x110000), 0x10000, 0x10FFFF, 0x1F600, 0x1004B, 0x1D40A, 0xE004B])]
    if x < 0.81:
        return [rng.choice([0xD800, 0xDBFF, 0xDC00, 0xDFFF, rng.randrange(0xD800, 0xE000)])]
    if x < 0.90:   # an ASCII character with something invisible or combining next to it
        a = rng.choice([75, 59, 96, 65, 97, 48, 32, rng.randrange(32, 127)])
        b = rng.choice(cc[rng.choice(["mark", "format"])])
        return [a, b] if rng.random() < 0.75 else [b, a]
    if x < 0.94:
        return []
    return [rng.randrange(32, 127), rng.choice([rng.randrange(32, 127), 0, 0x4B, rng.choice(cc["nfkc:1"])])]


def char_literal(rng: random.Random, cps: typing.List[int], mode: typing.Optional[str] = None) -> list:
    """A string literal for the code points, every character written in the chosen way (`raw`, `u`, `U`, `simple`, `mix`)
    wherever that way exists for it."""
    q = rng.choice(["'", '"'])
    mode = mode or rng.choice(["raw", "raw", "u", "U", "simple", "mix", "mix"])
    text = q
    for c in cps:
        ch = chr(c)
        m = rng.choice(["raw", "u", "U", "simple"]) if mode == "mix" else mode
        simple = [k for k, v in X.ESCAPES.items() if v == c]
        must_escape = ch in (q, "\\", "\r", "\n") or c < 0x20 and ch != "\t" or 0xD800 <= c <= 0xDFFF or c in (0x7F, 0x80, 0xFFFF)
        if m == "simple" and not simple:
            m = "raw"
        if m == "raw" and must_escape:
            m = "simple" if simple and rng.random() < 0.5 else "u"
        if m == "u" and c > 0xFFFF:
            m = "U"
        if m == "raw":
            text += ch
        elif m == "simple":
            text += "\\" + rng.choice(simple)
        else:
            h = ("%04x" if m == "u" else "%08x") % c
            text += "\\" + m + "".join(x.upper() if rng.random() < 0.5 else x for x in h)
    return ["str", text + q, list(cps)]


NEAR_8 = [["uint", 7], ["uint", 9], ["uint", 1], ["uint", 2], ["uint", 6], ["uint", 10], ["uint", 16], ["uint", 24], ["uint", 32], ["uint", 64],
          ["int", 8], ["int", 8], ["int", 9], ["int", 7], ["int", 16], ["int", 2], ["int", 64]]


def gen_char_type(rng: random.Random) -> list:
    x = rng.random()
    if x < 0.55:
        m = rng.choice(["sat", "trunc"])
        return ["uint", 8, m, ("truncated " if m == "trunc" else rng.choice(["", "saturated "])) + "uint8"]
    if x < 0.85:
        k, n = rng.choice(NEAR_8)
        m = rng.choice(["sat", "trunc"]) if k == "uint" else "sat"
        return [k, n, m, ("truncated " if m == "trunc" else rng.choice(["", "saturated "])) + "%s%d" % (k, n)]
    return gen_type(rng)


def gen_char_tree(rng: random.Random) -> list:
    cps = gen_chars(rng)
    lit = char_literal(rng, cps)
    x = rng.random()
    if x < 0.64:
        return lit
    empty = char_literal(rng, [])
    if x < 0.76:
        return ["bin", "add", lit, empty]
    if x < 0.84:
        return ["bin", "add", empty, lit]
    if x < 0.94:   # out of a one-element set
        return ["attr", ["set", [lit]], rng.choice(["min", "max"])]
    return ["attr", ["set", [lit, char_literal(rng, cps)]], rng.choice(["min", "max"])]   # the same text twice, spelled twice


CHAR_SHARE = 0.2
REFER_SHARE = 0.14

# ------------------------------------------------------------------------------------------------ references to earlier constants

REF_NAMES = ["A", "B", "CH", "K1", "LIMIT", "FLAG", "Q_", "ZERO", "DEFAULT_VALUE", "M2"]


def _float_ty(rng):
    n = rng.choice([16, 32, 64])
    m = rng.choice(["sat", "trunc"])
    return ["float", n, m, ("truncated " if m == "trunc" else rng.choice(["", "saturated "])) + "float%d" % n]


def _int_ty(rng, k, n):
    m = rng.choice(["sat", "trunc"]) if k == "uint" else "sat"
    return [k, n, m, ("truncated " if m == "trunc" else rng.choice(["", "saturated "])) + "%s%d" % (k, n)]


def fit_type(rng: random.Random, v) -> list:
    """A constant type around the value: mostly the narrowest type that holds it or one next to it."""
    k = X.kind_of(v)
    x = rng.random()
    if k == "bool":
        return ["bool"] if x < 0.85 else _int_ty(rng, "uint", rng.choice([1, 8]))
    if k == "rat" and v.denominator == 1:
        if x < 0.8:
            i = v.numerator
            if i >= 0 and rng.random() < 0.6:
                n = max(1, i.bit_length()) + rng.choice([-1, -1, 0, 0, 0, 0, 1, 2, 7])
                return _int_ty(rng, "uint", min(64, max(1, n)))
            need = (i.bit_length() if i >= 0 else (-i - 1).bit_length()) + 1
            return _int_ty(rng, "int", min(64, max(2, need + rng.choice([-1, -1, 0, 0, 0, 0, 1, 2, 7]))))
        return _float_ty(rng) if x < 0.93 else ["bool"]
    if k == "rat":
        return _float_ty(rng) if x < 0.8 else _int_ty(rng, rng.choice(["uint", "int"]), rng.choice([8, 16, 64]))
    return _int_ty(rng, "uint", 8) if x < 0.7 else gen_type(rng)


def ref_expr(rng: random.Random, refs: typing.List[typing.Tuple[str, typing.Any]]) -> list:
    """An initialiser that refers to one or two of the constants `refs` = [(name, stored value)]."""
    name, v = rng.choice(refs)
    me = ["id", name]
    x = rng.random()
    if X.kind_of(v) == "bool":
        others = [["id", n] for n, w in refs if X.kind_of(w) == "bool" and n != name] or [["bool", rng.random() < 0.5]]
        if x < 0.35:
            return me
        if x < 0.5:
            return ["un", "not", me]
        if x < 0.8:
            pair = [me, rng.choice(others)]
            rng.shuffle(pair)
            return ["bin", rng.choice(["lor", "land", "eq", "ne"]), pair[0], pair[1]]
        return ["bin", rng.choice(["eq", "ne"]), me, ["bool", rng.random() < 0.5]]
    if X.kind_of(v) != "rat":
        return me
    rats = [["id", n] for n, w in refs if X.kind_of(w) == "rat" and n != name]
    if x < 0.3:
        return me
    if x < 0.38:
        return ["un", rng.choice(["neg", "neg", "pos"]), me]
    if x < 0.62:
        op = rng.choice(["add", "add", "sub", "sub", "mul", "div", "mod", "bor", "band"])
        k = rng.choice([0, 1, 1, 2, 3, 10, 127, 128, 255, 256])
        lit = X.lit_int(k, rng) if rng.random() < 0.85 else X.lit_real(rng)
        return ["bin", op, me, lit] if rng.random() < 0.65 else ["bin", op, lit, me]
    if x < 0.72 and rats:
        return ["bin", rng.choice(["add", "sub", "mul", "div", "eq", "lt", "ge"]), me, rng.choice(rats)]
    if x < 0.9:
        near = v + rng.choice([-1, 0, 0, 0, 1]) if v.denominator == 1 else v
        rhs = frac_tree(near, rng)
        return ["bin", rng.choice(X.CMP), me, rhs] if rng.random() < 0.7 else ["bin", rng.choice(X.CMP), rhs, me]
    if x < 0.95:
        return ["bin", "pow", me, X.lit_int(rng.choice([0, 1, 2, 2, 3]), rng)]
    return ["attr", ["set", [me, rng.choice(rats) if rats and rng.random() < 0.5 else X.lit_int(rng.choice([0, 1, 100, 255]), rng)]], rng.choice(["min", "max"])]


def gen_ref_item(rng: random.Random, refs) -> typing.Tuple[list, list]:
    """(type, initialiser) of an earlier constant: one kind of stored value each."""
    kind = rng.choice(["char", "char", "char", "bool", "int", "int", "rat-exact", "rat-inexact", "chain", "chain"])
    if kind == "chain" and refs:
        t = ref_expr(rng, refs)
        try:
            return fit_type(rng, X.o_eval(t, dict(refs))), t
        except (X.Invalid, X.Skip):
            kind = "int"
    if kind == "char":
        m = rng.choice(["sat", "trunc"])
        ty = ["uint", 8, m, ("truncated " if m == "trunc" else rng.choice(["", "saturated "])) + "uint8"]
        cp = rng.choice([rng.randrange(32, 127), rng.randrange(32, 127), rng.randrange(128), rng.choice([0, 9, 10, 39, 48, 65, 92, 97, 126, 127])])
        return ty, char_literal(rng, [cp])
    if kind == "bool":
        return ["bool"], (["bool", rng.random() < 0.5] if rng.random() < 0.7 else ["bin", rng.choice(["eq", "lt"]), X.lit_int(1, rng), X.lit_int(rng.choice([1, 2]), rng)])
    if kind in ("int", "chain"):
        k = rng.choice(["uint", "uint", "int"])
        n = rng.choice([1, 2, 7, 8, 8, 9, 16, 32, 63, 64, rng.randint(1, 64)])
        n = max(2, n) if k == "int" else n
        lo, hi = (0, 2 ** n - 1) if k == "uint" else (-(2 ** (n - 1)), 2 ** (n - 1) - 1)
        v = rng.choice([lo, hi, hi, 0, min(1, hi), max(lo, hi - 1), min(hi, lo + 1), rng.randint(lo, hi), rng.randint(max(lo, -300), min(hi, 300))])
        return _int_ty(rng, k, n), int_tree(v, rng)
    ty = _float_ty(rng)
    if kind == "rat-exact":   # what a binary float of that width represents exactly
        q = rng.choice([Fraction(rng.randint(-2000, 2000), 2 ** rng.randint(0, 10)), Fraction(rng.randint(-40, 40)), X.FLOAT_MAX[ty[1]], -X.FLOAT_MAX[ty[1]], Fraction(1, 2), Fraction(0)])
        return ty, frac_tree(q, rng)
    q = rng.choice([Fraction(1, 3), Fraction(-1, 3), Fraction(1, 10), Fraction(22, 7), Fraction(1, 10 ** 30), Fraction(2 ** 24 + 1), Fraction(10 ** 3 + 1, 10 ** 3),
                    X.FLOAT_MAX[ty[1]] - Fraction(1, 3)])
    return ty, (frac_tree(q, rng) if rng.random() < 0.7 else X.lit_real(rng))


def stored_env(items) -> dict:
    """name -> STORED value of every earlier constant, by the rule of C12 applied in turn (raises Invalid / Skip)."""
    env: dict = {}
    for name, ty, t, _text in items:
        if not X.ty_wf(ty):
            raise X.Invalid("type parameters")
        if name in env:
            raise X.Skip("constant declared twice")
        env[name] = o_const12(ty, X.o_eval(t, env))
    return env


def gen_refer_items(rng: random.Random, names: typing.List[str], must_hold: bool) -> typing.Optional[list]:
    items: list = []
    refs: list = []
    for name in names:
        for _ in range(10):
            ty, t = gen_ref_item(rng, refs)
            it = [name, ty, t, X.render(t, rng, rng.choice([0.0, 0.0, 0.3]), rng.choice([0.0, 0.5, 1.0]))]
            try:
                v = stored_env(items + [it])[name]
            except X.Invalid:
                if must_hold or rng.random() < 0.97:   # now and then an earlier constant is itself out of range: the definition is rejected
                    continue
                return items + [it]
            except X.Skip:
                continue
            items.append(it)
            refs.append((name, v))
            break
        else:
            return None
    return items


def gen_refer_case(rng: random.Random) -> typing.Optional[dict]:
    names = rng.sample(REF_NAMES, rng.choice([1, 1, 2, 2, 3]))
    items = gen_refer_items(rng, names, False)
    if not items:
        return None
    try:
        env = stored_env(items)
    except X.Invalid:
        env = None
    except X.Skip:
        return None
    if env is None:     # rejected anyway: any initialiser that mentions a name
        tree = ["id", names[0]]
        ty = _int_ty(rng, "uint", 8)
    else:
        tree = ref_expr(rng, sorted(env.items(), key=lambda kv: names.index(kv[0])))
        val = _try_eval(tree, env)
        if val is not None and rng.random() < 0.15:   # the reference deeper inside
            tree = ["bin", rng.choice(["add", "sub", "mul"]), tree, X.lit_int(rng.choice([0, 1, 2]), rng)] if X.kind_of(val) == "rat" else \
                ["un", "not", tree] if X.kind_of(val) == "bool" else tree
        val = _try_eval(tree, env)
        ty = fit_type(rng, val) if val is not None else rng.choice([["bool"], _int_ty(rng, "uint", 8), _float_ty(rng)])
    case = {"tree": tree, "env": items, "ctx": ["const", ty], "fam": "refer"}
    if rng.random() < 0.33:
        decoy = gen_refer_items(rng, names + (["X"] if rng.random() < 0.5 else []), True)
        if decoy:
            case["svc"] = {"section": rng.choice(["request", "response"]), "decoy": decoy}
    return case


def _try_eval(tree, env):
    try:
        return X.o_eval(tree, env)
    except (X.Invalid, X.Skip):
        return None



# ------------------------------------------------------------------------------------------------ placement of the statement
#
# Where the constant statement stands in its section and how the text ends.  The lazily committed attribute is flushed by
# whatever follows it; when nothing follows, by the end of the text - every ending is a path of its own.

LAY_SHARE = 0.25
LAY_POS = ["first", "middle", "last"]
LAY_ENDS = {  # name -> (what follows the last statement on its line, end-of-line sequence, final end-of-line written?)
    "newline": ("", "\n", True),
    "none": ("", "\n", False),
    "blanks": ("  ", "\n", False),
    "tab": ("\t", "\n", False),
    "blanks-newline": (" \t ", "\n", True),
    "comment": (" # doc", "\n", False),
    "comment-newline": (" # doc", "\n", True),
    "empty-comment": (" #", "\n", False),
    "empty-comment-newline": ("#", "\n", True),
    "crlf": ("", "\r\n", True),
    "crlf-none": ("", "\r\n", False),
    "crlf-blanks": (" ", "\r\n", False),
    "two-newlines": ("", "\n", True),   # an empty line behind the last statement
}
LAY_SVC = [None, None, "request", "response"]


def gen_lay(rng: random.Random) -> dict:
    return {"pos": rng.choice(LAY_POS + ["last"]), "end": rng.choice(sorted(LAY_ENDS)), "svc": rng.choice(LAY_SVC),
            "filler": rng.choice(["field", "field", "const", "pad"])}


def lay_text(case) -> str:
    """The definition text of a case with a placement: the statement under test at the given position of its section."""
    lay = case["lay"]
    ty = case["ctx"][1]
    stmt = "%s X = %s" % (ty[-1] if ty[0] != "bool" else "bool", case["text"])
    filler = {"field": "uint8 f", "const": "uint8 F = 1", "pad": "void8"}[lay.get("filler") or "field"]
    sec = {"first": [stmt, filler, "@sealed"], "middle": [filler, stmt, "@sealed"], "last": [filler, "@sealed", stmt]}[lay["pos"]]
    other = ["uint16 g", "@sealed"]
    svc = lay.get("svc")
    lines = sec if not svc else sec + ["---"] + other if svc == "request" else other + ["---"] + sec
    tail, eol, final = LAY_ENDS[lay["end"]]
    text = eol.join(lines) + tail + (eol if final else "")
    if lay["end"] == "two-newlines":
        text += eol
    return text


def observe_lay(case) -> dict:
    """As expr.observe_impl for a constant; the constant must be in the section it was written in."""
    pydsdl = common.import_pydsdl()
    types, _printed, ex, f = X.run_definition(lay_text(case))
    if ex is not None:
        out = X.classify_exception(pydsdl, ex, f)
        out["rt"] = True
        return out
    t = types[0]
    svc = case["lay"].get("svc")
    if svc:
        t = t.request_type if svc == "request" else t.response_type
    found = [c for c in t.constants if c.name == "X"]
    if len(found) != 1:
        return {"err": "constant-not-in-model", "rt": True,
                "soft_msg": "the definition was accepted, the constants of the returned model are %s" % [str(c) for c in t.constants]}
    return {"v": X.canon_raw(X.from_expression_value(pydsdl, found[0].value)), "rt": True}


def gen_case(rng: random.Random) -> dict:
    for _ in range(50):
        x = rng.random()
        fam = "refer" if x > 1.0 - REFER_SHARE else "char" if x < CHAR_SHARE else "general"
        if fam == "refer":
            case = gen_refer_case(rng)
            if case is None:
                continue
            status, _ = o_case12(case)
            if status == "skip":
                continue
            case["text"], case["style"] = X.render(case["tree"], rng, rng.choice([0.0, 0.0, 0.3]), rng.choice([0.0, 0.5, 1.0])), "minimal"
            return case
        if fam == "char":
            ty = gen_char_type(rng)
            tree = gen_char_tree(rng)
        else:
            ty = gen_type(rng)
            tree = gen_init(ty, rng)
        case = {"tree": tree, "env": [], "ctx": ["const", ty], "fam": fam}
        status, _ = o_case12(case)
        if status == "skip":
            continue
        style = rng.random()
        if style < 0.6:
            case["text"], case["style"] = X.render(tree, rng, 0.0, rng.choice([0.0, 0.5, 1.0])), "minimal"
        else:
            case["text"], case["style"] = X.render(tree, rng, 0.3, rng.choice([0.0, 0.5])), "redundant"
        if rng.random() < LAY_SHARE and "\n" not in case["text"] and "\r" not in case["text"]:
            case["lay"] = gen_lay(rng)
        return case
    raise RuntimeError("generator stuck")


# ------------------------------------------------------------------------------------------------ oracle of C12


def o_const12(ty, v):
    """The rule of C12: the stored value, or Invalid.  A string is judged by its code points as written: accepted only
    if it is ONE character below U+0080 and the type is an 8-bit unsigned integer (stored: the code point).  The only
    indeterminate situation is a string taken out of a set in which two different spellings of one text met (the
    Specification identifies them, so either may come out) while one of them is a single ASCII character."""
    if X.ty_wf(ty) and ty[0] in ("uint", "int") and X.kind_of(v) == "str":
        raw = v.raw
        if v.amb and len(X.nfc(raw)) == 1 and ord(X.nfc(raw)) < 128:
            raise X.Skip("two canonically equivalent spellings met in a set, one of them is one ASCII character")
        if ty[0] == "uint" and ty[1] == 8 and len(raw) == 1 and ord(raw) < 128:
            return Fraction(ord(raw))
        raise X.Invalid("string constant: only one ASCII character is admissible, and only for uint8")
    return X.o_const(ty, v)


def o_value12(case):
    """The value the initialiser denotes (may raise Invalid / Skip); names denote the STORED values of the earlier constants."""
    return X.o_eval(case["tree"], stored_env(case.get("env") or []))


def o_case12(case) -> typing.Tuple[str, typing.Any]:
    """('v', canonical stored value) | ('invalid', why) | ('skip', why)"""
    try:
        ty = case["ctx"][1]
        if not X.ty_wf(ty):
            raise X.Invalid("type parameters")
        return "v", X.canon(o_const12(ty, o_value12(case)))
    except X.Invalid as ex:
        return "invalid", str(ex)
    except X.Skip as ex:
        return "skip", str(ex)


def _ambiguous(v) -> bool:
    if isinstance(v, X.OStr):
        return v.amb
    return isinstance(v, frozenset) and any(_ambiguous(x) for x in v)


def ctor_observe(case) -> typing.Optional[dict]:
    """Second route: the public constructors.  The value of the initialiser is computed by the harness and handed over as
    String / Rational / Boolean / Set; the type is built from its parameters."""
    ty = case["ctx"][1]
    if ty[0] == "other":
        return None
    try:
        v = o_value12(case)
    except (X.Invalid, X.Skip):
        return None
    if _ambiguous(v):
        return None
    pydsdl = common.import_pydsdl()

    def mk(x):
        k = X.kind_of(x)
        if k == "bool":
            return pydsdl.Boolean(x)
        if k == "rat":
            return pydsdl.Rational(x)
        if k == "str":
            return pydsdl.String(x.raw)
        return pydsdl.Set([mk(e) for e in x])

    try:
        if ty[0] == "bool":
            t = pydsdl.BooleanType()
        else:
            cm = pydsdl.PrimitiveType.CastMode.SATURATED if ty[2] == "sat" else pydsdl.PrimitiveType.CastMode.TRUNCATED
            t = {"uint": pydsdl.UnsignedIntegerType, "int": pydsdl.SignedIntegerType, "float": pydsdl.FloatType}[ty[0]](ty[1], cm)
        c = pydsdl.Constant(t, "X", mk(v))
        return {"v": X.canon_raw(X.from_expression_value(pydsdl, c.value))}
    except Exception as ex:  # noqa
        out = X.classify_exception(pydsdl, ex, None)
        out.pop("soft_path_ok", None)
        return out


def judge(status, val, obs: dict, what: str, text: str) -> typing.Optional[str]:
    """The C12 verdict on one observation (front end or constructors)."""
    err = obs.get("err")
    if err is not None and err != "invalid":
        return "%s %r: %s (%s) instead of a value or an InvalidDefinitionError" % (what, text, err, obs.get("soft_msg", ""))
    if status == "invalid":
        if err != "invalid":
            return "%s %r (const) must be rejected (%s), the library produced %s" % (what, text, val, X._short(obs.get("v")))
        if obs.get("soft_path_ok") is False:
            return "%s %r rejected without the path of its file" % (what, text)
        return None
    if err == "invalid":
        return "%s %r (const) has the value %s, the library rejected it (%s)" % (what, text, X._short(val), obs.get("soft_exc"))
    if obs.get("v") != val:   # a stored constant is a boolean or a rational: compared as delivered
        return "%s %r (const): library value %s, mathematical value %s" % (what, text, X._short(obs.get("v")), X._short(val))
    return None


def exhaustive_boundaries():
    """Every width 1..64, both signednesses and cast modes: the six points around both ends of the range (corpus)."""
    r = random.Random(7)
    out = []
    for n in range(1, 65):
        for ty in (["uint", n, "sat", "uint%d" % n], ["uint", n, "trunc", "truncated uint%d" % n], ["int", n, "sat", "int%d" % n]):
            if ty[0] == "int" and n < 2:
                continue
            lo, hi = (0, 2 ** n - 1) if ty[0] == "uint" else (-(2 ** (n - 1)), 2 ** (n - 1) - 1)
            for v in (lo - 1, lo, lo + 1, hi - 1, hi, hi + 1):
                t = int_tree(v, r)
                out.append({"tree": t, "env": [], "ctx": ["const", ty], "text": X.render(t), "style": "plain"})
    for n in (16, 32, 64):
        for m, name in (("sat", "float%d" % n), ("trunc", "truncated float%d" % n)):
            mx = X.FLOAT_MAX[n]
            for q in (mx, -mx, mx + 1, -mx - 1, mx - 1, mx + Fraction(1, 10 ** 40), -mx - Fraction(1, 10 ** 40), mx - Fraction(1, 3), Fraction(1, 3)):
                t = frac_tree(q, r)
                out.append({"tree": t, "env": [], "ctx": ["const", ["float", n, m, name]], "text": X.render(t), "style": "plain"})
    return out


def refer_text(case) -> str:
    """The definition of a reference case; a service when the case says so (the other section: constants of the same names)."""
    svc = case.get("svc")
    if not svc:
        return X.dsdl_text(case)
    main = X.dsdl_text(case)

    def line(it):
        return "%s %s = %s" % (it[1][-1] if it[1][0] != "bool" else "bool", it[0], it[3])
    other = "\n".join([line(it) for it in svc["decoy"]] + ["@sealed"]) + "\n"
    return main + "---\n" + other if svc["section"] == "request" else other + "---\n" + main


def observe_refer(case) -> dict:
    """As expr.observe_impl for a constant, plus the stored values of the earlier constants of the same section."""
    pydsdl = common.import_pydsdl()
    types, _printed, ex, f = X.run_definition(refer_text(case))
    if ex is not None:
        out = X.classify_exception(pydsdl, ex, f)
        out["rt"] = True
        return out
    t = types[0]
    svc = case.get("svc")
    if svc:
        t = t.request_type if svc["section"] == "request" else t.response_type
    consts = {c.name: c for c in t.constants}
    out = {"v": X.canon_raw(X.from_expression_value(pydsdl, consts["X"].value)), "rt": True}
    out["soft_env"] = {n: X.canon_raw(X.from_expression_value(pydsdl, c.value)) for n, c in consts.items() if n != "X"}
    return out


def refer_features(case):
    yield "refer:" + ("service-" + case["svc"]["section"] if case.get("svc") else "message")
    names = {it[0] for it in case["env"]}
    used = [t[1] for t in X.walk(case["tree"]) if t[0] == "id"]
    yield "refer:names-in-initialiser=%d" % len(set(used))
    try:
        env = stored_env(case["env"])
    except (X.Invalid, X.Skip):
        yield "refer:earlier-constant-rejected"
        return
    for it in case["env"]:
        chained = any(t[0] == "id" for t in X.walk(it[2]))
        what = "character" if any(t[0] == "str" for t in X.walk(it[2])) else "boolean" if it[1][0] == "bool" else \
            "float:" + ("exact" if _binary_exact(env[it[0]], it[1][1]) else "inexact") if it[1][0] == "float" else "integer"
        mode = ":" + it[1][2] if len(it[1]) > 3 else ""
        role = "referenced" if it[0] in used else "bystander"
        yield "refer:%s=%s%s%s" % (role, what, mode, ":chained" if chained else "")
    t = case["tree"]
    yield "refer:form=" + ("bare" if t[0] == "id" else t[0] + ":" + str(t[1]) if t[0] in ("un", "bin") else t[0])
    for u in used:
        if u not in names:
            yield "refer:undefined-name"


def _binary_exact(q, width) -> bool:
    """A rational that a binary float of the given width represents exactly (normal range; enough for a feature label)."""
    if X.kind_of(q) != "rat":
        return False
    d = q.denominator
    if d & (d - 1):
        return False
    return abs(q.numerator).bit_length() - (abs(q.numerator) & -abs(q.numerator)).bit_length() + 1 <= {16: 11, 32: 24, 64: 53}[width] if q else True


class ConstSuite(X.ExprSuite):
    name = "const"

    def generate(self, rng, n, prop, tier):
        return [gen_case(rng) for _ in range(n)]

    def corpus(self, prop):
        return exhaustive_boundaries()

    def run_impl(self, case):
        if case.get("fam") == "refer":
            try:
                out = observe_refer(case)
            except Exception as ex:  # harness-side problem: visible as a disagreement, never a crash
                out = {"err": "harness:" + type(ex).__name__, "soft_msg": str(ex)[:300], "rt": True}
        elif case.get("lay"):
            try:
                out = observe_lay(case)
            except Exception as ex:  # harness-side problem: visible as a disagreement, never a crash
                out = {"err": "harness:" + type(ex).__name__, "soft_msg": str(ex)[:300], "rt": True}
        else:
            out = super().run_impl(case)
        try:
            c = ctor_observe(case)
            if c is not None:
                out["soft_ctor"] = c   # not compared with the model (which predicts the front end); judged by the oracle
        except Exception as ex:  # harness-side problem: visible, never a crash
            out["soft_ctor"] = {"err": "harness:" + type(ex).__name__, "soft_msg": str(ex)[:300]}
        return out

    def oracle(self, case, impl, prop):
        status, val = o_case12(case)
        if status == "skip":
            return None
        ty = case["ctx"][1]
        what = "expression"
        if case.get("env"):
            what = "after the constants [%s]%s: expression" % (
                "; ".join("%s %s = %s" % (it[1][-1], it[0], it[3]) for it in case["env"]),
                " (%s section of a service)" % case["svc"]["section"] if case.get("svc") else "")
        if case.get("lay"):
            lay = case["lay"]
            what = "constant statement at the %s position of %s, text ending with %s (%r): expression" % (
                lay["pos"], "the %s section of a service" % lay["svc"] if lay.get("svc") else "a message", lay["end"], lay_text(case)[-40:])
        v = judge(status, val, impl, what, case["text"])
        if v is None and impl.get("soft_ctor") is not None:
            v = judge(status, val, impl["soft_ctor"], "constructors: Constant(%s, 'X', value of" % ty[-1], case["text"])
        if v is None and status == "v" and isinstance(impl.get("soft_env"), dict):
            # the earlier constants of the returned model: each holds the value the rule gives for its own initialiser
            env = stored_env(case["env"])
            for it in case["env"]:
                got = impl["soft_env"].get(it[0])
                if got is not None and got != X.canon(env[it[0]]):
                    return "constant %s %s = %s (const) of the returned model: library value %s, mathematical value %s" % (
                        it[1][-1], it[0], it[3], X._short(got), X._short(X.canon(env[it[0]])))
        return v

    def compare(self, case, impl, model, prop):
        # The model keeps the NORMAL FORM of a string as the representative of a set element (lean/Model/Expr.lean, normSc;
        # no operator of the expression language tells spellings apart), the ASCII test of a constant does tell them apart:
        # a string that comes out of a set in another spelling than its normal form is judged by the oracle alone.
        strs = [t for t in X.walk(case["tree"]) if t[0] == "str" and t[2] is not None]
        if any(t[0] == "set" for t in X.walk(case["tree"])) and any(X.nfc(X._s(t[2])) != X._s(t[2]) for t in strs
                                                                  if not any(0xD800 <= c <= 0xDFFF for c in t[2])):
            return None
        return super().compare(case, impl, model, prop)

    def shrink(self, case):
        if case.get("lay"):
            yield {k: v for k, v in case.items() if k != "lay"}
            lay = case["lay"]
            for k, simple in (("svc", None), ("filler", "field"), ("end", "none"), ("end", "newline"), ("pos", "middle")):
                if lay.get(k) != simple:
                    yield dict(case, lay=dict(lay, **{k: simple}))
        if case.get("svc"):
            yield {k: v for k, v in case.items() if k != "svc"}
            if case["svc"]["decoy"]:
                yield dict(case, svc=dict(case["svc"], decoy=case["svc"]["decoy"][:-1]))
        for c in super().shrink(case):
            if c["ctx"][0] == "const":   # the property is about constants: the context stays
                yield c

    def features(self, case, impl):
        ty = case["ctx"][1]
        yield "type:" + ty[0] + (":" + ty[2] if len(ty) > 3 else "")
        if ty[0] in ("uint", "int"):
            yield "width:%s" % ("1-7" if ty[1] < 8 else "8-31" if ty[1] < 32 else "32-63" if ty[1] < 64 else "64+")
        yield "init:" + case["tree"][0]
        yield "outcome:" + ("accepted" if "v" in impl else str(impl.get("err")))
        if impl.get("soft_exc"):
            yield "rejected-as:" + impl["soft_exc"]
        if case.get("fam"):
            yield "family:" + case["fam"]
        if case.get("fam") == "refer":
            yield from refer_features(case)
        if case.get("lay"):
            lay = case["lay"]
            yield "placement:%s:%s" % (lay["pos"], lay.get("svc") or "message")
            yield "placement-end:%s:%s" % (lay["pos"], lay["end"])
            yield "placement-outcome:%s:%s" % ("last" if lay["pos"] == "last" else "not-last", "accepted" if "v" in impl else str(impl.get("err")))
        for t in X.walk(case["tree"]):
            if t[0] == "str" and t[2] is not None:
                yield "string:" + char_class_of(t[2]) + ("/uint8" if ty[0] == "uint" and ty[1] == 8 else "/other-type")
                yield "string-spelling:" + ("escaped" if "\\" in t[1] else "raw")
        if impl.get("soft_ctor") is not None:
            yield "route:constructors:" + ("accepted" if "v" in impl["soft_ctor"] else str(impl["soft_ctor"].get("err")))
        status, val = o_case12(case)
        if status == "v" and ty[0] in ("uint", "int") and val[0] == "r":
            n = ty[1]
            lo, hi = (0, 2 ** n - 1) if ty[0] == "uint" else (-(2 ** (n - 1)), 2 ** (n - 1) - 1)
            if val[1] in (lo, hi):
                yield "at-boundary"
        yield "style:" + case.get("style", "?")

    def nontrivial(self, case, impl):
        return True

    def signature(self, case, desc, prop):
        ty = case["ctx"][1]
        what = "wrong-value" if "mathematical value" in desc else "wrongly-rejected" if "rejected it" in desc else "wrongly-accepted" if "must be rejected" in desc else \
            "not-an-invalid-definition" if "instead of a value" in desc else "diff"
        return "%s/%s/%s" % (prop, what, ty[0])


SUITE = ConstSuite()
