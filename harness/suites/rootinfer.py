"""
Suite `rootinfer` (C15): the ROOT INFERENCE of read_files - `DSDLDefinition._infer_path_to_root_from_first_found`
(INFERENCE 1-4) and `DSDLDefinition.from_first_in` - on small directory trees in a real temporary directory.

Case:    {"dirs": [[comp, ...], ...], "files": [[comp, ...], ...],           paths below the sandbox directory `$D`
          "calls": [{"fn": "ffi", "cwd": [comp, ...], "target": str, "roots": [str, ...], "tags": [...]},
                    {"fn": "rf",  "cwd": [...], "targets": [str, ...], "roots": [str, ...], "tags": [...]}]}
         Strings are what the user types; `$D` stands for the absolute path of the sandbox (the model takes it as `/`).
Outcome: {"out": [one entry per call]}:
         ffi: {"res": "ok", "def": {name, ver, pid, file, root}, "inferred": {...}} | {"res": <error class>, "inferred": {...}}
              ("inferred" = what `_infer_path_to_root_from_first_found` returns, unresolved)
         rf:  {"res": "ok", "types": [{name, ver, pid, file, root}, ...]} | {"res": <error class>}
         error classes: pathInference | notFound | fileName | nestedRoot | valueError | indexError | foreign:<cls>

Oracle (independent of the Lean model and of the library's algorithm; plain path arithmetic on the case):
  a call is a CLEAN designation of the definition file F under the root directory R when
    - the target denotes exactly one existing file F (typed absolute, relative to the working directory, or relative to
      the parent of a listed root path), lexical and physical reading of the typed path agreeing, and
    - exactly one directory above F is designated by the root list - as a path (resolved against the working directory)
      or by its bare name - namely R (with no roots: the working directory is R's parent and the target starts with R's name);
  (O1) a clean designation that succeeds must yield exactly (R, F) and the name / version / port-ID encoded in F's path
       relative to R - hence any two successful clean designations of one file agree;
  (O2) a clean designation in one of the forms documented in the docstring of read_files (no `..` anywhere, roots given as
       bare names, working-directory-relative paths or absolute paths, in any order) must succeed.
  (Two input classes violated (O1)/(O2) until /repo 418aff7 and 866a874 - former findings F15 and F14; their docstring
  cases stay in the corpus as regression cases.  A third, rare one was repaired by 772b846: F16, see
  `welds_onto_ancestor`; its cases are in the corpus and a violation of that shape keeps a signature of its own.)
"""
from __future__ import annotations

import logging
import os
import shutil
import tempfile
import typing
from pathlib import Path

import common

BASE = ["P", "T"]
ROOT_NAMES = ["animals", "plants", "alpha", "beta", "zoo", "T"]
SUBS = ["felines", "canines", "trees", "x", "y", "animals", "alpha"]
FNAMES = ["A.1.0.dsdl", "B.1.2.dsdl", "70##.C##.1.0.dsdl", "Tabby.1.0.dsdl", "D.0.1.dsdl", "A.1.1.dsdl", "E.2.0.uavcan"]
BAD_FNAMES = ["A.1.dsdl", "x.A.1.0.dsdl", "A.1.0.0.1.dsdl", "A.one.0.dsdl"]
WORKSPACES = [BASE + ["w0"], BASE + ["w1"], BASE + ["w0", "project", "types"], BASE, BASE + ["alpha"], BASE + ["w0", "animals", "vendor"]]


# ------------------------------------------------------------------------------- pure path arithmetic (oracle + generator)


def parse(s: str) -> typing.Tuple[bool, typing.List[str]]:
    """(absolute?, components) of a typed path; `$D` is the sandbox, i.e. the root of the path space of the case."""
    if s.startswith("$D"):
        s = s[2:] or "/"
    return s.startswith("/"), [c for c in s.split("/") if c not in ("", ".")]


def lex(base: typing.List[str], parts: typing.List[str]) -> typing.List[str]:
    out = list(base)
    for c in parts:
        if c == "..":
            if out:
                out.pop()
        else:
            out.append(c)
    return out


class Tree:
    def __init__(self, case: dict):
        self.dirs = {tuple(d) for d in case["dirs"]} | {()}
        self.files = {tuple(f) for f in case["files"]}

    def exists(self, p) -> bool:
        return tuple(p) in self.dirs or tuple(p) in self.files

    def phys(self, base, parts) -> typing.Optional[typing.List[str]]:
        """Where the operating system arrives walking `parts` from the directory `base`; None = no such path."""
        cur = list(base)
        for c in parts:
            if tuple(cur) not in self.dirs:
                return None
            if c == "..":
                if cur:
                    cur.pop()
            else:
                cur.append(c)
        return cur if self.exists(cur) else None


def is_prefix(a, b) -> bool:
    return list(b[: len(a)]) == list(a)


def identity(root: typing.Sequence[str], file: typing.Sequence[str]) -> typing.Optional[dict]:
    """Name, version, port-ID as encoded in the path of `file` relative to `root` (None: not a well-formed path)."""
    rel = list(file[len(root):])
    if not rel or not root:
        return None
    stem = rel[-1].split(".")[:-1]
    if len(stem) == 4:
        pid_s, short, ma, mi = stem
    elif len(stem) == 3:
        pid_s = None
        short, ma, mi = stem
    else:
        return None
    dec = lambda x: x.isascii() and x.isdigit()  # noqa: E731
    if not dec(ma) or not dec(mi) or (pid_s is not None and not dec(pid_s)):
        return None
    comps = [root[-1]] + rel[:-1]
    if any("." in c for c in comps):
        return None
    return {"name": ".".join(comps + [short]), "ver": [int(ma), int(mi)], "pid": None if pid_s is None else int(pid_s),
            "file": "/".join(file), "root": "/".join(root)}


def designation(tree: Tree, cwd, target: str, roots: typing.List[str]):
    """(R, F, documented?) if the call designates the file F under the root R cleanly, else None."""
    t_abs, t_parts = parse(target)
    rs = [parse(r) for r in roots]
    base = [] if t_abs else list(cwd)
    cands: typing.Dict[tuple, typing.List[list]] = {}
    here = tree.phys(base, t_parts)
    here_lex = lex(base, t_parts)
    if (here is not None) != tree.exists(here_lex) or (here is not None and here != here_lex):
        return None  # the typed path means different things lexically and physically
    if here is not None:
        cands.setdefault(tuple(here), []).append(base)
    if not t_abs and t_parts:
        for r_abs, r_parts in rs:
            r_res = lex([] if r_abs else list(cwd), r_parts)
            if not r_res or r_res[-1] != t_parts[0]:
                continue  # a target given relative to the directory that holds a root starts with the root's name
            p = tree.phys(r_res[:-1], t_parts)
            p_lex = lex(r_res[:-1], t_parts)
            if p is not None and p == p_lex and tree.phys([] if r_abs else list(cwd), r_parts) is not None:
                cands.setdefault(tuple(p), []).append(r_res[:-1])
    if len(cands) != 1:
        return None
    (ft, anchors), = cands.items()
    f = list(ft)
    if ft not in tree.files:
        return None
    paths = {tuple(lex([] if a else list(cwd), p)) for a, p in rs}
    # (a root `..` has one component too but is a path, not a root namespace name: since /repo 2b41d1f INFERENCE 4 ignores it)
    bare = {p[0] for a, p in rs if not a and len(p) == 1 and p[0] != ".."}
    # a bare name designates the directory of that name ON THE TYPED PATH of the target
    by_name = {tuple(lex(a, t_parts[: i + 1])) for a in anchors for i in range(len(t_parts) - 1) if t_parts[i] in bare}
    above = [f[:k] for k in range(0, len(f))]
    if not roots:
        if t_abs or not t_parts or t_parts[0] == ".." or here is None:
            return None
        named = [list(cwd) + [t_parts[0]]]
    else:
        named = [x for x in above if tuple(x) in paths or tuple(x) in by_name]
    if len(named) != 1 or not named[0]:
        return None
    r = named[0]
    if not is_prefix(r, f) or len(r) >= len(f):
        return None
    documented = ".." not in t_parts and all(".." not in p for _, p in rs) and all(p for _, p in rs)
    return r, f, documented


# ------------------------------------------------------------------------------- generator


def rel_parts(dst, anchor) -> typing.List[str]:
    i = 0
    while i < len(dst) and i < len(anchor) and dst[i] == anchor[i]:
        i += 1
    return [".."] * (len(anchor) - i) + list(dst[i:])


def decorate(rng, tree: Tree, base, parts, level: int, lo: int = 0) -> typing.List[str]:
    """Insert `.` and `<name>/..` detours (existing directory, missing name, rarely a plain file) into a component list
    (not before position `lo`: no `..` may name the sandbox directory itself, which is `/` in the model)."""
    parts = list(parts)
    if level <= 0:
        return parts
    for _ in range(rng.randint(1, level)):
        i = rng.randint(lo, max(lo, len(parts) - 1))
        r = rng.random()
        if r < 0.35:
            parts.insert(i, ".")
        else:
            loc = lex(base, [c for c in parts[:i] if c != "."])
            kids = sorted(d[-1] for d in tree.dirs if len(d) == len(loc) + 1 and list(d[:-1]) == loc)
            fkids = sorted(f[-1] for f in tree.files if len(f) == len(loc) + 1 and list(f[:-1]) == loc)
            if kids and r < 0.8:
                name = rng.choice(kids)
            elif fkids and r < 0.85:
                name = rng.choice(fkids)
            else:
                name = "ghost"
            parts[i:i] = [name, ".."]
    return parts


def spell(rng, tree: Tree, dst, cwd, style: str, is_dir: bool) -> str:
    """One way of typing the path of `dst`."""
    if style == "abs":
        s = "$D/" + "/".join(dst)
    elif style == "absdd":
        s = "$D/" + "/".join(decorate(rng, tree, [], dst, 2, 1))
    elif style == "rel":
        s = "/".join(rel_parts(dst, cwd)) or "."
    elif style == "reldd":
        s = "/".join(decorate(rng, tree, cwd, rel_parts(dst, cwd), 2)) or "."
    elif style == "bare":
        s = dst[-1]
    else:
        raise ValueError(style)
    if is_dir and rng.random() < 0.1 and s != ".":
        s += "/"
    if rng.random() < 0.05 and "/" in s[3:]:
        k = s.index("/", 3)
        s = s[:k] + "/" + s[k:]
    if style in ("rel", "reldd") and rng.random() < 0.08 and not s.startswith(".."):
        s = "./" + s
    return s


def gen_tree(rng) -> dict:
    dirs = set()
    files = []
    roots = []
    n_ws = rng.choice([1, 1, 2])
    wss = rng.sample(WORKSPACES, n_ws)
    bad = rng.random() < 0.06
    for ws in wss:
        for name in rng.sample(ROOT_NAMES, rng.choice([1, 2, 2, 3])):
            r = ws + [name]
            if r in roots or any(is_prefix(x, r) or is_prefix(r, x) for x in roots):
                continue
            roots.append(r)
    if bad and rng.random() < 0.4:
        roots.append(wss[0] + ["bad.ns"])
    deffiles = []
    for r in roots:
        for _ in range(rng.choice([1, 1, 2, 3])):
            sub = [rng.choice(SUBS) for _ in range(rng.choice([0, 1, 1, 2]))]
            fn = rng.choice(BAD_FNAMES) if (bad and rng.random() < 0.3) else rng.choice(FNAMES)
            f = r + sub + [fn.replace("##", "%02d" % len(files))]
            if f not in files and not any(is_prefix(f, g) or is_prefix(g, f) for g in files):
                files.append(f)
                deffiles.append({"root": r, "file": f})
    extra_dirs = [wss[0] + ["empty"]] if rng.random() < 0.5 else []
    if rng.random() < 0.3:
        files.append(wss[-1] + ["notes.txt"])
    for p in files:
        for k in range(1, len(p)):
            dirs.add(tuple(p[:k]))
    for p in roots + extra_dirs + [BASE]:
        for k in range(1, len(p) + 1):
            dirs.add(tuple(p[:k]))
    names = [r[-1] for r in roots]
    rf_ok = not bad and len(set(names)) == len(names)
    return {"dirs": sorted(list(d) for d in dirs), "files": sorted(files), "roots": roots, "deffiles": deffiles, "rf_ok": rf_ok}


def gen_roots(rng, tree: Tree, t: dict, cwd, own: typing.List[typing.List[str]], tags: typing.List[str]) -> typing.List[str]:
    out = []
    for r in own:
        if rng.random() < 0.08:
            tags.append("own-root:omitted")
            continue
        style = rng.choice(["abs", "abs", "rel", "rel", "bare", "bare", "absdd", "reldd"])
        tags.append("own-root:" + style)
        out.append(spell(rng, tree, r, cwd, style, True))
    for _ in range(rng.choice([0, 0, 1, 1, 2, 3])):
        k = rng.random()
        if k < 0.45 and len(t["roots"]) > len(own):
            o = rng.choice([x for x in t["roots"] if x not in own])
            style = rng.choice(["abs", "rel", "rel", "bare", "reldd"])
            tags.append("other-root:" + style)
            out.append(spell(rng, tree, o, cwd, style, True))
        elif k < 0.65:
            tags.append("other-root:missing")
            out.append(rng.choice(["$D/P/T/none/zzz", "nope", "w9/nope", "nope/animals", "$D/P/T/w0/ghost", "w0/ghost/plants", "P/T/w0/nothing"]))
        elif k < 0.78:
            anc = own[0][: rng.randint(max(1, len(own[0]) - 2), len(own[0]) - 1)] if own else BASE
            style = rng.choice(["abs", "rel", "bare"])
            tags.append("other-root:ancestor-" + style)
            out.append(spell(rng, tree, anc, cwd, style, True))
        elif k < 0.86 and own:
            kids = sorted(d for d in tree.dirs if len(d) == len(own[0]) + 1 and list(d[:-1]) == own[0])
            if kids:
                tags.append("other-root:child")
                out.append(spell(rng, tree, list(rng.choice(kids)), cwd, rng.choice(["abs", "rel", "bare"]), True))
        elif k < 0.93:
            tags.append("other-root:dot")
            out.append(rng.choice([".", "..", "./", "../.."]) if len(cwd) > 2 else ".")
        else:
            tags.append("other-root:slash")
            out.append(rng.choice(["$D/P", "$D/P/T"]))  # `$D` itself stands for `/` in the model only
    rng.shuffle(out)
    if rng.random() < 0.08 and out:
        out.append(rng.choice(out))
    return out


def gen_cwd(rng, tree: Tree, t: dict, r, f) -> typing.List[str]:
    k = rng.random()
    if k < 0.25:
        return list(BASE)
    if k < 0.5:
        return list(r[:-1])
    if k < 0.6:
        return list(r)
    if k < 0.68:
        return list(f[:-1])
    if k < 0.76:
        return list(r[:-2]) if len(r) > 3 else ["P"]
    return list(rng.choice(sorted(tree.dirs - {()})))


def gen_target(rng, tree: Tree, cwd, r, f, tags) -> str:
    k = rng.random()
    if k < 0.25:
        tags.append("target:abs")
        return spell(rng, tree, f, cwd, "abs", False)
    if k < 0.32:
        tags.append("target:abs-dotdot")
        return spell(rng, tree, f, cwd, "absdd", False)
    if k < 0.55:
        tags.append("target:cwd-relative")
        return spell(rng, tree, f, cwd, "rel", False)
    if k < 0.65:
        tags.append("target:cwd-relative-dotdot")
        return spell(rng, tree, f, cwd, "reldd", False)
    if k < 0.9:
        tags.append("target:root-parent-relative")
        return "/".join([r[-1]] + f[len(r):])
    if k < 0.95:
        tags.append("target:root-parent-relative-dotdot")
        return "/".join(decorate(rng, tree, r[:-1], [r[-1]] + f[len(r):], 1))
    tags.append("target:odd")
    return rng.choice([".", "", "..", "$D/P", "/".join(f[len(r):]), "/".join(r[-2:] + f[len(r):]), "ghost/A.1.0.dsdl", "$D/P/T/ghost/A.1.0.dsdl"])


def gen_case(rng) -> dict:
    t = gen_tree(rng)
    while not t["deffiles"]:
        t = gen_tree(rng)
    tree = Tree(t)
    calls = []
    df = rng.choice(t["deffiles"])
    r, f = df["root"], df["file"]
    # the canonical designation first: everything absolute, the root alone
    calls.append({"fn": "ffi", "cwd": list(BASE), "target": "$D/" + "/".join(f), "roots": ["$D/" + "/".join(r)], "tags": ["canonical"]})
    for _ in range(rng.randint(3, 8)):
        if rng.random() < 0.25:
            df = rng.choice(t["deffiles"])
            r, f = df["root"], df["file"]
        tags: typing.List[str] = []
        cwd = gen_cwd(rng, tree, t, r, f)
        if rng.random() < 0.1:
            # INFERENCE 1: no roots
            tags.append("no-roots")
            if rng.random() < 0.6:
                cwd = list(r[:-1])
            calls.append({"fn": "ffi", "cwd": cwd, "target": gen_target(rng, tree, cwd, r, f, tags), "roots": [], "tags": tags})
            continue
        if t["rf_ok"] and rng.random() < 0.15:
            dfs = rng.sample(t["deffiles"], min(len(t["deffiles"]), rng.choice([1, 2, 2, 3])))
            own = []
            for d in dfs:
                if d["root"] not in own:
                    own.append(d["root"])
            targets = [gen_target(rng, tree, cwd, d["root"], d["file"], tags) for d in dfs]
            calls.append({"fn": "rf", "cwd": cwd, "targets": targets, "roots": gen_roots(rng, tree, t, cwd, own, tags), "tags": tags})
            continue
        calls.append({"fn": "ffi", "cwd": cwd, "target": gen_target(rng, tree, cwd, r, f, tags), "roots": gen_roots(rng, tree, t, cwd, [r], tags), "tags": tags})
    return {"dirs": t["dirs"], "files": t["files"], "calls": calls}


# ------------------------------------------------------------------------------- implementation side


def _canon(p: Path, sandbox: Path) -> str:
    try:
        return "/".join(p.relative_to(sandbox).parts)
    except ValueError:
        return "<outside>" + str(p)


def _cls(lib, ex: BaseException) -> str:
    from pydsdl._dsdl_definition import PathInferenceError, FileNameFormatError  # type: ignore
    from pydsdl._namespace import NestedRootNamespaceError  # type: ignore

    if isinstance(ex, PathInferenceError):
        return "pathInference"
    if isinstance(ex, FileNameFormatError):
        return "fileName"
    if isinstance(ex, NestedRootNamespaceError):
        return "nestedRoot"
    if type(ex) is lib.InvalidDefinitionError and "doesn't exist" in str(ex):
        return "notFound"
    if isinstance(ex, lib.InvalidDefinitionError):
        return "invalid:" + type(ex).__name__
    if type(ex) is ValueError:
        return "valueError"
    if type(ex) is IndexError:
        return "indexError"
    return "foreign:" + type(ex).__name__


def _real(s: str, sandbox: Path) -> str:
    return str(sandbox) + s[2:] if s.startswith("$D") else s


def run_call(lib, sandbox: Path, call: dict) -> dict:
    from pydsdl._dsdl_definition import DSDLDefinition  # type: ignore

    old = os.getcwd()
    os.chdir(sandbox.joinpath(*call["cwd"]))
    try:
        roots = [Path(_real(r, sandbox)) for r in call["roots"]]
        if call["fn"] == "ffi":
            target = Path(_real(call["target"], sandbox))
            out: dict = {}
            infer = getattr(DSDLDefinition, "_infer_path_to_root_from_first_found", None)
            if infer is not None:
                try:
                    ir = infer(target, list(roots))
                    if ir.is_absolute():
                        rel = _canon(ir, sandbox)
                        out["inferred"] = {"res": "ok", "abs": True, "parts": [c for c in rel.split("/") if c]}
                    else:
                        out["inferred"] = {"res": "ok", "abs": False, "parts": list(ir.parts)}
                except Exception as ex:  # noqa: BLE001
                    out["inferred"] = {"res": _cls(lib, ex)}
            try:
                d = DSDLDefinition.from_first_in(target, list(roots))
            except Exception as ex:  # noqa: BLE001
                out["res"] = _cls(lib, ex)
                out["soft_msg"] = str(ex)[:200]
                return out
            out["res"] = "ok"
            out["def"] = {"name": d.full_name, "ver": [d.version.major, d.version.minor], "pid": d.fixed_port_id,
                          "file": _canon(d.file_path, sandbox), "root": _canon(d.root_namespace_path, sandbox)}
            return out
        targets = [_real(s, sandbox) for s in call["targets"]]
        try:
            direct, transitive = lib.read_files(targets, [str(r) if i % 2 else r for i, r in enumerate(roots)], allow_unregulated_fixed_port_id=True)
        except Exception as ex:  # noqa: BLE001
            return {"res": _cls(lib, ex), "soft_msg": str(ex)[:200]}
        types = [{"name": x.full_name, "ver": [x.version.major, x.version.minor], "pid": x.fixed_port_id,
                  "file": _canon(x.source_file_path, sandbox), "root": _canon(x.source_file_path_to_root, sandbox)} for x in direct]
        out = {"res": "ok", "types": sorted(types, key=lambda x: x["file"])}
        if transitive:
            out["res"] = "unexpected-transitive"
        return out
    finally:
        os.chdir(old)


def build(sandbox: Path, case: dict) -> None:
    for d in case["dirs"]:
        sandbox.joinpath(*d).mkdir(parents=True, exist_ok=True)
    for f in case["files"]:
        p = sandbox.joinpath(*f)
        p.parent.mkdir(parents=True, exist_ok=True)
        p.write_text("@sealed\n")


def _dedup(types):
    out = []
    for x in types:
        if x not in out:
            out.append(x)
    return out


class RootInferSuite(common.Suite):
    name = "rootinfer"

    def generate(self, rng, n, prop, tier):
        return [gen_case(rng) for _ in range(n)]

    def corpus(self, prop):
        an = BASE + ["workspace", "project", "types", "animals"]
        pl = BASE + ["workspace", "project", "types", "plants"]
        files = [an + ["felines", "Tabby.1.0.dsdl"], an + ["canines", "Boxer.1.0.dsdl"], pl + ["trees", "DouglasFir.1.0.dsdl"]]
        dirs = sorted({tuple(f[:k]) for f in files for k in range(1, len(f))})
        dirs = [list(d) for d in dirs]
        cw = "workspace/project/types/"
        full = [cw + "animals/felines/Tabby.1.0.dsdl", cw + "animals/canines/Boxer.1.0.dsdl", cw + "plants/trees/DouglasFir.1.0.dsdl"]
        short = ["animals/felines/Tabby.1.0.dsdl", "animals/canines/Boxer.1.0.dsdl", "plants/trees/DouglasFir.1.0.dsdl"]
        absr = ["$D/P/T/" + cw + "animals", "$D/P/T/" + cw + "plants"]
        doc_calls = []
        # the examples of the docstring of read_files, end to end and target by target
        for targets, roots, cwd in [(full, ["animals", "plants"], BASE), (full, [cw + "animals", cw + "plants"], BASE),
                                    (full, ["animals", cw + "plants"], BASE),  # third docstring form (regression: 866a874)
                                    (short, [cw + "animals", cw + "plants"], BASE), (short, absr, BASE),
                                    # the root as a path AND by its bare name (regression: 418aff7)
                                    (short, [cw + "animals", "animals", cw + "plants", "plants"], BASE),
                                    (short, ["animals", "plants", cw + "animals", cw + "plants"], BASE),
                                    (full[:1], ["animals", cw + "nonexistent"], BASE), (short, absr, ["P"]),
                                    (short, absr, an), (["$D/P/T/" + x for x in full], absr, pl)]:
            doc_calls.append({"fn": "rf", "cwd": cwd, "targets": targets, "roots": roots, "tags": ["docstring"]})
            for t in targets:
                doc_calls.append({"fn": "ffi", "cwd": cwd, "target": t, "roots": roots, "tags": ["docstring"]})
        doc_calls.append({"fn": "ffi", "cwd": an[:-1], "target": short[0], "roots": [], "tags": ["docstring", "no-roots"]})
        # 2b41d1f: the root `..` is not a root namespace name (it was matched against the `..` of a detour in the target)
        for t in ("$D/P/T/workspace/../" + full[0], "$D/P/T/" + full[0], "../../animals/felines/Tabby.1.0.dsdl"):
            for fn in ("ffi", "rf"):
                doc_calls.append({"fn": fn, "cwd": pl + ["trees"], ("targets" if fn == "rf" else "target"): ([t] if fn == "rf" else t),
                                  "roots": ["..", "animals"], "tags": ["fix:2b41d1f"]})
        a0, b1 = BASE + ["w0", "alpha"], BASE + ["w1", "beta"]
        fx = [a0 + ["Z.1.0.dsdl"], b1 + ["A.1.0.dsdl"], b1 + ["x", "7000.C.1.0.dsdl"]]
        fdirs = [list(d) for d in sorted({tuple(f[:k]) for f in fx for k in range(1, len(f))})]
        fix_calls = [
            # 1e7d19c: the working directory is another root, spelled '.', listed first
            {"fn": "ffi", "cwd": a0, "target": "../../w1/beta/A.1.0.dsdl", "roots": [".", "$D/P/T/w1/beta"], "tags": ["fix:1e7d19c"]},
            {"fn": "rf", "cwd": a0, "targets": ["../../w1/beta/A.1.0.dsdl"], "roots": [".", "$D/P/T/w1/beta"], "tags": ["fix:1e7d19c"]},
            # ... and its regression: working directory inside the root, target relative to the root's parent
            {"fn": "ffi", "cwd": b1, "target": "beta/A.1.0.dsdl", "roots": ["$D/P/T/w1/beta"], "tags": ["fix:1e7d19c"]},
            {"fn": "ffi", "cwd": b1 + ["x"], "target": "beta/x/7000.C.1.0.dsdl", "roots": ["..", "$D/P/T/w0/alpha"], "tags": ["fix:1e7d19c"]},
            # 3477183: working-directory-relative target with every designation of its root
            {"fn": "ffi", "cwd": BASE, "target": "w1/beta/A.1.0.dsdl", "roots": ["w1/beta"], "tags": ["fix:3477183"]},
            {"fn": "ffi", "cwd": BASE, "target": "w1/beta/A.1.0.dsdl", "roots": ["beta"], "tags": ["fix:3477183"]},
            {"fn": "ffi", "cwd": BASE, "target": "w1/beta/A.1.0.dsdl", "roots": ["$D/P/T/w1/beta"], "tags": ["fix:3477183"]},
            {"fn": "ffi", "cwd": BASE, "target": "$D/P/T/w1/beta/A.1.0.dsdl", "roots": ["w1/beta"], "tags": ["fix:3477183"]},
            {"fn": "ffi", "cwd": BASE + ["w1"], "target": "$D/P/T/w1/beta/x/7000.C.1.0.dsdl", "roots": ["../w0/alpha", "./beta/"], "tags": ["fix:3477183"]},
            {"fn": "rf", "cwd": BASE, "targets": ["w1/beta/A.1.0.dsdl", "$D/P/T/w0/alpha/Z.1.0.dsdl"], "roots": ["w1/beta", "alpha"], "tags": ["fix:3477183"]},
            # odd targets
            {"fn": "ffi", "cwd": b1, "target": ".", "roots": [], "tags": ["odd"]},
            {"fn": "ffi", "cwd": b1, "target": ".", "roots": ["$D/P/T/w1/beta"], "tags": ["odd"]},
            {"fn": "ffi", "cwd": BASE, "target": "w1/ghost/../beta/A.1.0.dsdl", "roots": ["w1/beta"], "tags": ["odd"]},
            {"fn": "ffi", "cwd": BASE, "target": "w1/beta/../../w0/alpha/Z.1.0.dsdl", "roots": ["w1/beta"], "tags": ["odd"]},
        ]
        # 772b846 (former finding F16): the target welded onto an ANCESTOR of another listed root
        tt, ta = BASE + ["T", "animals", "D.0.1.dsdl"], BASE + ["animals", "D.0.1.dsdl"]
        f16a = {"dirs": [["P"], BASE, BASE + ["T"], BASE + ["T", "animals"], BASE + ["animals"], BASE + ["beta"]], "files": [tt, ta], "calls": [
            {"fn": fn, "cwd": BASE + ["beta"], ("targets" if fn == "rf" else "target"): (["T/animals/D.0.1.dsdl"] if fn == "rf" else "T/animals/D.0.1.dsdl"),
             "roots": roots, "tags": ["fix:772b846"]}
            for fn in ("ffi", "rf") for roots in (["$D/P/T/animals", "$D/P/T/T/"], ["$D/P/T/T", "$D/P/T/animals"], ["$D/P/T/animals/none", "$D/P/T/T"], ["$D/P/T/T"])]}
        f16b = {"dirs": [["P"], BASE, BASE + ["T"], BASE + ["w0"], BASE + ["w0", "project"], BASE + ["w0", "project", "types"],
                         BASE + ["w0", "project", "types", "T"], BASE + ["w0", "project", "types", "alpha"]],
                "files": [BASE + ["T", "B.1.2.dsdl"], BASE + ["w0", "project", "types", "T", "B.1.2.dsdl"]], "calls": [
            {"fn": "ffi", "cwd": BASE + ["T"], "target": "T/B.1.2.dsdl", "roots": ["../w0/project/types/T/../alpha", "$D/P/T/T"], "tags": ["fix:772b846"]},
            {"fn": "ffi", "cwd": BASE + ["T"], "target": "T/B.1.2.dsdl", "roots": ["$D/P/T/T", "../w0/project/types/T/../alpha"], "tags": ["fix:772b846"]}]}
        return [{"dirs": dirs, "files": files, "calls": doc_calls}, {"dirs": fdirs, "files": fx, "calls": fix_calls}, f16a, f16b]

    # ------------------------------------------------------------------ both sides
    def run_impl(self, case):
        sandbox = None
        try:
            lib = common.import_pydsdl()
            logging.getLogger("pydsdl").setLevel(logging.ERROR)  # "deprecated extension" warnings
            sandbox = Path(tempfile.mkdtemp(prefix="vri")).resolve()
            build(sandbox, case)
            return {"out": [run_call(lib, sandbox, c) for c in case["calls"]]}
        except Exception as ex:  # noqa: BLE001
            import traceback
            return {"out": None, "soft_msg": "harness-error: %s: %s" % (type(ex).__name__, traceback.format_exc()[-600:])}
        finally:
            if sandbox is not None:
                shutil.rmtree(sandbox, ignore_errors=True)

    def model_case(self, case):
        sub = lambda s: s[2:] if s.startswith("$D/") else ("/" if s == "$D" else s)  # noqa: E731
        calls = []
        for c in case["calls"]:
            m = {"fn": c["fn"], "cwd": c["cwd"], "roots": [sub(r) for r in c["roots"]]}
            if c["fn"] == "ffi":
                m["target"] = sub(c["target"])
            else:
                m["targets"] = [sub(t) for t in c["targets"]]
            calls.append(m)
        return {"id": case["id"], "dirs": [[]] + [list(d) for d in case["dirs"]], "files": case["files"], "calls": calls}

    def compare(self, case, impl, model, prop):
        if "err" in model:
            return "model driver error: %s" % model["err"]
        if impl.get("out") is None:
            return "harness: %s" % impl.get("soft_msg")
        for i, (c, a, b) in enumerate(zip(case["calls"], impl["out"], model["out"])):
            a = {k: v for k, v in a.items() if not k.startswith("soft")}
            b = dict(b)
            if "inferred" not in a:
                b.pop("inferred", None)
            if "types" in a:
                a["types"] = _dedup(a["types"])
            if "types" in b:
                b["types"] = _dedup(b["types"])
                if len({(x["name"], tuple(x["ver"])) for x in b["types"]}) != len(b["types"]):
                    continue  # two targets with one (name, version): the library merges them (finding F9), not mirrored
            if a != b:
                return "call %d (%s cwd=%s target=%s roots=%s): impl=%s model=%s" % (
                    i, c["fn"], "/".join(c["cwd"]), c.get("target", c.get("targets")), c["roots"], a, b)
        return None

    # ------------------------------------------------------------------ oracle
    def oracle(self, case, impl, prop):
        if impl.get("out") is None:
            return None
        tree = Tree(case)
        for i, (c, o) in enumerate(zip(case["calls"], impl["out"])):
            where = "call %d %s cwd=%s target=%s roots=%s" % (i, c["fn"], "/".join(c["cwd"]), c.get("target", c.get("targets")), c["roots"])
            targets = [c["target"]] if c["fn"] == "ffi" else c["targets"]
            des = [designation(tree, c["cwd"], t, c["roots"]) for t in targets]
            if any(d is None for d in des):
                continue
            expected = [identity(r, f) for r, f, _ in des]
            if any(e is None for e in expected):
                continue
            documented = all(d[2] for d in des)
            if len({(e["name"], tuple(e["ver"])) for e in _dedup(expected)}) != len(_dedup(expected)):
                continue  # two files with one (name, version): finding F9 (C10), not a matter of this property
            if c["fn"] == "rf":
                # the roots that exist become lookup directories: nesting among them and the designated roots is an error of its own
                dirs = {tuple(d[0]) for d in des}
                for ra, rp in (parse(x) for x in c["roots"]):
                    p = tree.phys([] if ra else c["cwd"], rp)
                    if p is not None:
                        dirs.add(tuple(p))
                if any(a != b and is_prefix(a, b) for a in dirs for b in dirs):
                    continue
            if o["res"] == "ok":
                got = [o["def"]] if c["fn"] == "ffi" else o["types"]
                exp = sorted(_dedup(expected), key=lambda x: x["file"])
                if sorted(_dedup(got), key=lambda x: x["file"]) != exp:
                    if any(welds_onto_ancestor(tree, c["cwd"], t, c["roots"], d[0]) for t, d in zip(targets, des)):
                        return "F16 welded onto an ancestor of another root: %s: the designated file is %s under the root %s, the library says %s" % (
                            where, [e["file"] for e in exp], [e["root"] for e in exp], got)
                    return "identity differs from the canonical designation: %s: the designated file is %s under the root %s, the library says %s" % (
                        where, [e["file"] for e in exp], [e["root"] for e in exp], got)
            elif documented:
                if any(welds_onto_ancestor(tree, c["cwd"], t, c["roots"], d[0]) for t, d in zip(targets, des)):
                    return "F16 welded onto an ancestor of another root: %s: fails with %s" % (where, o["res"])
                return "documented designation fails: %s: fails with %s" % (where, o["res"])
        return None

    def signature(self, case, desc, prop):
        head = desc.split(":")[0]
        if head.startswith("F16"):
            return "rootinfer/F16/weld-onto-ancestor-of-another-root"
        if head.startswith("documented designation fails"):
            return "rootinfer/documented-designation-fails/" + desc.rsplit(" ", 1)[-1]
        if head.startswith("identity differs"):
            return "rootinfer/identity-differs"
        if head.startswith("call "):
            return "rootinfer/model-differs"
        return "rootinfer/" + head[:40]

    def shrink(self, case):
        calls = case["calls"]
        for i in range(len(calls)):
            if len(calls) > 1:
                c = dict(case)
                c["calls"] = calls[:i] + calls[i + 1:]
                yield c
        for i, call in enumerate(calls):
            for j in range(len(call["roots"])):
                c = dict(case)
                c["calls"] = [dict(x) for x in calls]
                c["calls"][i]["roots"] = call["roots"][:j] + call["roots"][j + 1:]
                yield c
            if call["fn"] == "rf" and len(call["targets"]) > 1:
                for j in range(len(call["targets"])):
                    c = dict(case)
                    c["calls"] = [dict(x) for x in calls]
                    c["calls"][i]["targets"] = call["targets"][:j] + call["targets"][j + 1:]
                    yield c
        for j in range(len(case["files"])):
            c = dict(case)
            c["files"] = case["files"][:j] + case["files"][j + 1:]
            yield c

    def features(self, case, impl):
        outs = impl.get("out") or []
        tree = Tree(case)
        for c, o in zip(case["calls"], outs):
            yield "fn:" + c["fn"]
            for t in c.get("tags", []):
                yield t
            yield "outcome:" + str(o.get("res"))
            yield "roots:%d" % min(len(c["roots"]), 4)
            targets = [c["target"]] if c["fn"] == "ffi" else c["targets"]
            des = [designation(tree, c["cwd"], t, c["roots"]) for t in targets]
            if all(d is not None for d in des):
                yield "oracle:clean-designation" + ("-documented" if all(d[2] for d in des) else "")
            if c["fn"] == "ffi" and o.get("inferred", {}).get("res") == "ok":
                yield "inferred-root:" + ("absolute" if o["inferred"]["abs"] else "relative-as-given")

    def nontrivial(self, case, impl):
        return len(case["calls"]) >= 2


def welds_onto_ancestor(tree: Tree, cwd, target: str, roots: typing.List[str], r: typing.List[str]) -> bool:
    """Former finding F16 (until /repo 772b846): a relative target that does not exist as given is welded by INFERENCE 3 onto a
    proper ANCESTOR of some listed root path (not the designated root) whose name equals the target's first component and
    under whose parent the relative target happens to exist too."""
    t_abs, t_parts = parse(target)
    if t_abs or not t_parts or tree.phys(cwd, t_parts) is not None:
        return False
    for r_abs, r_parts in (parse(x) for x in roots):
        base = [] if r_abs else list(cwd)
        for k in range(1, len(r_parts)):
            if r_parts[k - 1] == t_parts[0] and lex(base, r_parts[:k]) != list(r) and tree.phys(base, r_parts[: k - 1] + t_parts) is not None:
                return True
    return False


SUITE = RootInferSuite()
