"""
Suite `wire` (C06, C07, wire half of C14): the real `pydsdl.serialize` / `pydsdl.deserialize` on types built through the
public constructors, against the Lean model `Model/Wire.lean`, judged by oracles that use neither.

Type description (JSON)   ["bool"] ["uint",n,c] ["sint",n,c] ["float",n,c] ["byte"] ["utf8"] ["void",n]
                          ["farr",T,cap] ["varr",T,cap] ["struct",[T..],null|extent] ["union",[T..],null|extent]
                          field i of a composite is named "f<i>" (padding fields are unnamed)
Input value (JSON)        true/false | int | {"bits":b,"src":["f",bits64]|["i",int]} (float leaf; `bits` = the pattern the
                          Specification demands, computed here by exact rational arithmetic) | {"x":hex,"str":bool}
                          | [..] | {"d":[[fieldIndex,value],..]} | null
Canonical value (JSON)    bool | int | {"f":bits} | "nan" | {"x":hex} | [..] | {"s":[..]} | {"u":[tag,value]}

Cases
  {"op":"enc","ty":T,"val":I,"explicit":I,"relaxed":b,"hdr":b,"valid":b}
  {"op":"dec","ty":T,"hex":h,"hdr":b,"ext":[hex..],"extkind":["zeros"|"junk"..],"complete":b,"expect":null|"rejected","how":..}
  {"op":"xrev","tyW":T,"tyR":T',"val":I,"hdr":b}
  {"op":"seq","hdr":false,"prebuild":b,"steps":[enc / dec case + {"slot":k,"nm":N}..],"muts":[..]}
        a HISTORY within one process over several DIFFERENT types that share one full name and version and whose bit
        length sets the library's approximate `==` cannot tell apart (fields / variants permuted, same-width leaves of
        another kind, renamed fields, other bodies of a delimited type): slot k is one pydsdl object, used by every
        step naming it; N = null | {"p":prefix,"perm":[..]} names field i  prefix + str(perm[i])  (one injective map
        for the whole type tree, so that equality of names is equality of indices).  Every step is judged exactly as
        if it stood alone, and must give what a freshly built, uniquely named structural twin gives.
  a "dec" case may carry "alts":[hex..],"altkind":["zerofill"..]: complete byte strings that must decode like "hex"
        ("zerofill": a delimiter header announces a payload that ends early, followed by foreign non-zero data, vs the
        same payload explicitly filled up with zeros), and "want": the canonical value a reference encoding denotes.

Oracles (independent of the model and of the library's algorithm)
  C06  expected canonical value by plain integer / rational arithmetic (cast modes, defaults); expected bytes by a
       reference encoder working on one big Python integer; round trip; relaxed == explicit; bit length in the real
       type's bit_length_set (min/max, residues, expansion when small).
  C07  only SerDesError/ValueError; decoded value is a fixed point of serialize/deserialize; representation + junk and
       b + zero bytes decode like b (the latter unless a DelimiterHeaderError is involved); sabotaged length prefixes /
       tags / headers are rejected; a delimited object (nested at any depth, or the top-level one) whose header ends its
       payload early decodes - whatever foreign data follows - like the same object with the missing part written out
       as zeros, and bytes behind such a representation are ignored.
  C14  deserialize(C[D'], serialize(C[D], v)) == adapt(v) computed structurally.
  seq  (all three) every step as above, independent of the history; plus: same outcome as on a fresh structural twin.
"""
from __future__ import annotations

import json
import math
import random
import struct
import typing
from fractions import Fraction
from pathlib import Path

import common

# ------------------------------------------------------------------------------------------- type analysis (own)

PRIMS = ("bool", "uint", "sint", "float", "byte", "utf8", "void")


def t_align(ty) -> int:
    k = ty[0]
    if k in ("farr", "varr"):
        return t_align(ty[1])
    if k in ("struct", "union"):
        return 8
    return 1


def len_bits(cap: int) -> int:
    for w in (8, 16, 32):
        if cap < (1 << w):
            return w
    return 64


def tag_bits(n: int) -> int:
    for w in (8, 16, 32):
        if n <= (1 << w):
            return w
    return 64


def prim_bits(ty) -> int:
    k = ty[0]
    if k == "bool":
        return 1
    if k in ("byte", "utf8"):
        return 8
    return ty[1]


def pad(off: int, a: int) -> int:
    return (-off) % a


def inner_max(ty) -> int:
    """max bit length of the sealed layout of a composite"""
    k = ty[0]
    if k == "struct":
        acc = 0
        for f in ty[1]:
            acc += pad(acc, t_align(f)) + t_max(f)
        return acc + pad(acc, 8)
    if k == "union":
        acc = tag_bits(len(ty[1])) + max(t_max(f) for f in ty[1])
        return acc + pad(acc, 8)
    raise ValueError(k)


def t_max(ty) -> int:
    k = ty[0]
    if k in PRIMS:
        return prim_bits(ty)
    if k == "farr":
        return ty[2] * t_max(ty[1])
    if k == "varr":
        return len_bits(ty[2]) + ty[2] * t_max(ty[1])
    if ty[2] is not None:
        return 32 + ty[2]
    return inner_max(ty)


def t_depth(ty) -> int:
    k = ty[0]
    if k in PRIMS:
        return 0
    if k in ("farr", "varr"):
        return 1 + t_depth(ty[1])
    return 1 + max([0] + [t_depth(f) for f in ty[1]])


def t_cost(ty) -> int:
    """Upper estimate of the number of codec steps one value of the type can take (guards the generator: the bit size
    says nothing about arrays of empty composites)."""
    k = ty[0]
    if k in PRIMS:
        return 1
    if k in ("farr", "varr"):
        return 1 + ty[2] * t_cost(ty[1])
    if k == "struct":
        return 1 + sum(t_cost(f) for f in ty[1])
    return 1 + max(t_cost(f) for f in ty[1])


def t_walk(ty):
    yield ty
    k = ty[0]
    if k in ("farr", "varr"):
        yield from t_walk(ty[1])
    elif k in ("struct", "union"):
        for f in ty[1]:
            yield from t_walk(f)


# ------------------------------------------------------------------------------------------- real types

_types: typing.Dict[str, typing.Any] = {}
_counter = [0]


def n_comps(ty) -> int:
    """Number of composites in a description (= length of the attribute plan of the type, see `attr_list`)."""
    return sum(1 for t in t_walk(ty) if t[0] in ("struct", "union"))


def plan_norm(plan):
    return plan if plan and any(plan) else None


def plan_slices(ty, plan):
    """Attribute plan of a composite split into (own entry, [plan of field 0, plan of field 1, ..]); the plan lists the
    composites of the tree in the order of t_walk (parent first, then its members in declaration order)."""
    if not plan:
        return None, [None] * len(ty[1])
    idx = 1
    subs = []
    for f in ty[1]:
        c = n_comps(f)
        subs.append(plan_norm(plan[idx:idx + c]))
        idx += c
    return plan[0], subs


def attr_list(P, fields: list, own, cprefix: str = "C"):
    """The attribute list handed to the constructor: the fields / padding fields in declaration order with CONSTANTS
    put in front of the positions listed in `own` (position len(fields) = behind the last field).  Constants belong to
    the definition but take no part in the serialized representation, wherever they stand in the list."""
    if not own:
        return list(fields)
    cm = P.PrimitiveType.CastMode
    out = []
    j = 0
    n = len(fields)

    def const(j):
        name = "%s%d" % (cprefix, j)
        w = j % 4
        if w == 0:
            return P.Constant(P.UnsignedIntegerType(8, cm.SATURATED), name, P.Rational(j % 256))
        if w == 1:
            return P.Constant(P.SignedIntegerType(16, cm.SATURATED), name, P.Rational(-j))
        if w == 2:
            return P.Constant(P.BooleanType(), name, P.Boolean(True))
        return P.Constant(P.FloatType(32, cm.SATURATED), name, P.Rational(Fraction(j, 2)))

    own = sorted(min(max(0, int(p)), n) for p in own)
    for i in range(n + 1):
        while j < len(own) and own[j] == i:
            out.append(const(j))
            j += 1
        if i < n:
            out.append(fields[i])
    return out


def build(ty, plan=None):
    """The pydsdl type of a description, through the public constructors only (cached per process).  `plan`: where
    constants stand in the attribute lists (None = no constants; one entry per composite, see plan_slices)."""
    P = common.import_pydsdl()
    plan = plan_norm(plan)
    key = json.dumps(ty) if plan is None else json.dumps([ty, plan])
    if key in _types:
        return _types[key]
    k = ty[0]
    cm = P.PrimitiveType.CastMode
    if k == "bool":
        r = P.BooleanType()
    elif k == "uint":
        r = P.UnsignedIntegerType(ty[1], cm.SATURATED if ty[2] == "sat" else cm.TRUNCATED)
    elif k == "sint":
        r = P.SignedIntegerType(ty[1], cm.SATURATED if ty[2] == "sat" else cm.TRUNCATED)
    elif k == "float":
        r = P.FloatType(ty[1], cm.SATURATED if ty[2] == "sat" else cm.TRUNCATED)
    elif k == "byte":
        r = P.ByteType()
    elif k == "utf8":
        r = P.UTF8Type()
    elif k == "void":
        r = P.VoidType(ty[1])
    elif k == "farr":
        r = P.FixedLengthArrayType(build(ty[1], plan), ty[2])
    elif k == "varr":
        r = P.VariableLengthArrayType(build(ty[1], plan), ty[2])
    elif k in ("struct", "union"):
        _counter[0] += 1
        name = "T%d" % _counter[0]
        own, subs = plan_slices(ty, plan)
        attrs = []
        for i, f in enumerate(ty[1]):
            if f[0] == "void":
                attrs.append(P.PaddingField(build(f)))
            else:
                attrs.append(P.Field(build(f, subs[i]), "f%d" % i))
        cls = P.StructureType if k == "struct" else P.UnionType
        r = cls(name="ns." + name, version=P.Version(1, 0), attributes=attr_list(P, attrs, own), deprecated=False, fixed_port_id=None,
                source_file_path=Path("ns") / (name + ".1.0.dsdl"), has_parent_service=False)
        if ty[2] is not None:
            r = P.DelimitedType(r, ty[2])
    else:
        raise ValueError(k)
    if len(_types) > 4000:
        _types.clear()
    _types[key] = r
    return r


def build_named(ty, gname: str, nm=None, path: str = "", plan=None):
    """A FRESH pydsdl object for the description (never cached): the composite at position `path` of the tree is called
    ns.<gname><path>, its fields are named by nm.  Two descriptions built with one gname therefore share full name and
    version at every position - look-alikes whenever the library's approximate bit length set equality agrees."""
    P = common.import_pydsdl()
    k = ty[0]
    plan = plan_norm(plan)
    if k in PRIMS:
        return build(ty)
    if k == "farr":
        return P.FixedLengthArrayType(build_named(ty[1], gname, nm, path + "e", plan), ty[2])
    if k == "varr":
        return P.VariableLengthArrayType(build_named(ty[1], gname, nm, path + "e", plan), ty[2])
    own, subs = plan_slices(ty, plan)
    attrs = []
    for i, f in enumerate(ty[1]):
        if f[0] == "void":
            attrs.append(P.PaddingField(build(f)))
        else:
            attrs.append(P.Field(build_named(f, gname, nm, "%s_%d" % (path, i), subs[i]), fname(i, nm)))
    name = gname + path
    cls = P.StructureType if k == "struct" else P.UnionType
    r = cls(name="ns." + name, version=P.Version(1, 0), attributes=attr_list(P, attrs, own, "K"), deprecated=False, fixed_port_id=None,
            source_file_path=Path("ns") / (name + ".1.0.dsdl"), has_parent_service=False)
    if ty[2] is not None:
        r = P.DelimitedType(r, ty[2])
    return r


# ------------------------------------------------------------------------------------------- types from DSDL text / under version numbers
#
# A case may say where its types come from ("src"; without it: the constructors, everything under version 1.0):
#   {"mode": "dsdl" | "ctor", "rev": [major, minor, minor'], "vers": [[major, minor], ..], "layout": "side" | "checkouts",
#    "reader": "namespace" | "files", "svc": null | "request" | "response"}
# dsdl: every composite of the tree is a definition file of its own, read by the front end; the two revisions of the
# delimited type of an xrev case are two minor versions of ONE definition ns.Rev side by side in one namespace, or one
# definition in two checkouts of the namespace that differ in that file only; any major version, 0 included; the top
# level type may be the request / response section of a service.  The wire format knows nothing of all that.


def nested_arrays(ty) -> bool:
    """Arrays of arrays cannot be spelled in DSDL text."""
    return any(t[0] in ("farr", "varr") and t[1][0] in ("farr", "varr") for t in t_walk(ty))


def rev_path(a, b, path=()):
    """Position of the revised definition: where two descriptions have member lists of different lengths."""
    if a == b:
        return None
    k = a[0]
    if k != b[0] or k in PRIMS:
        return path
    if k in ("farr", "varr"):
        return rev_path(a[1], b[1], path + (1,))
    if len(a[1]) != len(b[1]):
        return path
    for i, (x, y) in enumerate(zip(a[1], b[1])):
        if x != y:
            return rev_path(x, y, path + (1, i))
    return path


def gen_version(rng: random.Random, major=None):
    major = rng.choice([0, 0, 0, 1, 1, 2, 3, 100, 255]) if major is None else major
    minor = rng.choice([0, 1, 1, 2, 3, 9, 200, 255])
    if major == 0 and minor == 0:
        minor = 1  # 0.0 is not a version
    return [major, minor]


def gen_src(rng: random.Random, tys: list):
    mode = "dsdl" if rng.random() < 0.65 and not any(nested_arrays(t) for t in tys) else "ctor"
    major, m1 = gen_version(rng)
    m2 = rng.choice([m for m in (m1 + 1, m1 - 1, m1 + 7, 255, 1, rng.randint(0, 255)) if 0 <= m <= 255 and m != m1 and (major, m) != (0, 0)])
    vers = [gen_version(rng, major if rng.random() < 0.3 else None) for _ in range(rng.randint(1, 3))]
    return {"mode": mode, "rev": [major, m1, m2], "vers": vers, "layout": rng.choice(["side", "side", "checkouts"]),
            "reader": rng.choice(["namespace", "files"]), "svc": rng.choice([None, None, "request", "response"])}


def prim_text(ty) -> str:
    k = ty[0]
    if k in ("bool", "byte", "utf8"):
        return k
    if k == "void":
        return "void%d" % ty[1]
    return "%s %s%d" % ("saturated" if ty[2] == "sat" else "truncated", {"uint": "uint", "sint": "int", "float": "float"}[k], ty[1])


class Emit:
    """One type tree as DSDL text (file name -> text)."""

    def __init__(self, src, side: int, rpath, prefix: str):
        self.src, self.side, self.rpath, self.prefix = src, side, rpath, prefix
        self.files: typing.Dict[str, str] = {}
        self.n = 0

    def type_text(self, ty, path, plan) -> str:
        k = ty[0]
        if k in PRIMS:
            return prim_text(ty)
        if k == "farr":
            return "%s[%d]" % (self.type_text(ty[1], path + (1,), plan), ty[2])
        if k == "varr":
            return "%s[<=%d]" % (self.type_text(ty[1], path + (1,), plan), ty[2])
        if path == self.rpath:
            r = self.src["rev"]
            name, ver = "Rev", [r[0], r[1] if (self.side == 0 or self.src["layout"] == "checkouts") else r[2]]
        else:
            self.n += 1
            name, ver = "%s%d" % (self.prefix, self.n), self.src["vers"][self.n % len(self.src["vers"])]
        self.files["%s.%d.%d.dsdl" % (name, ver[0], ver[1])] = self.def_text(ty, path, plan)
        return "ns.%s.%d.%d" % (name, ver[0], ver[1])

    def def_text(self, ty, path, plan) -> str:
        own, subs = plan_slices(ty, plan_norm(plan))
        n = len(ty[1])
        own = sorted(min(max(0, int(p)), n) for p in (own or []))
        lines = ["@union"] if ty[0] == "union" else []
        for i in range(n + 1):
            lines += ["uint8 C%d = %d" % (j, j % 256) for j, p in enumerate(own) if p == i]
            if i < n:
                f = ty[1][i]
                ft = self.type_text(f, path + (1, i), subs[i])
                lines.append(ft if f[0] == "void" else "%s f%d" % (ft, i))
        lines.append("@sealed" if ty[2] is None else "@extent %d" % ty[2])
        return "\n".join(lines) + "\n"


def build_dsdl(tys: list, plans: list, src) -> list:
    """The pydsdl objects of one or two (writer, reader) descriptions, read from generated DSDL text."""
    import shutil
    import tempfile
    P = common.import_pydsdl()
    rpath = rev_path(tys[0], tys[1]) if len(tys) == 2 else None
    checkouts = src["layout"] == "checkouts" and len(tys) == 2
    tv = src["vers"][0]
    d = Path(tempfile.mkdtemp(prefix="verif_wire_"))
    try:
        dirs = [d / "a" / "ns", d / "b" / "ns"] if checkouts else [d / "ns", d / "ns"]
        names = []
        for side, ty in enumerate(tys):
            dirs[side].mkdir(parents=True, exist_ok=True)
            suffix = "" if checkouts else "AB"[side]
            em = Emit(src, side, rpath, "T" if checkouts else "AB"[side])
            text = em.def_text(ty, (), plans[side])
            filler = "uint8 x\n@sealed\n"
            if src["svc"] == "request":
                text = text + "---\n" + filler
            elif src["svc"] == "response":
                text = filler + "---\n" + text
            name = ("Svc" if src["svc"] else "Top") + suffix
            em.files["%s.%d.%d.dsdl" % (name, tv[0], tv[1])] = text
            for fn, tx in em.files.items():
                (dirs[side] / fn).write_text(tx)
            names.append(name)
        out = []
        read: dict = {}
        for side in range(len(tys)):
            key = str(dirs[side])
            if key not in read:
                if src["reader"] == "namespace":
                    read[key] = P.read_namespace(dirs[side], [])
                else:
                    read[key] = P.read_files(sorted(p for p in dirs[side].iterdir() if p.name.startswith(("Top", "Svc"))), [dirs[side]], [])[0]
            found = [t for t in read[key] if t.short_name == names[side] and [t.version.major, t.version.minor] == list(tv)]
            if len(found) != 1:
                raise RuntimeError("definition %s not among the types read" % names[side])
            obj = found[0]
            if src["svc"]:
                obj = obj.request_type if src["svc"] == "request" else obj.response_type
            out.append(obj)
        return out
    finally:
        shutil.rmtree(d, ignore_errors=True)


def build_versioned(tys: list, plans: list, src) -> list:
    """The same through the constructors (fresh objects, never cached), under the version numbers of the case."""
    P = common.import_pydsdl()
    rpath = rev_path(tys[0], tys[1]) if len(tys) == 2 else None
    out = []
    for side, top in enumerate(tys):
        counter = [0]
        _counter[0] += 1
        g = "V%d" % _counter[0]

        def mk(ty, path, plan, is_top=False):
            k = ty[0]
            if k in PRIMS:
                return build(ty)
            if k == "farr":
                return P.FixedLengthArrayType(mk(ty[1], path + (1,), plan), ty[2])
            if k == "varr":
                return P.VariableLengthArrayType(mk(ty[1], path + (1,), plan), ty[2])
            own, subs = plan_slices(ty, plan_norm(plan))
            attrs = []
            for i, f in enumerate(ty[1]):
                attrs.append(P.PaddingField(build(f)) if f[0] == "void" else P.Field(mk(f, path + (1, i), subs[i]), "f%d" % i))
            counter[0] += 1
            if path == rpath:
                name, ver = g + "Rev", [src["rev"][0], src["rev"][1 + side]]
            else:
                name, ver = "%sT%d" % (g, counter[0]), src["vers"][counter[0] % len(src["vers"])]
            svc = is_top and src["svc"] is not None
            if svc:
                name, ver = g + "Svc." + src["svc"].capitalize(), src["vers"][0]
            fp = Path("ns") / ("%s.%d.%d.dsdl" % (name.split(".")[0], ver[0], ver[1]))
            cls = P.StructureType if k == "struct" else P.UnionType
            r = cls(name="ns." + name, version=P.Version(ver[0], ver[1]), attributes=attr_list(P, attrs, own), deprecated=False,
                    fixed_port_id=None, source_file_path=fp, has_parent_service=svc)
            if ty[2] is not None:
                r = P.DelimitedType(r, ty[2])
            if svc:
                other = P.StructureType(name="ns.%sSvc.%s" % (g, "Response" if src["svc"] == "request" else "Request"),
                                        version=P.Version(ver[0], ver[1]), attributes=[], deprecated=False, fixed_port_id=None,
                                        source_file_path=fp, has_parent_service=True)
                s = P.ServiceType(r, other, None) if src["svc"] == "request" else P.ServiceType(other, r, None)
                r = s.request_type if src["svc"] == "request" else s.response_type
            return r

        out.append(mk(top, (), plans[side], True))
    return out


def case_types(case, keys) -> list:
    """The pydsdl objects of the types of a case: keys = [(type key, plan key), ..]."""
    tys = [case[k] for k, _ in keys]
    plans = [case.get(a) for _, a in keys]
    src = case.get("src")
    if src is None:
        return [build(t, p) for t, p in zip(tys, plans)]
    return (build_dsdl if src["mode"] == "dsdl" else build_versioned)(tys, plans, src)


# ------------------------------------------------------------------------------------------- own bit length sets (small types)

class TooBig(Exception):
    pass


def own_bls(ty, limit: int = 3000) -> typing.Set[int]:
    """The bit length set of a small type by plain set arithmetic (used by the generator only, to pick types that the
    library's approximate equality - same min, max and residues modulo 32 - cannot tell apart)."""
    k = ty[0]

    def chk(x):
        if len(x) > limit:
            raise TooBig()
        return x

    if k in PRIMS:
        return {prim_bits(ty)}
    if k in ("farr", "varr"):
        e = own_bls(ty[1], limit)
        if ty[2] > 300:
            raise TooBig()
        acc = {0}
        out = set()
        for i in range(ty[2] + 1):
            if k == "varr":
                out |= {len_bits(ty[2]) + x for x in acc}
                chk(out)
            if i < ty[2]:
                acc = chk({x + y for x in acc for y in e})
        return out if k == "varr" else acc
    if ty[2] is not None:
        if ty[2] // 8 > limit:
            raise TooBig()
        return {32 + 8 * i for i in range(ty[2] // 8 + 1)}
    if k == "struct":
        acc = {0}
        for f in ty[1]:
            a = t_align(f)
            fb = own_bls(f, limit)
            acc = chk({x + pad(x, a) + y for x in acc for y in fb})
        return {x + pad(x, 8) for x in acc}
    tb = tag_bits(len(ty[1]))
    out = set()
    for f in ty[1]:
        out |= {tb + y + pad(tb + y, 8) for y in own_bls(f, limit)}
        chk(out)
    return out


def eq_key(ty):
    """What pydsdl's SerializableType.__eq__ looks at besides class and name (None = too big to tell here)."""
    try:
        b = own_bls(ty)
    except TooBig:
        return None
    cls = "delimited" if ty[0] in ("struct", "union") and ty[2] is not None else ty[0]
    return [cls, min(b), max(b), sorted({x % 32 for x in b})]


# ------------------------------------------------------------------------------------------- floats, exact

FMT = {16: (5, 10, "<e", "<H"), 32: (8, 23, "<f", "<I"), 64: (11, 52, "<d", "<Q")}


def f64_of_bits(b: int) -> float:
    return struct.unpack("<d", struct.pack("<Q", b))[0]


def round_ieee(q: Fraction, neg: bool, w: int) -> typing.Optional[int]:
    """Round the rational magnitude |q| to binary<w> (nearest, ties to even); None = overflow."""
    eb, mb = FMT[w][0], FMT[w][1]
    bias = (1 << (eb - 1)) - 1
    sign = (1 << (w - 1)) if neg else 0
    q = abs(q)
    if q == 0:
        return sign
    e = q.numerator.bit_length() - q.denominator.bit_length()  # 2**e <= q < 2**(e+2) roughly
    while Fraction(2) ** e > q:
        e -= 1
    while Fraction(2) ** (e + 1) <= q:
        e += 1
    e = max(e, 1 - bias)  # subnormals share the smallest exponent
    scaled = q / Fraction(2) ** (e - mb)  # value in units of the last place
    n = scaled.numerator // scaled.denominator
    rem = scaled - n
    if rem > Fraction(1, 2) or (rem == Fraction(1, 2) and n % 2 == 1):
        n += 1
    if n >= (1 << (mb + 1)):  # carried into the next binade
        n >>= 1
        e += 1
    if e > bias:
        return None
    if n < (1 << mb):  # subnormal (e == 1 - bias)
        return sign | n
    return sign | ((e + bias) << mb) | (n - (1 << mb))


def max_finite(w: int) -> Fraction:
    eb, mb = FMT[w][0], FMT[w][1]
    bias = (1 << (eb - 1)) - 1
    return Fraction(2) ** bias * (2 - Fraction(1, 1 << mb))


def float_bits(src, w: int, mode: str) -> int:
    """The bit pattern a float field of width w must carry for the source number (["f",bits64] or ["i",int])."""
    inf = ((1 << FMT[w][0]) - 1) << FMT[w][1]
    signbit = 1 << (w - 1)
    if src[0] == "i":
        i = src[1]
        neg = i < 0
        b64 = round_ieee(Fraction(i), neg, 64)
        if b64 is None:  # float(int) overflows
            if mode == "sat":
                return (signbit if neg else 0) | (inf - 1)
            return (signbit if neg else 0) | inf
        x = f64_of_bits(b64)
    else:
        x = f64_of_bits(src[1])
    if math.isnan(x):
        return struct.unpack(FMT[w][3], struct.pack(FMT[w][2], x))[0]  # payload handling is the runtime's business
    neg = math.copysign(1.0, x) < 0
    if math.isinf(x):
        return (signbit if neg else 0) | inf
    q = Fraction(x)
    if mode == "sat":
        m = max_finite(w)
        q = max(-m, min(m, q))
    r = round_ieee(q, neg, w)
    if r is None:
        return (signbit if neg else 0) | inf
    return r


def is_nan_bits(w: int, b: int) -> bool:
    eb, mb = FMT[w][0], FMT[w][1]
    return (b >> mb) & ((1 << eb) - 1) == (1 << eb) - 1 and (b & ((1 << mb) - 1)) != 0


# ------------------------------------------------------------------------------------------- values

class Reject(Exception):
    pass


def default(ty):
    k = ty[0]
    if k == "bool":
        return False
    if k in ("uint", "sint", "byte", "utf8"):
        return 0
    if k == "float":
        return {"f": 0}
    if k == "void":
        return None
    if k == "farr":
        if ty[1][0] in ("byte", "utf8"):
            return {"x": "00" * ty[2]}
        return [default(ty[1]) for _ in range(ty[2])]
    if k == "varr":
        return {"x": ""} if ty[1][0] in ("byte", "utf8") else []
    if k == "struct":
        return {"s": [default(f) for f in ty[1] if f[0] != "void"]}
    if k == "union":
        return {"u": [0, default(ty[1][0])]}
    raise ValueError(k)


def float_of(v) -> float:
    return float.fromhex(v["fl"])


def round_half_even(x: float) -> int:
    """Nearest integer to the exact value of a finite double, ties to even (what the cast of a float input to an
    integer field has to produce); exact rational arithmetic, independent of Python's round()."""
    q = Fraction(x)
    fl = q.numerator // q.denominator
    rem = q - fl
    if rem > Fraction(1, 2) or (rem == Fraction(1, 2) and fl % 2 == 1):
        return fl + 1
    return fl


def as_int(v):
    if isinstance(v, bool):
        return int(v)
    if isinstance(v, int):
        return v
    if isinstance(v, dict) and "fl" in v:
        x = float_of(v)
        if x != x or x in (float("inf"), float("-inf")):
            raise Reject("non-finite float for an integer field")
        return round_half_even(x)
    raise Reject("not a number")


def valid_utf8(bs: bytes) -> bool:
    try:
        bs.decode("utf-8")
        return True
    except UnicodeDecodeError:
        return False


def expect(ty, v):
    """Canonical value (raw float bits) that an explicit-form input denotes; plain arithmetic only."""
    k = ty[0]
    if k == "bool":
        if isinstance(v, (bool, int)):
            return bool(v)
        if isinstance(v, dict) and "fl" in v:
            x = float_of(v)
            if x != x or x in (float("inf"), float("-inf")):
                raise Reject("non-finite float for a bool field")
            return x != 0
        raise Reject("bool")
    if k in ("uint", "byte", "utf8"):
        n = prim_bits(ty)
        i = as_int(v)
        mode = ty[2] if k == "uint" else "trunc"
        return min(max(i, 0), (1 << n) - 1) if mode == "sat" else i % (1 << n)
    if k == "sint":
        n = ty[1]
        i = as_int(v)
        if ty[2] == "sat":
            return min(max(i, -(1 << (n - 1))), (1 << (n - 1)) - 1)
        return (i + (1 << (n - 1))) % (1 << n) - (1 << (n - 1))
    if k == "float":
        if isinstance(v, dict) and "bits" in v:
            return {"f": v["bits"]}
        raise Reject("float")
    if k == "void":
        return None
    if k in ("farr", "varr"):
        e = ty[1]
        if isinstance(v, dict) and "x" in v:
            if e[0] not in ("byte", "utf8"):
                raise Reject("bytes for a non-byte array")
            bs = bytes.fromhex(v["x"])
            if e[0] == "utf8" and not valid_utf8(bs):
                raise Reject("utf8")
            items: typing.Any = list(bs)
        elif isinstance(v, list):
            if e[0] == "utf8":
                raise Reject("list for utf8")
            items = v
        else:
            raise Reject("array input")
        if (k == "farr" and len(items) != ty[2]) or (k == "varr" and len(items) > ty[2]):
            raise Reject("array length")
        out = [expect(e, x) for x in items]
        if e[0] in ("byte", "utf8"):
            return {"x": bytes(out).hex()}
        return out
    if k == "struct":
        if not (isinstance(v, dict) and "d" in v):
            raise Reject("struct input")
        kv = dict((a, b) for a, b in v["d"])
        for key in kv:
            if not (0 <= key < len(ty[1]) and ty[1][key][0] != "void"):
                raise Reject("unknown field")
        return {"s": [expect(f, kv[i]) if i in kv else default(f) for i, f in enumerate(ty[1]) if f[0] != "void"]}
    if k == "union":
        if not (isinstance(v, dict) and "d" in v and len(v["d"]) == 1):
            raise Reject("union input")
        key, x = v["d"][0]
        if not 0 <= key < len(ty[1]):
            raise Reject("unknown variant")
        return {"u": [key, expect(ty[1][key], x)]}
    raise ValueError(k)


def nan_norm(ty, c):
    """Canonical value with NaN patterns collapsed (payloads are the runtime's business)."""
    k = ty[0]
    if k == "float":
        return "nan" if is_nan_bits(ty[1], c["f"]) else c
    if k in ("farr", "varr"):
        if isinstance(c, dict):
            return c
        return [nan_norm(ty[1], x) for x in c]
    if k == "struct":
        fs = [f for f in ty[1] if f[0] != "void"]
        return {"s": [nan_norm(f, x) for f, x in zip(fs, c["s"])]}
    if k == "union":
        return {"u": [c["u"][0], nan_norm(ty[1][c["u"][0]], c["u"][1])]}
    return c


class Acc:
    """Reference bit sink: one integer, bit i of the stream is bit i of the integer (= little endian, LSB first)."""

    def __init__(self):
        self.v = 0
        self.n = 0
        self.marks: typing.List[dict] = []
        self.win_end: typing.Optional[int] = None  # set by the caller for marks inside delimited objects

    def put(self, value: int, width: int):
        self.v |= (value & ((1 << width) - 1)) << self.n
        self.n += width

    def align(self, a: int):
        self.n += pad(self.n, a)

    def bytes(self) -> bytes:
        return self.v.to_bytes((self.n + 7) // 8, "little")


def ref_encode(ty, c, acc: Acc, strip_header: bool = False, depth: int = 0):
    """The Specification's encoding of canonical value c (raw float bits) appended to acc; records marks."""
    k = ty[0]
    if k == "bool":
        acc.put(1 if c else 0, 1)
    elif k in ("uint", "byte", "utf8"):
        acc.put(c, prim_bits(ty))
    elif k == "sint":
        acc.put(c % (1 << ty[1]), ty[1])
    elif k == "float":
        acc.put(c["f"], ty[1])
    elif k == "void":
        acc.put(0, ty[1])
    elif k in ("farr", "varr"):
        e = ty[1]
        items = list(bytes.fromhex(c["x"])) if isinstance(c, dict) else c
        if k == "varr":
            acc.marks.append({"kind": "len", "at": acc.n, "w": len_bits(ty[2]), "cap": ty[2], "depth": depth, "n": len(items),
                              "eprim": prim_bits(e) if e[0] in PRIMS else 0, "anc": []})
            acc.put(len(items), len_bits(ty[2]))
        for x in items:
            ref_encode(e, x, acc, depth=depth)
    elif k in ("struct", "union"):
        if ty[2] is not None and not strip_header:
            inner = Acc()
            ref_encode([k, ty[1], None], c, inner, depth=depth + 1)
            body = inner.bytes()
            hdr_idx = len(acc.marks)
            acc.marks.append({"kind": "hdr", "at": acc.n, "w": 32, "size": len(body), "depth": depth, "anc": []})
            acc.put(len(body), 32)
            base = acc.n
            for m in inner.marks:
                m = dict(m)
                m["at"] += base
                m["win"] = m["win"] + base if "win" in m else base + 8 * len(body)
                # indices (in acc.marks) of the enclosing delimiter headers, outermost first
                m["anc"] = [hdr_idx] + [a + hdr_idx + 1 for a in m.get("anc", [])]
                acc.marks.append(m)
            acc.put(int.from_bytes(body, "little"), 8 * len(body))
            return
        if k == "struct":
            fs = ty[1]
            vals = iter(c["s"])
            for f in fs:
                acc.align(t_align(f))
                ref_encode(f, None if f[0] == "void" else next(vals), acc, depth=depth)
        else:
            tag, x = c["u"]
            acc.marks.append({"kind": "tag", "at": acc.n, "w": tag_bits(len(ty[1])), "n": len(ty[1]), "depth": depth, "anc": []})
            acc.put(tag, tag_bits(len(ty[1])))
            ref_encode(ty[1][tag], x, acc, depth=depth)
        acc.align(8)
    else:
        raise ValueError(k)


def reference_bytes(ty, c, hdr: bool) -> typing.Tuple[bytes, typing.List[dict]]:
    acc = Acc()
    ref_encode(ty, c, acc, strip_header=not hdr)
    return acc.bytes(), acc.marks


# ------------------------------------------------------------------------------------------- reference reading of a byte string

class ScanStop(Exception):
    def __init__(self, why: str):
        super().__init__(why)
        self.why = why


class Scan:
    """The Specification's reading of a byte string with a type, as far as it decides ACCEPT / REJECT: the data is one
    integer (bit i of the stream = bit i of the integer); a window [.., end) bounds what may be looked at - the whole
    buffer, or the payload a delimiter header announces - and everything behind the end of the window reads as ZERO
    (implicit zero extension), never as what happens to follow.  Only three things reject a byte string: a length
    prefix above the capacity, a union tag that names no variant, and a delimiter header announcing more bytes than
    its window has left.  Values are not computed.  Independent of the library and of the Lean model."""

    BUDGET = 400000

    def __init__(self, data: bytes):
        self.v = int.from_bytes(data, "little")
        self.steps = 0
        self.headers: typing.List[dict] = []  # every delimiter header met: position, value, bits left behind it

    def read(self, pos: int, w: int, end: int) -> int:
        avail = max(0, min(w, end - pos))
        return (self.v >> pos) & ((1 << avail) - 1) if avail else 0

    def tick(self, n: int = 1):
        self.steps += n
        if self.steps > self.BUDGET:
            raise ScanStop("budget")

    def scan(self, ty, pos: int, end: int, strip_header: bool = False) -> int:
        """Position behind the representation of one object of type ty that starts at pos."""
        self.tick()
        k = ty[0]
        if k in PRIMS:
            return pos + prim_bits(ty)
        if k in ("farr", "varr"):
            e = ty[1]
            n = ty[2]
            if k == "varr":
                w = len_bits(ty[2])
                n = self.read(pos, w, end)
                pos += w
                if n > ty[2]:
                    raise ScanStop("len")
            if e[0] in PRIMS:
                return pos + n * prim_bits(e)
            for _ in range(n):
                pos = self.scan(e, pos, end)
            return pos
        if ty[2] is not None and not strip_header:
            size = self.read(pos, 32, end)
            pos += 32
            left = max(0, end - pos)
            self.headers.append({"at": pos - 32, "size": size, "left": left})
            if 8 * size > left:
                raise ScanStop("hdr")
            self.scan([k, ty[1], None], pos, pos + 8 * size)
            return pos + 8 * size  # the object ends where its header says, whatever its fields made of the payload
        if k == "struct":
            for f in ty[1]:
                pos += pad(pos, t_align(f))
                pos = self.scan(f, pos, end)
        else:
            w = tag_bits(len(ty[1]))
            tag = self.read(pos, w, end)
            pos += w
            if tag >= len(ty[1]):
                raise ScanStop("tag")
            pos += pad(pos, t_align(ty[1][tag]))
            pos = self.scan(ty[1][tag], pos, end)
        return pos + pad(pos, 8)


SCAN_WHAT = {"len": "an array length above the capacity", "tag": "a union tag out of range",
             "hdr": "a delimiter header larger than the remaining data"}
SCAN_CLASS = {"serdes:ArrayLengthError": "no array length above its capacity", "serdes:UnionTagError": "no union tag out of range",
              "serdes:DelimiterHeaderError": "no delimiter header larger than the data left in its window"}


def ref_scan(ty, data: bytes, hdr: bool) -> typing.Tuple[typing.Optional[str], typing.List[dict]]:
    """(None | "len" | "tag" | "hdr" | "budget", delimiter headers met): does the Specification accept the byte string,
    and if not, what is the first thing that rejects it."""
    sc = Scan(data)
    try:
        sc.scan(ty, 0, 8 * len(data), strip_header=not hdr)
    except ScanStop as ex:
        return ex.why, sc.headers
    return None, sc.headers


# ------------------------------------------------------------------------------------------- Python objects of the library

def fname(i: int, nm=None) -> str:
    """Name of field i.  nm = None | {"p": prefix, "perm": permutation of 0..M-1}: ONE injective map index -> name for
    every composite of a type tree (so two names are equal iff the indices are), different between look-alike types."""
    if nm is None:
        return "f%d" % i
    perm = nm.get("perm") or []
    return "%s%d" % (nm.get("p", "f"), perm[i] if i < len(perm) else i)


def to_py(v, nm=None):
    """JSON input value -> the Python object handed to pydsdl.serialize."""
    if v is None or isinstance(v, (bool, int)):
        return v
    if isinstance(v, list):
        return [to_py(x, nm) for x in v]
    if "fl" in v:
        return float_of(v)
    if "bits" in v:
        s = v["src"]
        return f64_of_bits(s[1]) if s[0] == "f" else s[1]
    if "x" in v:
        bs = bytes.fromhex(v["x"])
        if v.get("str"):
            return bs.decode("utf-8")
        return bs
    return {fname(k, nm): to_py(x, nm) for k, x in v["d"]}


def model_val(v):
    """JSON input value as the model driver wants it (float leaves reduced to the demanded pattern)."""
    if v is None or isinstance(v, (bool, int)):
        return v
    if isinstance(v, list):
        return [model_val(x) for x in v]
    if "fl" in v:
        # a float given for an integer / bool field: the model receives the integer it denotes (nearest, ties to
        # even; truthiness for bool), or nothing for a non-finite float (rejected as ValueError)
        return v["as"]
    if "bits" in v:
        return {"bits": v["bits"]}
    if "x" in v:
        return {"x": v["x"]}
    return {"d": [[k, model_val(x)] for k, x in v["d"]]}


def canon_py(ty, o, nm=None):
    """Python object returned by pydsdl.deserialize -> canonical JSON value (NaN collapsed)."""
    k = ty[0]
    try:
        if k == "bool":
            return o if isinstance(o, bool) else {"bad": repr(o)[:40]}
        if k in ("uint", "sint", "byte", "utf8"):
            return o if isinstance(o, int) and not isinstance(o, bool) else {"bad": repr(o)[:40]}
        if k == "float":
            if not isinstance(o, float):
                return {"bad": repr(o)[:40]}
            b = struct.unpack(FMT[ty[1]][3], struct.pack(FMT[ty[1]][2], o))[0]
            return "nan" if is_nan_bits(ty[1], b) else {"f": b}
        if k in ("farr", "varr"):
            e = ty[1]
            if e[0] == "utf8":
                return {"x": o.encode("utf-8").hex()} if isinstance(o, str) else {"bad": repr(o)[:40]}
            if e[0] == "byte":
                return {"x": bytes(o).hex()} if isinstance(o, (bytes, bytearray)) else {"bad": repr(o)[:40]}
            if not isinstance(o, list):
                return {"bad": repr(o)[:40]}
            return [canon_py(e, x, nm) for x in o]
        if k == "struct":
            names = [fname(i, nm) for i, f in enumerate(ty[1]) if f[0] != "void"]
            if not isinstance(o, dict) or list(o.keys()) != names:
                return {"bad": repr(o)[:60]}
            return {"s": [canon_py(f, o[fname(i, nm)], nm) for i, f in enumerate(ty[1]) if f[0] != "void"]}
        if k == "union":
            if not isinstance(o, dict) or len(o) != 1:
                return {"bad": repr(o)[:60]}
            key = next(iter(o))
            idx = [i for i in range(len(ty[1])) if fname(i, nm) == key]
            if not idx:
                return {"bad": repr(o)[:60]}
            return {"u": [idx[0], canon_py(ty[1][idx[0]], o[key], nm)]}
    except Exception as ex:  # noqa
        return {"bad": "%s: %s" % (type(ex).__name__, ex)}
    return {"bad": "type"}


def classify(ex: BaseException) -> typing.Tuple[str, str]:
    P = common.import_pydsdl()
    if isinstance(ex, P.SerDesError):
        return "rejected", "serdes:" + type(ex).__name__
    if isinstance(ex, ValueError):
        return "rejected", "valueerror"
    return "foreign:" + type(ex).__name__, "foreign:" + type(ex).__name__


def impl_dec(T, ty, data: bytes, hdr: bool, with_fix: bool, nm=None) -> dict:
    P = common.import_pydsdl()
    # every accepted buffer type is exercised; the choice is a function of the data so that a case replays exactly
    buf = (bytes, bytearray, memoryview)[(len(data) + sum(data[:2])) % 3](data)
    try:
        o = P.deserialize(T, buf, with_delimiter_header=hdr)
    except Exception as ex:  # noqa
        r, c = classify(ex)
        return {"res": r, "soft_cls": c}
    out = {"res": "ok", "val": canon_py(ty, o, nm)}
    if with_fix:
        try:
            b2 = P.serialize(T, o, with_delimiter_header=hdr)
            o2 = P.deserialize(T, b2, with_delimiter_header=hdr)
            out["re"] = b2.hex()
            out["soft_fix"] = canon_py(ty, o2, nm) == out["val"]
        except Exception as ex:  # noqa
            out["re"] = "exception"
            out["soft_fix"] = "%s: %s" % (type(ex).__name__, str(ex)[:100])
    return out


_bls_cache: typing.Dict[str, dict] = {}


def bls_card_estimate(ty) -> int:
    """Upper estimate of the cardinality of the bit length set (own analysis; decides whether to expand)."""
    k = ty[0]
    if k in PRIMS:
        return 1
    if k == "farr":
        c = bls_card_estimate(ty[1])
        return 1 if c == 1 else min(10**9, c ** min(ty[2], 6) * ty[2])
    if k == "varr":
        c = bls_card_estimate(ty[1])
        return min(10**9, (ty[2] + 1) * (1 if c == 1 else c ** min(ty[2], 6)))
    if ty[2] is not None:
        return ty[2] // 8 + 1
    if k == "struct":
        r = 1
        for f in ty[1]:
            r = min(10**9, r * bls_card_estimate(f))
        return r
    return min(10**9, sum(bls_card_estimate(f) for f in ty[1]))


def bls_check(T, ty, hdr: bool, nbits: int, plan=None, src=None) -> typing.Optional[str]:
    """Is nbits an element of the real type's bit_length_set (inner type's when written without header)?"""
    key = json.dumps([ty, hdr, plan_norm(plan), src])
    TT = T if (hdr or ty[2] is None) else T.inner_type
    tyy = ty if hdr else [ty[0], ty[1], None]
    if key not in _bls_cache:
        if len(_bls_cache) > 2000:
            _bls_cache.clear()
        bls = TT.bit_length_set
        info: dict = {"min": bls.min, "max": bls.max, "mod8": sorted(bls % 8), "mod32": None, "set": None}
        card = bls_card_estimate(tyy)
        if card <= 3000 and t_max(tyy) <= 200000:
            info["set"] = set(bls)
        _bls_cache[key] = info
    info = _bls_cache[key]
    if not info["min"] <= nbits <= info["max"]:
        return "bit length %d outside [%d, %d] of bit_length_set" % (nbits, info["min"], info["max"])
    if nbits % 8 not in info["mod8"]:
        return "bit length %d: residue mod 8 not in %s" % (nbits, info["mod8"])
    if info["set"] is not None and nbits not in info["set"]:
        return "bit length %d is not an element of bit_length_set (%d elements)" % (nbits, len(info["set"]))
    return None


# ------------------------------------------------------------------------------------------- generators

BOUNDARY_CAPS = [255, 256, 65535, 65536]


def gen_prim(rng: random.Random, in_array: bool = False):
    x = rng.random()
    if x < 0.08:
        return ["bool"]
    if x < 0.50:
        return ["uint", rng.choice([rng.randint(1, 64), rng.randint(1, 17), rng.choice([1, 7, 8, 9, 15, 16, 17, 31, 32, 33, 63, 64])]), rng.choice(["sat", "trunc"])]
    if x < 0.78:
        return ["sint", rng.choice([rng.randint(2, 64), rng.randint(2, 17), rng.choice([2, 7, 8, 9, 16, 31, 32, 33, 63, 64])]), "sat"]
    return ["float", rng.choice([16, 32, 64]), rng.choice(["sat", "trunc"])]


def gen_type(rng: random.Random, depth: int, budget: int, top: bool = False):
    """A random well-formed type whose maximal bit length stays within `budget` bits (arrays get small capacities
    unless a boundary capacity is drawn, which is only done for cheap elements)."""
    if top:
        kind = rng.choice(["struct", "struct", "struct", "union"])
    elif depth <= 0:
        kind = "prim"
    else:
        kind = rng.choice(["prim", "prim", "prim", "farr", "varr", "varr", "struct", "struct", "union"])
    if kind == "prim":
        return gen_prim(rng)
    if kind in ("farr", "varr"):
        x = rng.random()
        if x < 0.3:
            e = ["byte"] if (kind == "farr" or rng.random() < 0.5) else ["utf8"]
        else:
            e = gen_type(rng, depth - 1, max(64, budget // 4))
        emax = t_max(e)
        ecost = t_cost(e)
        if rng.random() < 0.15 and emax <= 16 and ecost <= 3 and kind == "varr":
            cap = rng.choice(BOUNDARY_CAPS)
        elif rng.random() < 0.08 and emax <= 8 and ecost <= 3 and kind == "farr":
            cap = rng.choice([255, 256, 255, 256, 65535, 65536])
        else:
            cap = max(1, min(rng.choice([1, 2, 3, 5, 8, 17, 40]), budget // max(1, emax)))
        return [kind, e, cap]
    if kind == "struct":
        n = rng.choice([0, 1, 1, 2, 2, 3, 3, 4, 5, 7]) if not top else rng.choice([1, 2, 3, 3, 4, 5, 6])
        fs = []
        for _ in range(n):
            if rng.random() < 0.12:
                fs.append(["void", rng.choice([1, 2, 3, 5, 7, 8, 13, 32, 64])])
            else:
                fs.append(gen_type(rng, depth - 1, max(64, budget // max(1, n))))
        ty = ["struct", fs, None]
    else:
        x = rng.random()
        if x < 0.06 and top:
            n = rng.choice([255, 256, 257])
        else:
            n = rng.choice([2, 2, 3, 3, 4, 6])
        if n > 10:
            fs = [gen_prim(rng) for _ in range(n)]
            for _ in range(3):
                fs[rng.randrange(n)] = gen_type(rng, min(depth - 1, 1), 256)
        else:
            fs = [gen_type(rng, depth - 1, max(64, budget // 2)) for _ in range(n)]
        ty = ["union", fs, None]
    if rng.random() < 0.35:
        m = inner_max(ty)
        ty[2] = m + 8 * rng.choice([0, 0, 1, 2, 7, 32, 100])
    return ty


SPECIAL_F64 = [0x0000000000000000, 0x8000000000000000, 0x7FF0000000000000, 0xFFF0000000000000, 0x7FF8000000000000,
               0xFFF8000000000001, 0x7FF0000000000001, 0x0000000000000001, 0x000FFFFFFFFFFFFF, 0x0010000000000000,
               0x7FEFFFFFFFFFFFFF, 0xFFEFFFFFFFFFFFFF, 0x3FF0000000000000, 0xBFF0000000000000]


def gen_float_src(rng: random.Random, w: int):
    x = rng.random()
    if x < 0.25:
        return ["f", rng.choice(SPECIAL_F64)]
    if x < 0.45:
        return ["i", rng.choice([0, 1, -1, 65504, 65505, 65519, 65520, -65520, 2**24 + 1, 2**53 + 1, 2**128, -2**128, 2**1024, -2**1024, 10**400, rng.randint(-10**6, 10**6)])]
    if x < 0.75:
        # around the limits / subnormal range / rounding ties of the target format
        eb, mb = FMT[w][0], FMT[w][1]
        bias = (1 << (eb - 1)) - 1
        e = rng.choice([bias, bias, bias + 1, 1 - bias, -bias - mb, -bias - mb + 1, -bias - mb - 1, rng.randint(-bias - mb - 2, bias + 1)])
        mant = rng.choice([0, 1, (1 << 52) - 1, 1 << 51, (1 << 51) + 1, (1 << 51) - 1, rng.getrandbits(52), rng.getrandbits(52) & ~((1 << (52 - mb - 1)) - 1) if mb < 52 else rng.getrandbits(52)])
        be = e + 1023
        if not 0 < be < 2047:
            be = max(1, min(2046, be))
        return ["f", (rng.getrandbits(1) << 63) | (be << 52) | mant]
    b = rng.getrandbits(64)
    return ["f", b]


def gen_float_for_int(rng: random.Random, n: int, signed: bool, boolean: bool = False):
    """A Python float offered to an integer / bool field (rounded to nearest-even by the library, then cast)."""
    lo, hi = (-(1 << (n - 1)), (1 << (n - 1)) - 1) if signed else (0, (1 << n) - 1)
    cands = [0.0, -0.0, 0.4, 0.5, 1.5, 2.5, -0.5, -1.5, 3.999, float(hi), float(lo), float(hi) + 1.0, float(lo) - 1.0,
             float(hi) * 2, 1e19, 1.8446744073709552e19, 9.223372036854775807e18, -9.3e18, 1e20, -1e20, 1e300, -1e300,
             float(rng.randint(lo, hi)), rng.uniform(lo - 3, hi + 3) if hi < 10**15 else float(rng.randint(lo, hi)) + 0.5,
             float("inf"), float("-inf"), float("nan")]
    x = rng.choice(cands)
    if x != x or x in (float("inf"), float("-inf")):
        a = None
    elif boolean:
        a = x != 0
    else:
        a = round_half_even(x)
    return {"fl": x.hex() if x == x and abs(x) != float("inf") else repr(x), "as": a}


def gen_int(rng: random.Random, n: int, signed: bool):
    lo, hi = (-(1 << (n - 1)), (1 << (n - 1)) - 1) if signed else (0, (1 << n) - 1)
    if rng.random() < 0.12:
        return gen_float_for_int(rng, n, signed)
    x = rng.random()
    if x < 0.35:
        return rng.randint(lo, hi)
    if x < 0.6:
        return rng.choice([lo, hi, lo + 1, hi - 1, 0, 1, -1 if signed else 0])
    if x < 0.9:  # out of range
        return rng.choice([lo - 1, hi + 1, lo - 2, hi + 2, 2 * hi + 1, (1 << n), (1 << n) + 1, -(1 << n), -1, -2, (1 << 64), (1 << 70) + 5, -(1 << 70) - 3,
                           lo - rng.randint(1, 1 << 20), hi + rng.randint(1, 1 << 20), rng.randint(-(1 << 66), 1 << 66)])
    return rng.choice([True, False])


UTF8_SAMPLES = ["", "a", "hé", "€", "𝄞", "日本語", "\x00", "߿ࠀ", "￿", "\U0010ffff", "à", "퟿"]


def gen_utf8(rng: random.Random, cap: int) -> bytes:
    out = b""
    for _ in range(rng.randint(0, 6)):
        piece = rng.choice(UTF8_SAMPLES).encode("utf-8") if rng.random() < 0.7 else chr(rng.choice([rng.randint(0, 0xD7FF), rng.randint(0xE000, 0x10FFFF)])).encode("utf-8")
        if len(out) + len(piece) > cap:
            break
        out += piece
    return out


def gen_len(rng: random.Random, cap: int, big_ok: bool) -> int:
    x = rng.random()
    if cap > 300:
        if not big_ok:
            return rng.choice([0, 1, 2, rng.randint(0, 40)])
        return rng.choice([0, 1, 254, 255, 256, 257, cap - 1, cap, cap, rng.randint(0, cap)])
    if x < 0.2:
        return 0
    if x < 0.45:
        return cap
    return rng.randint(0, cap)


def gen_value(rng: random.Random, ty, st: dict):
    """Explicit-form input for ty: valid shape; numbers may be out of range; fields may be omitted."""
    k = ty[0]
    if k == "bool":
        if rng.random() < 0.1:
            return gen_float_for_int(rng, 1, False, boolean=True)
        return rng.choice([True, False, True, False, 0, 1, 5, -1])
    if k == "uint":
        return gen_int(rng, ty[1], False)
    if k in ("byte", "utf8"):
        return rng.randint(0, 255)
    if k == "sint":
        return gen_int(rng, ty[1], True)
    if k == "float":
        src = gen_float_src(rng, ty[1])
        return {"bits": float_bits(src, ty[1], ty[2]), "src": src}
    if k == "void":
        return None
    if k in ("farr", "varr"):
        e, cap = ty[1], ty[2]
        big_ok = st.get("big", 0) < 1 and t_max(e) <= 16
        n = cap if k == "farr" else gen_len(rng, cap, big_ok)
        if n > 300:
            st["big"] = st.get("big", 0) + 1
        if e[0] == "utf8":
            bs = gen_utf8(rng, cap) if n <= 300 else (b"\xc3\xa9" * (n // 2) + b"z" * (n % 2))
            return {"x": bs.hex(), "str": rng.random() < 0.7}
        if e[0] == "byte":
            bs = bytes(rng.getrandbits(8) for _ in range(n)) if n <= 300 else bytes([rng.getrandbits(8)]) * n
            if rng.random() < 0.75:
                return {"x": bs.hex(), "str": False}
            return [rng.choice([b, b, b + 256, b - 256]) for b in bs] if n <= 300 else list(bs)
        if n > 300:
            one = gen_value(rng, e, st)
            return [one] * n
        return [gen_value(rng, e, st) for _ in range(n)]
    if k == "struct":
        d = []
        for i, f in enumerate(ty[1]):
            if f[0] == "void":
                continue
            if rng.random() < st.get("omit", 0.15):
                continue
            d.append([i, gen_value(rng, f, st)])
        if rng.random() < 0.3:
            rng.shuffle(d)
        return {"d": d}
    if k == "union":
        n = len(ty[1])
        i = rng.choice([0, n - 1, rng.randrange(n), rng.randrange(n)])
        return {"d": [[i, gen_value(rng, ty[1][i], st)]]}
    raise ValueError(k)


def relax(rng: random.Random, ty, v):
    """A relaxed spelling of explicit input v (positional structures, bare values) that the documented rules map back
    to v; spellings that the rules themselves make ambiguous are not produced."""
    k = ty[0]
    if k in ("farr", "varr"):
        if isinstance(v, list):
            return [relax(rng, ty[1], x) for x in v]
        return v
    if k == "union":
        key, x = v["d"][0]
        return {"d": [[key, relax(rng, ty[1][key], x)]]}
    if k != "struct":
        return v
    named = [i for i, f in enumerate(ty[1]) if f[0] != "void"]
    kv = {a: relax(rng, ty[1][a], b) for a, b in v["d"]}
    order = [a for a, _ in v["d"]]
    if len(named) == 1:
        i = named[0]
        if i in kv and rng.random() < 0.7:
            x = kv[i]
            ambiguous = isinstance(x, dict) and "d" in x and (len(x["d"]) == 0 or any(a == i for a, _ in x["d"]))
            if not ambiguous:
                return x  # bare value
        return {"d": [[a, kv[a]] for a in order]}
    if rng.random() < 0.6 and len(named) >= 2:
        # positional: a prefix of the fields, all present
        m = 0
        while m < len(named) and named[m] in kv:
            m += 1
        if all(a in named[:m] for a in kv):
            return [kv[a] for a in named[:m]]
    return {"d": [[a, kv[a]] for a in order]}


def gen_attr_plan(rng: random.Random, ty):
    """Where the constants of the definitions stand in the attribute lists handed to the constructors: in front of all
    fields, behind them (the only order the DSDL front end produces), one in front of every field, or anywhere.  One
    entry per composite of the tree (None = no constants)."""
    plan: typing.List[typing.Any] = []
    for t in t_walk(ty):
        if t[0] not in ("struct", "union"):
            continue
        n = len(t[1])
        if rng.random() < 0.25:
            plan.append(None)
            continue
        style = rng.choice(["first", "last", "each", "random", "random"])
        if style == "each" and (n > 12 or n == 0):
            style = "first"
        if style == "first":
            own = [0] * rng.randint(1, 3)
        elif style == "last":
            own = [n] * rng.randint(1, 3)
        elif style == "each":
            own = list(range(n)) + ([n] if rng.random() < 0.5 else [])
        else:
            own = sorted(rng.randint(0, n) for _ in range(rng.randint(1, 4)))
        plan.append(own)
    return plan_norm(plan)


def plan_class(ty, plan) -> str:
    plan = plan_norm(plan)
    if plan is None:
        return "none"
    comps = [t for t in t_walk(ty) if t[0] in ("struct", "union")]
    front = any(own and any(p < len(t[1]) for p in own) for t, own in zip(comps, plan))
    return "constants-in-front-of-fields" if front else "constants-last-only"


def plan_full(ty, plan) -> list:
    plan = list(plan or [])
    n = n_comps(ty)
    return (plan + [None] * n)[:n]


def plan_drop_field(ty, plan, j: int):
    """The plan of composite `ty` after member j was removed from it."""
    if plan_norm(plan) is None:
        return None
    plan = plan_full(ty, plan)
    own = [p if p <= j else p - 1 for p in (plan[0] or [])] or None
    out = [own]
    idx = 1
    for i, f in enumerate(ty[1]):
        c = n_comps(f)
        if i != j:
            out += plan[idx:idx + c]
        idx += c
    return plan_norm(out)


def _shrink_plans(case, keys=("attrs", "attrsW", "attrsR")):
    for key in keys:
        plan = plan_norm(case.get(key))
        if plan is None:
            continue
        c = dict(case)
        c[key] = None
        yield c
        for i, own in enumerate(plan):
            if own:
                c = dict(case)
                c[key] = plan[:i] + [None] + plan[i + 1:]
                yield c
                if len(own) > 1:
                    for own2 in (own[:1], own[-1:]):
                        c = dict(case)
                        c[key] = plan[:i] + [own2] + plan[i + 1:]
                        yield c


def gen_enc_case(rng: random.Random, ty, kind: str) -> dict:
    st = {"omit": rng.choice([0.0, 0.15, 0.5])}
    v = gen_value(rng, ty, st)
    hdr = ty[2] is not None and rng.random() < 0.5
    case = {"op": "enc", "ty": ty, "val": v, "explicit": v, "relaxed": False, "hdr": hdr, "valid": True}
    if kind == "relaxed":
        case["val"] = relax(rng, ty, v)
        case["relaxed"] = True
    elif kind == "invalid":
        bad = corrupt_value(rng, ty, v)
        if bad is not None:
            case["val"] = case["explicit"] = bad
            case["valid"] = False
    return case


def corrupt_value(rng: random.Random, ty, v):
    """One shape violation somewhere (array too long / too short, unknown field, unknown variant)."""
    k = ty[0]
    if k in ("farr", "varr"):
        cap = ty[2]
        if cap > 64:
            return None
        if rng.random() < 0.6 or ty[1][0] in PRIMS:
            if isinstance(v, dict):
                n = cap + 1 if (k == "varr" or rng.random() < 0.5) else cap - 1
                return {"x": ("41" * n), "str": False}
            if k == "varr" or rng.random() < 0.5:
                return list(v) + [default_input(ty[1])] * (cap + 1 - len(v))
            return list(v)[: cap - 1]
        if isinstance(v, list) and v:
            i = rng.randrange(len(v))
            b = corrupt_value(rng, ty[1], v[i])
            if b is None:
                return None
            return v[:i] + [b] + v[i + 1:]
        return None
    if k == "struct":
        comp = [(j, a) for j, (a, x) in enumerate(v["d"]) if ty[1][a][0] not in PRIMS]
        if comp and rng.random() < 0.6:
            j, a = rng.choice(comp)
            b = corrupt_value(rng, ty[1][a], v["d"][j][1])
            if b is None:
                return None
            d = [list(p) for p in v["d"]]
            d[j][1] = b
            return {"d": d}
        return {"d": [list(p) for p in v["d"]] + [[len(ty[1]) + rng.randint(0, 3), 0]]}
    if k == "union":
        if rng.random() < 0.5:
            return {"d": [[len(ty[1]) + rng.randint(0, 2), 0]]}
        a, x = v["d"][0]
        b = corrupt_value(rng, ty[1][a], x) if ty[1][a][0] not in PRIMS else None
        if b is None:
            return {"d": []} if rng.random() < 0.5 else {"d": [[0, default_input(ty[1][0])], [1, default_input(ty[1][1])]]}
        return {"d": [[a, b]]}
    return None


def default_input(ty):
    k = ty[0]
    if k == "bool":
        return False
    if k in ("uint", "sint", "byte", "utf8"):
        return 0
    if k == "float":
        return {"bits": 0, "src": ["f", 0]}
    if k == "farr":
        if ty[1][0] == "byte":
            return {"x": "00" * ty[2], "str": False}
        return [default_input(ty[1])] * ty[2]
    if k == "varr":
        return {"x": "", "str": False} if ty[1][0] in ("byte", "utf8") else []
    if k == "struct":
        return {"d": []}
    if k == "union":
        return {"d": [[0, default_input(ty[1][0])]]}
    return None


def gen_dec_cases(rng: random.Random, ty, count: int, short_bias: bool = False, hdr_bias: bool = False) -> typing.List[dict]:
    """Byte strings for one type: random, valid representation and its prefixes, bit flips, sabotaged fields, delimited
    payloads that end early, data / payloads that end at every byte position around a delimiter header."""
    out = []
    hdr = ty[2] is not None and rng.random() < 0.5
    maxb = (t_max(ty) + 7) // 8

    def zeros_ext():
        return [("00" * rng.choice([1, 2, 3, 8]), "zeros"), ("00" * rng.choice([16, 64, maxb % 4000 + 1]), "zeros")]

    def mk(data: bytes, how: str, complete: bool = False, expect_: typing.Optional[str] = None, junk: bool = False,
           alts: typing.Optional[typing.List[typing.Tuple[bytes, str]]] = None):
        ext = zeros_ext()
        if junk:
            ext.append((bytes(rng.choice([rng.getrandbits(8), rng.randint(1, 255)]) for _ in range(rng.randint(1, 9))).hex(), "junk"))
            ext.append(("ff" * rng.randint(1, 5), "junk"))
        c = {"op": "dec", "ty": ty, "hex": data.hex(), "hdr": hdr, "ext": [e for e, _ in ext], "extkind": [k for _, k in ext],
             "complete": complete, "expect": expect_, "how": how}
        if alts is not None:
            # `closed`: the byte string is a reference encoding in which only a delimited payload was cut short (and its
            # header adjusted), everything behind it is present: trailing bytes lie behind the end of the representation
            c["closed"] = True
            c["alts"] = [a.hex() for a, _ in alts]
            c["altkind"] = [k for _, k in alts]
        return c

    while len(out) < count:
        x = rng.random()
        if short_bias and rng.random() < 0.45:
            x = 0.87  # types made for it: mostly payloads that end early
        if hdr_bias and rng.random() < 0.7:
            x = rng.choice([0.92, 0.97, 0.97])  # types made for it: the data / a payload ends around a delimiter header
        if x < 0.20:
            n = rng.choice([0, 1, 2, 3, rng.randint(0, min(maxb + 4, 64)), min(maxb, 300), min(maxb + 3, 300)])
            style = rng.random()
            if style < 0.6:
                data = bytes(rng.getrandbits(8) for _ in range(n))
            elif style < 0.8:  # mostly zeros: small lengths / tags / headers, decodes deep
                data = bytes(rng.choice([0, 0, 0, 1, 2, rng.getrandbits(8)]) for _ in range(n))
            else:
                data = bytes([rng.choice([0xFF, 0x80, 0x01, 0x7F])]) * n
            out.append(mk(data, "random"))
            continue
        st = {"omit": 0.1, "big": 1 if rng.random() < 0.9 else 0}
        try:
            c = expect(ty, gen_value(rng, ty, st))
        except Reject:
            continue
        data, marks = reference_bytes(ty, c, hdr)
        if x < 0.36:
            out.append(mk(data, "valid", complete=True, junk=True))
        elif x < 0.54:
            if len(data) <= 24 and rng.random() < 0.3:
                for n in range(len(data)):
                    out.append(mk(data[:n], "prefix"))
            else:
                out.append(mk(data[: rng.randint(0, max(0, len(data) - 1))], "prefix"))
        elif x < 0.70:
            if not data:
                continue
            b = bytearray(data)
            for _ in range(rng.choice([1, 1, 1, 2])):
                i = rng.randrange(len(b) * 8)
                b[i // 8] ^= 1 << (i % 8)
            out.append(mk(bytes(b), "bitflip"))
        elif x < 0.84 or not any(m["kind"] == "hdr" for m in marks):
            sab = sabotage(rng, data, marks)
            if sab is not None:
                out.append(mk(sab[0], "sabotage:" + sab[1], expect_="rejected"))
        elif x < 0.90:
            sp = short_payload(rng, data, marks)
            if sp is not None:
                out.append(mk(sp[0], "shortpayload:" + sp[2], junk=True, alts=[(sp[1], "zerofill")]))
        elif x < 0.95:
            # the DATA ends at every byte position from two bytes in front of a delimiter header to two bytes behind it
            for n, rel in header_cuts(rng, data, marks):
                out.append(mk(data[:n], "hdrcut:" + rel))
        else:
            # the PAYLOAD of an enclosing delimited object ends at every byte position around a nested delimiter header
            cuts = inner_header_cuts(rng, data, marks)
            if not cuts:
                sp = short_payload(rng, data, marks)
                cuts = [] if sp is None else [(sp[0], sp[1], "shortpayload:" + sp[2])]
            for b1, b2, how in cuts:
                out.append(mk(b1, how, junk=True, alts=[(b2, "zerofill")]))
    return out


def cut_payload(data: bytes, marks: typing.List[dict], i: int, cut: int):
    """The representation with the payload of delimited object i (index of its header mark) ending after `cut` bytes:
    (b1, b2) - in b1 the headers of the object and of the objects around it are lowered and what followed the object
    follows the cut directly; in b2 the headers are unchanged and the cut-off part of the payload is zero."""
    m = marks[i]
    start = m["at"] // 8 + 4
    size = m["size"]
    end = start + size
    if not 0 <= cut < size:
        return None
    gone = size - cut
    b1 = bytearray(data[:start + cut] + data[end:])
    for j in [i] + list(m["anc"]):
        at = marks[j]["at"] // 8
        v = int.from_bytes(b1[at:at + 4], "little") - gone
        if v < 0:
            return None
        b1[at:at + 4] = v.to_bytes(4, "little")
    b2 = data[:start + cut] + bytes(gone) + data[end:]
    return bytes(b1), b2


def _rel(n: int, at: int) -> str:
    """Where byte position n lies relative to a 4-byte delimiter header starting at byte `at`."""
    return "in-front-of-header" if n < at else "at-header-start" if n == at else "inside-header" if n < at + 4 else \
        "at-header-end" if n == at + 4 else "behind-header"


def header_cuts(rng: random.Random, data: bytes, marks: typing.List[dict]) -> typing.List[typing.Tuple[int, str]]:
    """Lengths n < len(data) such that data[:n] ends around a delimiter header (any nesting depth, the top-level one
    included), with the relation of the cut to the nearest header chosen."""
    hs = [m for m in marks if m["kind"] == "hdr"]
    if len(hs) > 3:
        hs = rng.sample(hs, 3)
    out: typing.Dict[int, str] = {}
    for m in hs:
        at = m["at"] // 8
        for n in range(max(0, at - 2), at + 7):
            if n < len(data) and n not in out:
                out[n] = _rel(n, at) + "/depth%d" % min(3, len(m["anc"]))
    return sorted(out.items())


def inner_header_cuts(rng: random.Random, data: bytes, marks: typing.List[dict]):
    """(b1, b2, how) for an enclosing delimited object whose payload ends at every byte position around the header of a
    delimited object nested in it (directly or deeper)."""
    pairs = [(i, j) for j, m in enumerate(marks) if m["kind"] == "hdr" for i in m["anc"] if marks[i]["size"] > 0]
    if not pairs:
        return []
    direct = [(i, j) for i, j in pairs if marks[j]["anc"][-1] == i]
    # (not direct: the header of the object in between then announces more than the shortened payload holds - rejected)
    i, j = rng.choice(direct if direct and rng.random() < 0.85 else pairs)
    start = marks[i]["at"] // 8 + 4
    c0 = marks[j]["at"] // 8 - start
    out = []
    for cut in range(c0 - 2, c0 + 7):
        r = cut_payload(data, marks, i, cut)
        if r is not None:
            where = "top" if not marks[i]["anc"] and marks[i]["at"] == 0 and start + marks[i]["size"] == len(data) else "nested"
            out.append((r[0], r[1], "innercut:%s/%s" % (where, _rel(cut, c0))))
    return out


def short_payload(rng: random.Random, data: bytes, marks: typing.List[dict]):
    """A delimited object (any depth, or the top-level one) whose header announces a payload that ends EARLY - preferably
    in the middle of an array, right behind its length prefix - while everything behind the object stays where the
    (shortened) header says it is.  Returns (b1, b2, where): in b2 the header is unchanged and the cut-off part of the
    payload is zero instead, which by the zero extension rule of delimited objects denotes the same thing as b1; in b1
    the cut is followed directly by foreign data (sibling fields, further array elements; junk at the top level)."""
    hs = [i for i, m in enumerate(marks) if m["kind"] == "hdr" and m["size"] > 0]
    if not hs:
        return None
    with_arr = [i for i in hs if any(l["kind"] == "len" and l["n"] > 0 and l["anc"] and l["anc"][-1] == i for l in marks)]
    i = rng.choice(with_arr) if with_arr and rng.random() < 0.7 else rng.choice(hs)
    m = marks[i]
    start = m["at"] // 8 + 4
    size = m["size"]
    end = start + size
    where = "top" if not m["anc"] and m["at"] == 0 and end == len(data) else "nested"
    arrs = [l for l in marks if l["kind"] == "len" and l["n"] > 0 and l["anc"] and l["anc"][-1] == i]
    cut = None
    if arrs and rng.random() < 0.75:
        l = rng.choice(arrs)
        a0 = (l["at"] + l["w"] + 7) // 8 - start  # first payload byte behind the length prefix
        a1 = a0 + (l["n"] * l["eprim"] + 7) // 8 if l["eprim"] else size
        lo, hi = max(0, a0), min(size - 1, max(a0, a1 - 1))
        if lo <= hi:
            cut = rng.choice([lo, lo, rng.randint(lo, hi)])
            where += "/array"
    if cut is None:
        cut = rng.choice([0, size - 1, rng.randint(0, size - 1)])
    r = cut_payload(data, marks, i, cut)
    return None if r is None else (r[0], r[1], where)


def gen_blob_type(rng: random.Random):
    """Delimited objects carrying byte / utf8 / uint8 (and other) arrays, at the top level and nested in containers with
    fields / further elements behind them - the shapes in which an early end of the payload is followed by foreign data."""
    def arr():
        x = rng.random()
        if x < 0.3:
            e = ["byte"]
        elif x < 0.5:
            e = ["utf8"]
        elif x < 0.7:
            e = ["uint", 8, rng.choice(["sat", "trunc"])]
        else:
            e = rng.choice([["bool"], ["uint", 16, "sat"], ["sint", 8, "sat"], ["uint", 4, "trunc"], ["float", 32, "sat"], ["uint", 64, "sat"]])
        kind = "varr" if (e[0] == "utf8" or rng.random() < 0.7) else "farr"
        return [kind, e, rng.choice([1, 3, 4, 8, 8, 17, 40])]
    fs = []
    for _ in range(rng.choice([0, 0, 1, 2])):
        fs.append(gen_prim(rng) if rng.random() < 0.8 else ["void", rng.choice([3, 8])])
    fs.append(arr())
    for _ in range(rng.choice([0, 0, 1, 2])):
        fs.append(arr() if rng.random() < 0.4 else gen_prim(rng))
    if rng.random() < 0.15:
        d = ["union", [arr(), arr()] + [gen_prim(rng) for _ in range(rng.randint(0, 2))], None]
    else:
        d = ["struct", fs, None]
    d[2] = inner_max(d) + 8 * rng.choice([0, 0, 1, 16])
    ty = d
    for _ in range(rng.choice([0, 0, 1, 1, 1, 2])):
        ty, _ = wrap_container(rng, ty, ty)
    if ty[0] not in ("struct", "union"):
        ty = ["struct", [ty] + [gen_prim(rng) for _ in range(rng.randint(1, 2))], None]
    return ty


def gen_nest_type(rng: random.Random):
    """Delimited objects inside delimited objects (2-4 levels; as field, fixed / variable array element, union variant)
    with few small - also no - fields in front of and behind them, sealed or delimited at the top: the shapes in which
    the data, or the payload an enclosing header announces, can end in front of / inside / right behind a delimiter header."""
    def small():
        return rng.choice([["uint", 8, "sat"], ["bool"], ["uint", 16, "trunc"], ["sint", 5, "sat"], ["uint", 3, "sat"], ["float", 16, "sat"],
                           ["uint", 64, "sat"], ["varr", ["uint", 8, "sat"], 3], ["varr", ["byte"], 5], ["farr", ["bool"], 9], ["void", 4]])

    def smalls(lo, hi):
        return [small() for _ in range(rng.randint(lo, hi))]

    d = ["struct", smalls(0, 3), None]
    d[2] = inner_max(d) + 8 * rng.choice([0, 0, 2, 8])
    ty = d
    for _ in range(rng.choice([1, 1, 2, 2, 3])):
        x = rng.random()
        inner = ty
        if rng.random() < 0.35:
            inner = rng.choice([["varr", ty, rng.choice([1, 2, 3])], ["farr", ty, rng.choice([1, 2])]])
        if x < 0.7:
            t = ["struct", smalls(0, 2) + [inner] + smalls(0, 2), None]
        else:
            vs = [v for v in smalls(1, 2) if v[0] != "void"] or [["uint", 8, "sat"]]
            k = rng.randint(0, len(vs))
            t = ["union", vs[:k] + [inner] + vs[k:], None]
        if rng.random() < 0.75:
            t[2] = inner_max(t) + 8 * rng.choice([0, 0, 3])
        ty = t
    return ty


def sabotage(rng: random.Random, data: bytes, marks: typing.List[dict]):
    """Overwrite one length prefix / union tag / delimiter header of a valid representation with an illegal value."""
    cands = []
    for m in marks:
        top = (1 << m["w"]) - 1
        if m["kind"] == "len" and m["cap"] < top:
            cands.append((m, rng.choice([m["cap"] + 1, top, rng.randint(m["cap"] + 1, top)])))
        elif m["kind"] == "tag" and m["n"] <= top:
            cands.append((m, rng.choice([m["n"], top, rng.randint(m["n"], top)])))
        elif m["kind"] == "hdr":
            end = m.get("win", len(data) * 8)
            remaining = (end - (m["at"] + 32)) // 8
            cands.append((m, rng.choice([remaining + 1, remaining + 2, (1 << 32) - 1, remaining + rng.randint(1, 1000), 0x80000000])))
    if not cands:
        return None
    m, val = rng.choice(cands)
    v = int.from_bytes(data, "little")
    mask = ((1 << m["w"]) - 1) << m["at"]
    v = (v & ~mask) | (val << m["at"])
    return v.to_bytes(len(data), "little"), m["kind"]


# ---- look-alike types: different types that pydsdl's `==` / hash cannot tell apart, used one after another

def t_nodes(ty, path=(), parent=None):
    """(path, node, parent kind) of every node; a path is a sequence of JSON list indices from the root."""
    yield path, ty, parent
    k = ty[0]
    if k in ("farr", "varr"):
        yield from t_nodes(ty[1], path + (1,), k)
    elif k in ("struct", "union"):
        for i, f in enumerate(ty[1]):
            yield from t_nodes(f, path + (1, i), k)


def t_replace(ty, path, new):
    ty = json.loads(json.dumps(ty))
    if not path:
        return json.loads(json.dumps(new))
    cur = ty
    for i in path[:-1]:
        cur = cur[i]
    cur[path[-1]] = json.loads(json.dumps(new))
    return ty


def max_fields(ty) -> int:
    return max([1] + [len(t[1]) for t in t_walk(ty) if t[0] in ("struct", "union")])


def same_width_leaves(rng: random.Random, leaf, parent):
    """Leaves / tiny arrays with exactly the bit length of `leaf` but of another kind."""
    k = leaf[0]
    w = prim_bits(leaf)
    out = []
    if k in ("byte", "utf8"):
        # array elements: byte <-> utf8 (variable arrays only) <-> uint8 / int8
        out = [["uint", 8, "sat"], ["uint", 8, "trunc"], ["sint", 8, "sat"], ["byte"]] + ([["utf8"]] if parent == "varr" else [])
    else:
        out.append(["uint", w, rng.choice(["sat", "trunc"])])
        if w >= 2:
            out.append(["sint", w, "sat"])
        if w in (16, 32, 64):
            out.append(["float", w, rng.choice(["sat", "trunc"])])
        if w == 1:
            out.append(["bool"])
        if w == 8 and parent in ("farr", "varr"):
            out.append(["byte"])
            if parent == "varr":
                out.append(["utf8"])
        if parent == "struct":
            out.append(["void", w])
        if parent in ("struct", "union"):
            if w <= 64:
                out.append(["farr", ["bool"], w])
            if w % 2 == 0 and w >= 4:
                out.append(["farr", ["uint", w // 2, "sat"], 2])
            if w % 8 == 0:
                out.append(["farr", ["byte"], w // 8])
    out = [x for x in out if x != leaf]
    return rng.choice(out) if out else None


def mutate_lookalike(rng: random.Random, ty, nm):
    """One step towards a different type with (hopefully) the same equality key: (type, names, kind of step) or None."""
    nodes = list(t_nodes(ty))
    comps = [(p, t) for p, t, _ in nodes if t[0] in ("struct", "union")]
    kind = rng.choice(["declperm", "declperm", "typeperm", "leaf", "leaf", "rename", "body", "revise", "revise", "cast"])
    M = max(max_fields(ty), len((nm or {}).get("perm") or []))
    perm = list(((nm or {}).get("perm") or [])) + list(range(len((nm or {}).get("perm") or []), M))
    prefix = (nm or {}).get("p", "f")
    if kind in ("declperm", "typeperm"):
        cands = [(p, t) for p, t in comps if len(t[1]) >= 2]
        if not cands:
            return None
        p, t = rng.choice(cands)
        n = len(t[1])
        sigma = list(range(n))
        if n == 2 or rng.random() < 0.4:
            i, j = rng.sample(range(n), 2)
            sigma[i], sigma[j] = sigma[j], sigma[i]
        else:
            rng.shuffle(sigma)
        if sigma == list(range(n)):
            return None
        new = [t[0], [t[1][sigma[j]] for j in range(n)], t[2]]
        if kind == "declperm":  # the names travel with the types: a pure change of the declaration order
            perm = [perm[sigma[j]] for j in range(n)] + perm[n:]
        return t_replace(ty, p, new), {"p": prefix, "perm": perm}, kind
    if kind in ("leaf", "cast"):
        leaves = [(p, t, par) for p, t, par in nodes if t[0] in PRIMS and par is not None]
        if kind == "cast":
            leaves = [(p, t, par) for p, t, par in leaves if t[0] in ("uint", "float")]
        else:
            leaves = [(p, t, par) for p, t, par in leaves if not (t[0] == "void" and par != "struct")]
        if not leaves:
            return None
        p, t, par = rng.choice(leaves)
        if kind == "cast":
            new = [t[0], t[1], "trunc" if t[2] == "sat" else "sat"]
        else:
            new = same_width_leaves(rng, t, par)
            if new is None:
                return None
        return t_replace(ty, p, new), nm, kind
    if kind == "rename":
        rng.shuffle(perm)
        return ty, {"p": rng.choice(["f", "f", "g", "v_"]), "perm": perm}, kind
    cands = [(p, t) for p, t in comps if t[2] is not None]
    if not cands:
        return None
    p, t = rng.choice(cands)
    if kind == "revise":
        # another revision of a delimited composite: trailing fields / variants removed or appended, same extent
        fs = list(t[1])
        lo = 2 if t[0] == "union" else 0
        if len(fs) > lo and rng.random() < 0.5:
            return t_replace(ty, p, [t[0], fs[:rng.randint(lo, len(fs) - 1)], t[2]]), nm, kind
        for _ in range(8):
            more = [gen_type(rng, rng.choice([0, 0, 1]), 64) for _ in range(rng.randint(1, 2))]
            new = [t[0], fs + more, None]
            if inner_max(new) <= t[2] and (t[0] != "union" or tag_bits(len(new[1])) == tag_bits(len(fs))):
                new[2] = t[2]
                return t_replace(ty, p, new), nm, kind
        return None
    # body: another field list for a delimited composite of the same extent (also struct <-> union)
    for _ in range(8):
        new = gen_type(rng, rng.choice([1, 1, 2]), max(64, min(400, t[2])), top=True)
        new[2] = None
        if inner_max(new) <= t[2]:
            new[2] = t[2]
            return t_replace(ty, p, new), nm, kind
    return None


def well_formed(ty) -> bool:
    """What the constructors demand of a (mutated) description: extents cover the body, unions have two variants, ..."""
    for _, t, par in t_nodes(ty):
        k = t[0]
        if k in ("struct", "union"):
            if k == "union" and (len(t[1]) < 2 or any(f[0] == "void" for f in t[1])):
                return False
            if t[2] is not None and (t[2] % 8 != 0 or inner_max([k, t[1], None]) > t[2]):
                return False
        elif k in ("farr", "varr"):
            if t[2] < 1 or t[1][0] == "void" or (t[1][0] == "utf8" and k != "varr"):
                return False
        elif k in ("byte", "utf8") and par not in ("farr", "varr"):
            return False
        elif k == "void" and par not in ("struct", None):
            return False
    return True


def has_kind(ty, kind: str) -> bool:
    return any(t[0] == kind for t in t_walk(ty))


def gen_lookalikes(rng: random.Random):
    """2-3 different (type, names) with one equality key, and the steps that produced them."""
    for _ in range(60):
        base = gen_type(rng, rng.choice([1, 1, 2, 2, 3]), rng.choice([100, 300, 300, 800]), top=True)
        if rng.random() < 0.45 and not has_kind(base, "union"):
            continue
        if t_max(base) > 3000 or sum(1 for _ in t_walk(base)) > 40:
            continue
        key = eq_key(base)
        if key is None:
            continue
        out = [{"ty": base, "nm": None}]
        muts = []
        want = rng.choice([2, 2, 2, 3])
        for _ in range(12):
            if len(out) >= want:
                break
            src = rng.choice(out)
            ty, nm = src["ty"], src["nm"]
            how = []
            ok = True
            for _ in range(rng.choice([1, 1, 1, 2])):
                m = mutate_lookalike(rng, ty, nm)
                if m is None:
                    ok = False
                    break
                ty, nm, h = m
                how.append(h)
            if not ok or not well_formed(ty) or eq_key(ty) != key:
                continue
            if any(o["ty"] == ty and o["nm"] == nm for o in out):
                continue
            out.append({"ty": ty, "nm": nm})
            muts.append("+".join(how))
        if len(out) >= 2:
            return out, muts
    return None, None


def gen_seq_case(rng: random.Random, prop: str):
    variants, muts = gen_lookalikes(rng)
    if variants is None:
        return None
    n = len(variants)
    nsteps = rng.randint(3, 8)
    x = rng.random()
    if x < 0.4:  # strict alternation
        slots = [i % n for i in range(nsteps)]
    elif x < 0.7:  # one type used repeatedly (warm), then the others
        warm = rng.randint(1, 3)
        slots = ([0] * warm + [1 + i % (n - 1) for i in range(nsteps)])[:max(nsteps, warm + 1)]
    else:
        slots = list(range(n)) + [rng.randrange(n) for _ in range(max(0, nsteps - n))]
    if rng.random() < 0.5:  # which of the look-alikes comes first is arbitrary
        order = list(range(n))
        rng.shuffle(order)
        slots = [order[k] for k in slots]
    steps = []
    for v in variants:
        v["attrs"] = gen_attr_plan(rng, v["ty"]) if rng.random() < 0.3 else None
    for k in slots:
        ty, nm = variants[k]["ty"], variants[k]["nm"]
        if prop == "C07":
            kind = "dec"
        else:
            kind = rng.choice(["plain", "plain", "plain", "relaxed", "relaxed", "invalid", "decvalid", "decvalid", "dec"])
        if kind == "dec":
            st = gen_dec_cases(rng, ty, 1)[0]
        elif kind == "decvalid":
            st = None
            for _ in range(5):
                try:
                    c = expect(ty, gen_value(rng, ty, {"omit": 0.1, "big": 1}))
                except Reject:
                    continue
                hdr = ty[2] is not None and rng.random() < 0.5
                data, _ = reference_bytes(ty, c, hdr)
                st = {"op": "dec", "ty": ty, "hex": data.hex(), "hdr": hdr, "ext": ["00" * rng.choice([1, 4])], "extkind": ["zeros"],
                      "complete": True, "expect": None, "how": "valid", "want": nan_norm(ty, c)}
                break
            if st is None:
                st = gen_enc_case(rng, ty, "plain")
        else:
            st = gen_enc_case(rng, ty, kind)
        st["slot"] = k
        st["nm"] = nm
        if variants[k]["attrs"] is not None:
            st["attrs"] = variants[k]["attrs"]
        steps.append(st)
    return {"op": "seq", "hdr": False, "prebuild": rng.random() < 0.4, "steps": steps, "muts": muts}


# ---- C14: revisions of a delimited structure nested in containers

def gen_xrev_case(rng: random.Random, src_ok: bool = True) -> dict:
    nf = rng.randint(0, 4)
    ng = rng.randint(1, 3)
    if rng.random() < 0.12:
        # a delimited UNION gaining / losing trailing variants: common variants must read alike, a variant the
        # reader does not know must never be decoded as something else
        nf = rng.randint(2, 4)
        fs = [gen_type(rng, rng.choice([0, 0, 1, 2]), 200) for _ in range(nf + ng)]
        long_ = ["union", fs, None]
        short = ["union", fs[:nf], None]
    else:
        fs = [gen_type(rng, rng.choice([0, 0, 1, 2]), 200) if rng.random() > 0.1 else ["void", rng.choice([1, 3, 8])] for _ in range(nf + ng)]
        long_ = ["struct", fs, None]
        short = ["struct", fs[:nf], None]
    extent = max(inner_max(long_), inner_max(short)) + 8 * rng.choice([0, 0, 1, 5, 40])
    long_[2] = extent
    short[2] = extent
    w, r = (short, long_) if rng.random() < 0.5 else (long_, short)
    depth = rng.choice([1, 1, 2, 2, 3])
    tw, tr = w, r
    for _ in range(depth):
        tw, tr = wrap_container(rng, tw, tr)
    hdr = False
    if tw[0] not in ("struct", "union"):
        tw, tr = ["struct", [tw], None], ["struct", [tr], None]
    if tw[2] is not None and rng.random() < 0.5:
        hdr = True
    st = {"omit": rng.choice([0.0, 0.1]), "big": 1}
    case = {"op": "xrev", "tyW": tw, "tyR": tr, "val": gen_value(rng, tw, st), "hdr": hdr}
    if rng.random() < 0.3:
        case["attrsW"], case["attrsR"] = gen_attr_plan(rng, tw), gen_attr_plan(rng, tr)
    if src_ok and rng.random() < 0.35:
        case["src"] = gen_src(rng, [tw, tr])
    return case


def gen_xrev_seq_case(rng: random.Random):
    """C14 within ONE process and under ONE name: two containers that differ only in the revision of the delimited type
    nested in them carry the same full name and version (the old and the new checkout of a namespace side by side) and,
    by the layout half of C14, the same bit length set - the library's `==` cannot tell them apart.  Data is written and
    read with them in every order (old -> new, new -> old, each one its own data)."""
    base = gen_xrev_case(rng, src_ok=False)
    types = [base["tyW"], base["tyR"]]
    plans = [base.get("attrsW"), base.get("attrsR")]
    if t_max(types[0]) > 6000:
        return None
    n = rng.randint(2, 6)
    pairs = [rng.choice([(0, 1), (1, 0), (0, 1), (1, 0), (0, 0), (1, 1)]) for _ in range(n)]
    if all(w == r for w, r in pairs):
        pairs[-1] = rng.choice([(0, 1), (1, 0)])
    steps = []
    for w, r in pairs:
        st = {"omit": rng.choice([0.0, 0.1]), "big": 1}
        steps.append({"op": "xrev", "tyW": types[w], "tyR": types[r], "val": gen_value(rng, types[w], st),
                      "hdr": types[w][2] is not None and rng.random() < 0.5, "slotW": w, "slotR": r,
                      "attrsW": plans[w], "attrsR": plans[r]})
    return {"op": "seq", "hdr": False, "prebuild": rng.random() < 0.4, "steps": steps, "muts": ["revise"]}


def wrap_container(rng: random.Random, a, b):
    """Put the pair (a, b) at the same position of an otherwise identical container."""
    kind = rng.choice(["field", "field", "farr", "varr", "union", "delim"])
    if kind == "farr":
        cap = rng.choice([1, 2, 3, 5])
        return ["farr", a, cap], ["farr", b, cap]
    if kind == "varr":
        cap = rng.choice([1, 2, 3, 6])
        return ["varr", a, cap], ["varr", b, cap]
    if kind == "union":
        n = rng.choice([2, 3, 4])
        others = [gen_type(rng, 1, 100) for _ in range(n)]
        i = rng.randrange(n)
        return ["union", others[:i] + [a] + others[i + 1:], None], ["union", others[:i] + [b] + others[i + 1:], None]
    before = [gen_type(rng, 1, 100) if rng.random() > 0.15 else ["void", rng.choice([1, 5, 8])] for _ in range(rng.randint(0, 2))]
    after = [gen_type(rng, 1, 100) if rng.random() > 0.15 else ["void", rng.choice([1, 5, 8])] for _ in range(rng.randint(1, 3))]
    ta = ["struct", before + [a] + after, None]
    tb = ["struct", before + [b] + after, None]
    if kind == "delim":
        ext = max(inner_max(ta), inner_max(tb)) + 8 * rng.choice([0, 3])
        ta[2] = ext
        tb[2] = ext
    return ta, tb


class ExpectReject(Exception):
    pass


def adapt(tw, tr, c):
    """What a reader with type tr must see when the writer had canonical value c of type tw (raw float bits)."""
    if tw == tr:
        return c
    k = tw[0]
    if k != tr[0]:
        raise ValueError("shape")
    if k in ("farr", "varr"):
        return [adapt(tw[1], tr[1], x) for x in c]
    if k == "union":
        tag, x = c["u"]
        if tag >= len(tr[1]):
            raise ExpectReject()
        return {"u": [tag, adapt(tw[1][tag], tr[1][tag], x)]}
    if k == "struct":
        fw, fr = tw[1], tr[1]
        vals = iter(c["s"])
        wv = [None if f[0] == "void" else next(vals) for f in fw]
        out = []
        for i, f in enumerate(fr):
            if f[0] == "void":
                continue
            if i < len(fw):
                out.append(adapt(fw[i], f, wv[i]))
            else:
                out.append(default(f))  # unknown to the writer: zero / empty / first variant
        return {"s": out}
    raise ValueError(k)


# ------------------------------------------------------------------------------------------- the suite


class WireSuite(common.Suite):
    name = "wire"

    # ---- generation

    def generate(self, rng, n, prop, tier):
        cases: typing.List[dict] = []
        while len(cases) < n:
            if prop == "C14":
                c = gen_xrev_seq_case(rng) if rng.random() < 0.12 else gen_xrev_case(rng)
                if c is not None:
                    cases.append(c)
                continue
            x = rng.random()
            if x < (0.25 if prop == "C06" else 0.05):
                # histories over look-alike types (state kept per type across calls, keyed by the approximate equality)
                c = gen_seq_case(rng, prop)
                if c is not None:
                    cases.append(c)
                continue
            budget = rng.choice([200, 600, 2000, 2000, 6000])
            blob = prop == "C07" and x < 0.25
            nest = prop == "C07" and 0.25 <= x < 0.40
            if blob:
                ty = gen_blob_type(rng)
            elif nest:
                ty = gen_nest_type(rng)
            else:
                ty = gen_type(rng, rng.choice([1, 2, 2, 3, 3, 4]), budget, top=True)
            # the same definition with its constants anywhere in the attribute list (constructors take any order)
            plan = gen_attr_plan(rng, ty) if rng.random() < (0.4 if prop == "C06" else 0.2) else None
            if prop == "C06":
                new = [gen_enc_case(rng, ty, rng.choice(["plain", "plain", "relaxed", "relaxed", "invalid"])) for _ in range(rng.randint(2, 5))]
            else:
                new = gen_dec_cases(rng, ty, rng.randint(3, 8), short_bias=blob, hdr_bias=nest)
            if plan is not None:
                for c in new:
                    c["attrs"] = plan
            if rng.random() < 0.06 and t_max(ty) <= 20000:
                # the same definition read from DSDL text / built under other version numbers / as a service section
                src = gen_src(rng, [ty])
                for c in new:
                    c["src"] = src
            cases += new
        return cases[:n]

    def corpus(self, prop):
        u8 = ["uint", 8, "sat"]
        if prop == "C06":
            big = ["struct", [["bool"], ["varr", ["byte"], 65536], ["varr", ["uint", 9, "trunc"], 255], ["varr", ["utf8"], 65535]], None]
            v = {"d": [[0, True], [1, {"x": "a5" * 65536, "str": False}], [2, [511] * 255], [3, {"x": "c3a9" * 32767 + "7a", "str": True}]]}
            nested = ["struct", [["uint", 3, "trunc"], ["struct", [["sint", 5, "sat"], ["union", [["bool"], ["float", 16, "sat"]], None]], 64], ["farr", ["struct", [["uint", 1, "sat"]], None], 3]], None]
            nv = {"d": [[0, 13], [1, {"d": [[0, -17], [1, {"d": [[1, {"bits": 0x7BFF, "src": ["f", 0x40EFFFFFFFFFFFFF]}]]}]]}], [2, [{"d": [[0, 1]]}, {"d": []}, {"d": [[0, 7]]}]]]}
            return [
                {"op": "enc", "ty": nested, "val": nv, "explicit": nv, "relaxed": False, "hdr": False, "valid": True},
                {"op": "enc", "ty": nested, "val": [13, [-17, {"d": [[1, {"bits": 0x7BFF, "src": ["f", 0x40EFFFFFFFFFFFFF]}]]}], [1, {"d": []}, 7]],
                 "explicit": nv, "relaxed": True, "hdr": False, "valid": True},
                {"op": "enc", "ty": big, "val": v, "explicit": v, "relaxed": False, "hdr": False, "valid": True},
                _corpus_lookalikes(),
            ] + _corpus_attribute_orders()
        if prop == "C07":
            d = ["struct", [u8, ["struct", [["uint", 16, "sat"], ["varr", ["utf8"], 10]], 256], ["uint", 5, "sat"]], None]
            return [
                {"op": "dec", "ty": d, "hex": "0103000000aabb00" + "1f", "hdr": False, "ext": ["00", "ffee"], "extkind": ["zeros", "junk"], "complete": True, "expect": None, "how": "valid"},
                {"op": "dec", "ty": d, "hex": "0104000000aabb00", "hdr": False, "ext": ["00", "0000"], "extkind": ["zeros", "zeros"], "complete": False, "expect": "rejected", "how": "sabotage:hdr"},
                {"op": "dec", "ty": d, "hex": "", "hdr": False, "ext": ["00"], "extkind": ["zeros"], "complete": False, "expect": None, "how": "prefix"},
            ] + _corpus_short_payload() + _corpus_header_cuts()
        if prop == "C14":
            old = ["struct", [u8], 64]
            new = ["struct", [u8, ["sint", 16, "sat"], ["varr", ["byte"], 3]], 64]
            v = {"d": [[0, [{"d": [[0, 1]]}, {"d": [[0, 2]]}]], [1, 77]]}
            v2 = {"d": [[0, [{"d": [[0, 1], [1, -2], [2, {"x": "0102", "str": False}]]}, {"d": [[0, 2]]}]], [1, 77]]}
            return [
                {"op": "xrev", "tyW": ["struct", [["varr", old, 3], u8], None], "tyR": ["struct", [["varr", new, 3], u8], None], "val": v, "hdr": False},
                {"op": "xrev", "tyW": ["struct", [["varr", new, 3], u8], None], "tyR": ["struct", [["varr", old, 3], u8], None], "val": v2, "hdr": False},
                # the same two containers under ONE name in one process, used in every order
                {"op": "seq", "hdr": False, "prebuild": False, "muts": ["revise"], "steps": [
                    {"op": "xrev", "tyW": ["struct", [["varr", old, 3], u8], None], "tyR": ["struct", [["varr", new, 3], u8], None], "val": v, "hdr": False, "slotW": 0, "slotR": 1},
                    {"op": "xrev", "tyW": ["struct", [["varr", new, 3], u8], None], "tyR": ["struct", [["varr", old, 3], u8], None], "val": v2, "hdr": False, "slotW": 1, "slotR": 0},
                    {"op": "xrev", "tyW": ["struct", [["varr", new, 3], u8], None], "tyR": ["struct", [["varr", new, 3], u8], None], "val": v2, "hdr": False, "slotW": 1, "slotR": 1},
                    {"op": "xrev", "tyW": ["struct", [["varr", old, 3], u8], None], "tyR": ["struct", [["varr", old, 3], u8], None], "val": v, "hdr": False, "slotW": 0, "slotR": 0}]},
            ] + [
                # the same pair from DSDL text / under other version numbers / as a service section
                {"op": "xrev", "tyW": ["struct", [["varr", a, 3], u8], None], "tyR": ["struct", [["varr", b, 3], u8], None], "val": val, "hdr": False,
                 "src": {"mode": mode, "rev": [major, 1, 2], "vers": [[major, 3], [1, 0]], "layout": layout, "reader": "namespace", "svc": svc}}
                for major in (0, 1, 2) for (a, b, val) in ((old, new, v), (new, old, v2))
                for mode, layout, svc in (("dsdl", "side", None), ("dsdl", "checkouts", "request"), ("ctor", "side", "response"))
            ]
        return []

    # ---- implementation side

    def run_impl(self, case):
        try:
            return self._run_impl(case)
        except Exception as ex:  # noqa: harness trouble is an outcome, never an exception
            return {"res": "harness:" + type(ex).__name__, "soft_err": str(ex)[:300]}

    def _run_seq(self, case):
        """A history: one pydsdl object per slot, all with the same full name and version at every position of the
        tree (the group name is unique to this run of this case, so nothing but the case's own history can interfere);
        every step is repeated on a fresh, uniquely named structural twin, which no per-type state can have reached."""
        _counter[0] += 1
        g = "K%d" % _counter[0]
        objs: typing.Dict[int, typing.Any] = {}
        steps = case["steps"]

        def roles(st):  # (slot, type, names) of every type a step uses
            if st["op"] == "xrev":
                return [(st["slotW"], st["tyW"], None, st.get("attrsW")), (st["slotR"], st["tyR"], None, st.get("attrsR"))]
            return [(st["slot"], st["ty"], st.get("nm"), st.get("attrs"))]

        def get(st):
            for k, ty, nm, plan in roles(st):
                if k not in objs:
                    objs[k] = build_named(ty, g, nm, "", plan)
            ts = [objs[k] for k, _, _, _ in roles(st)]
            return ts[0] if len(ts) == 1 else tuple(ts)

        if case.get("prebuild"):
            for st in steps:
                get(st)
        outs = []
        for i, st in enumerate(steps):
            try:
                out = self._run_impl(st, get(st))
            except Exception as ex:  # noqa
                out = {"res": "harness:" + type(ex).__name__, "soft_err": str(ex)[:300]}
            try:
                fresh = [build_named(ty, "%sx%d%s" % (g, i, "abc"[j]), nm, "", plan) for j, (_, ty, nm, plan) in enumerate(roles(st))]
                twin = self._run_impl(st, fresh[0] if len(fresh) == 1 else tuple(fresh))
            except Exception as ex:  # noqa
                twin = {"res": "harness:" + type(ex).__name__, "soft_err": str(ex)[:300]}
            a, b = _strip(out), _strip(twin)
            out["soft_twin"] = None if a == b else json.dumps(b, sort_keys=True)[:400]
            outs.append(out)
        ks = sorted(objs)
        tys = [ty for st in steps for _, ty, _, _ in roles(st)]
        if all(_fixed_elements(ty) for ty in tys):
            # (informative only) does the library itself regard the objects as equal?  Asked only where its set
            # arithmetic is cheap: the remainder of a repetition of a many-valued set can take it many seconds.
            try:
                eq = all(objs[ks[0]] == objs[k] and hash(objs[ks[0]]) == hash(objs[k]) for k in ks[1:])
            except Exception as ex:  # noqa
                eq = "exception " + type(ex).__name__
        else:
            eq = "not-asked"
        return {"res": "seq", "steps": outs, "soft_eq": eq}

    def _run_impl(self, case, T=None):
        P = common.import_pydsdl()
        op = case["op"]
        hdr = case["hdr"]
        nm = case.get("nm")
        if op == "seq":
            return self._run_seq(case)
        if op == "enc":
            ty = case["ty"]
            T = case_types(case, [("ty", "attrs")])[0] if T is None else T
            try:
                data = P.serialize(T, to_py(case["val"], nm), with_delimiter_header=hdr, relaxed=case["relaxed"])
            except Exception as ex:  # noqa
                r, c = classify(ex)
                return {"res": r, "soft_cls": c}
            out = {"res": "ok", "hex": data.hex(), "back": impl_dec(T, ty, data, hdr, False, nm)}
            if case["relaxed"]:
                try:
                    out["soft_hex_explicit"] = P.serialize(T, to_py(case["explicit"], nm), with_delimiter_header=hdr).hex()
                except Exception as ex:  # noqa
                    out["soft_hex_explicit"] = "exception " + type(ex).__name__
            out["soft_bls"] = bls_check(T, ty, hdr, 8 * len(data), case.get("attrs"), case.get("src"))
            return out
        if op == "dec":
            ty = case["ty"]
            T = case_types(case, [("ty", "attrs")])[0] if T is None else T
            data = bytes.fromhex(case["hex"])
            out = impl_dec(T, ty, data, hdr, True, nm)
            out["ext"] = [impl_dec(T, ty, data + bytes.fromhex(e), hdr, False, nm) for e in case["ext"]]
            if "alts" in case:
                out["alt"] = [impl_dec(T, ty, bytes.fromhex(a), hdr, False, nm) for a in case["alts"]]
            return out
        if op == "xrev":
            tw, tr = case["tyW"], case["tyR"]
            TW, TR = case_types(case, [("tyW", "attrsW"), ("tyR", "attrsR")]) if T is None else T
            try:
                data = P.serialize(TW, to_py(case["val"]), with_delimiter_header=hdr)
            except Exception as ex:  # noqa
                r, c = classify(ex)
                return {"res": r, "soft_cls": c}
            out = {"hex": data.hex()}
            out.update(impl_dec(TR, tr, data, hdr, False))
            # layout half, observed only (the theorem and the check of it belong to the layout group)
            return out
        return {"res": "harness:bad-op"}

    def model_case(self, case):
        c = {"id": case.get("id", 0), "op": case["op"], "hdr": case["hdr"]}
        if case["op"] == "seq":
            c.update(steps=[self.model_case(st) for st in case["steps"]])
        elif case["op"] == "enc":
            c.update(ty=case["ty"], val=model_val(case["val"]), relaxed=case["relaxed"])
        elif case["op"] == "dec":
            c.update(ty=case["ty"], hex=case["hex"], ext=case["ext"])
            if "alts" in case:
                c.update(alts=case["alts"])
        else:
            c.update(tyW=case["tyW"], tyR=case["tyR"], val=model_val(case["val"]))
        return c

    def compare(self, case, impl, model, prop):
        if case["op"] == "seq":
            ims, mos = impl.get("steps"), model.get("steps")
            if not isinstance(ims, list) or not isinstance(mos, list) or len(ims) != len(case["steps"]) or len(mos) != len(case["steps"]):
                return "impl=%s model=%s" % (json.dumps(_strip(impl), sort_keys=True)[:300], json.dumps(model, sort_keys=True)[:300])
            for i, (st, im, mo) in enumerate(zip(case["steps"], ims, mos)):
                d = self.compare(st, im, mo, prop)
                if d is not None:
                    return "step %d: %s" % (i, d)
            return None
        a, b = _strip(impl), _strip({k: v for k, v in model.items() if k != "id"})
        if "nan" in json.dumps(a.get("val", "")):  # NaN payloads do not survive a trip through a Python float
            a.pop("re", None)
            b.pop("re", None)
        return None if a == b else "impl=%s model=%s" % (json.dumps(a, sort_keys=True)[:700], json.dumps(b, sort_keys=True)[:700])

    # ---- oracles

    def oracle(self, case, impl, prop):
        res = impl.get("res", "")
        if res.startswith("harness"):
            return "harness failure: %s %s" % (res, impl.get("soft_err"))
        op = case["op"]
        if op == "seq":
            return self._oracle_seq(case, impl, prop)
        if op == "enc":
            return self._oracle_enc(case, impl)
        if op == "dec":
            return self._oracle_dec(case, impl)
        return self._oracle_xrev(case, impl)

    def _oracle_seq(self, case, impl, prop):
        """Every step of a history over look-alike types is judged as if it stood alone; besides, its outcome must be
        the one a fresh, uniquely named structural twin of the type gives (the result of serialize / deserialize is a
        function of the type's definition and the argument, not of what was done before with another type)."""
        outs = impl.get("steps")
        if not isinstance(outs, list) or len(outs) != len(case["steps"]):
            return "harness failure: %s" % _short(impl)
        for i, (st, out) in enumerate(zip(case["steps"], outs)):
            where = " [step %d of a history over %d types sharing one name]" % (i, len(_slots(case)))
            d = self.oracle(st, out, prop)
            if d is not None:
                return "look-alike types/" + d + where
            if out.get("soft_twin") is not None:
                return "look-alike types/outcome depends on the history: %s, but a freshly built identical type gives %s%s" % (
                    _short(_strip(out)), _short(out["soft_twin"]), where)
        return None

    def _oracle_enc(self, case, impl):
        ty, hdr = case["ty"], case["hdr"]
        res = impl["res"]
        if res.startswith("foreign") and case["valid"]:
            return "serialize raised %s on a valid value" % res
        try:
            exp = expect(ty, case["explicit"])
        except Reject:
            return None  # outside the property: checked by the correspondence only
        if not case["valid"]:
            return None
        if res != "ok":
            return "serialize rejected a valid value (%s)" % impl.get("soft_cls")
        want, _ = reference_bytes(ty, exp, hdr)
        if impl["hex"] != want.hex():
            return "encoding differs from the Specification's: got %s, expected %s" % (_short(impl["hex"]), _short(want.hex()))
        back = impl["back"]
        if back.get("res") != "ok":
            return "round trip: deserialize(serialize(v)) failed with %s" % (back.get("soft_cls") or back.get("res"))
        if back["val"] != nan_norm(ty, exp):
            return "round trip: deserialize(serialize(v)) = %s, expected %s" % (_short(back["val"]), _short(nan_norm(ty, exp)))
        if case["relaxed"] and impl.get("soft_hex_explicit") != impl["hex"]:
            return "relaxed form encodes differently from the explicit form: %s vs %s" % (_short(impl["hex"]), _short(impl.get("soft_hex_explicit")))
        if impl.get("soft_bls"):
            return "length of the encoding: " + impl["soft_bls"]
        return None

    def _oracle_dec(self, case, impl):
        outs = [impl] + list(impl.get("ext", [])) + list(impl.get("alt", []))
        for o in outs:
            if o["res"] not in ("ok", "rejected"):
                return "deserialize raised %s (only SerDesError / ValueError are allowed)" % o["res"]
            if o["res"] == "ok" and _has_bad(o["val"]):
                return "deserialize returned an object that is not valid for the type: %s" % _short(o["val"])
        if impl["res"] == "ok":
            if impl.get("soft_fix") is not True:
                return "decoded value is not a fixed point of serialize/deserialize: %s" % (impl.get("soft_fix"),)
        if case.get("expect") == "rejected" and impl["res"] == "ok":
            return "%s: an illegal length / tag / header was accepted, value %s" % (case["how"], _short(impl["val"]))
        # Does a delimiter header of b announce more than the data that is there (the one situation in which b and
        # b + zeros may differ)?  Decided by the reference reading of b, not by what the library chose to raise: a
        # header that lies partly or wholly behind the end of the data reads as zeros / the bytes that are there plus
        # zeros, and a header of 0 exceeds nothing.
        why, _ = ref_scan(case["ty"], bytes.fromhex(case["hex"]), case["hdr"])
        if why == "budget":
            hdr_involved = impl.get("soft_cls") == "serdes:DelimiterHeaderError"
        else:
            hdr_involved = why == "hdr"
            if why is not None and impl["res"] == "ok":
                return "%s: accepted although the Specification's reading of the bytes meets %s; value %s" % (
                    case["how"], SCAN_WHAT[why], _short(impl["val"]))
        for kind, o in zip(case["extkind"], impl.get("ext", [])):
            if kind == "zeros":
                if hdr_involved:
                    continue
                if o["res"] != impl["res"] or o.get("val") != impl.get("val"):
                    return "zero extension: b decodes to %s but b + zero bytes to %s" % (_brief(impl), _brief(o))
            elif kind == "junk" and (case["complete"] or (case.get("closed") and impl["res"] == "ok")):
                if o["res"] != impl["res"] or o.get("val") != impl.get("val"):
                    return "implicit truncation: representation decodes to %s, with trailing bytes to %s" % (_brief(impl), _brief(o))
        for kind, o in zip(case.get("altkind", []), impl.get("alt", [])):
            # a delimited object ends where its header says; what it misses reads as zero, whatever follows in the buffer
            if kind == "zerofill" and not hdr_involved:
                if o["res"] != impl["res"] or o.get("val") != impl.get("val"):
                    return ("delimited payload ending early: followed by foreign data it decodes to %s, with the missing part "
                            "written out as zeros to %s" % (_brief(impl), _brief(o)))
        if case["complete"] and impl["res"] != "ok":
            return "a valid representation was rejected (%s)" % impl.get("soft_cls")
        if why is None and impl.get("soft_cls") in SCAN_CLASS:
            return "rejected with %s although, read with implicit zero extension, the bytes hold %s" % (
                impl["soft_cls"].split(":")[1], SCAN_CLASS[impl["soft_cls"]])
        if case["complete"] and "want" in case and impl.get("val") != case["want"]:
            return "the Specification's encoding of %s decodes to %s" % (_short(case["want"]), _short(impl.get("val")))
        return None

    def _oracle_xrev(self, case, impl):
        tw, tr = case["tyW"], case["tyR"]
        try:
            c = expect(tw, case["val"])
        except Reject:
            return None
        try:
            want = nan_norm(tr, adapt(tw, tr, c))
        except ExpectReject:
            if impl.get("res") == "ok":
                return "a union variant unknown to the reader was decoded as %s" % _short(impl["val"])
            if impl.get("res") != "rejected":
                return "reading an unknown union variant raised %s" % impl.get("res")
            return None
        if impl.get("res") != "ok":
            return "data written with one revision was rejected by the other: %s" % (impl.get("soft_cls") or impl.get("res"))
        if impl["val"] != want:
            return "revision compatibility: reader sees %s, expected %s" % (_short(impl["val"]), _short(want))
        return None

    # ---- bookkeeping

    def signature(self, case, desc, prop):
        head = desc.split(":")[0][:48]
        return "wire/%s/%s" % (case["op"], head)

    def shrink(self, case):
        op = case["op"]
        if op == "seq":
            steps = case["steps"]
            if len(steps) > 1:
                for i in range(len(steps)):
                    c = dict(case)
                    c["steps"] = steps[:i] + steps[i + 1:]
                    yield c
            for i, st in enumerate(steps):
                n = 0
                for cand in self.shrink(st):
                    if cand.get("ty") != st.get("ty") or any(cand.get(k) != st.get(k) for k in ("attrs", "attrsW", "attrsR")):
                        continue  # the types of a history are what makes it one: only values / bytes shrink
                    if cand.get("tyW") != st.get("tyW") or cand.get("tyR") != st.get("tyR"):
                        continue
                    cand = dict(cand)
                    for key in ("slot", "nm", "slotW", "slotR"):
                        if key in st:
                            cand[key] = st[key]
                    c = dict(case)
                    c["steps"] = steps[:i] + [cand] + steps[i + 1:]
                    yield c
                    n += 1
                    if n >= 12:
                        break
            return
        yield from _shrink_plans(case)
        src = case.get("src")
        if src is not None:
            yield {k: v for k, v in case.items() if k != "src"}
            for key, simple in (("svc", None), ("layout", "side"), ("reader", "namespace"), ("vers", [[1, 0]]), ("rev", [1, 0, 1])):
                if src.get(key) != simple:
                    yield dict(case, src=dict(src, **{key: simple}))
        if op == "dec":
            if case["ext"]:
                for i in range(len(case["ext"])):
                    c = dict(case)
                    c["ext"] = case["ext"][:i] + case["ext"][i + 1:]
                    c["extkind"] = case["extkind"][:i] + case["extkind"][i + 1:]
                    yield c
            if not case["complete"] and case.get("expect") is None and "alts" not in case:  # (alts are derived from hex)
                h = case["hex"]
                for n in (len(h) // 4 * 2, len(h) - 2):
                    if 0 <= n < len(h):
                        c = dict(case)
                        c["hex"] = h[:n]
                        yield c
                for i in range(0, len(h), 2):
                    if h[i:i + 2] != "00":
                        c = dict(case)
                        c["hex"] = h[:i] + "00" + h[i + 2:]
                        yield c
            return
        if op == "enc":
            if case["relaxed"]:
                c = dict(case)
                c["val"] = case["explicit"]
                c["relaxed"] = False
                yield c
                return
            ty, v = case["ty"], case["val"]
            if ty[0] == "struct" and isinstance(v, dict) and "d" in v:
                for j in range(len(ty[1])):
                    if ty[2] is not None:
                        break
                    nt = [ty[0], ty[1][:j] + ty[1][j + 1:], ty[2]]
                    nd = [[a if a < j else a - 1, x] for a, x in v["d"] if a != j]
                    c = dict(case)
                    c["ty"] = nt
                    c["val"] = c["explicit"] = {"d": nd}
                    if "attrs" in case:
                        c["attrs"] = plan_drop_field(ty, case["attrs"], j)
                    yield c
            for nv in _shrink_value(v):
                c = dict(case)
                c["val"] = c["explicit"] = nv
                yield c
            return
        for nv in _shrink_value(case["val"]):
            c = dict(case)
            c["val"] = nv
            yield c

    def features(self, case, impl):
        op = case["op"]
        yield "op:" + op
        if op == "seq":
            slots = _slots(case)
            yield "lookalike:types:%d" % len(slots)
            yield "lookalike:steps:%s" % ("3-4" if len(case["steps"]) <= 4 else "5+")
            yield "lookalike:library-eq-and-hash:%s" % impl.get("soft_eq")
            yield "lookalike:" + ("objects-built-first" if case.get("prebuild") else "objects-built-at-first-use")
            for m in case.get("muts", []):
                for h in m.split("+"):
                    yield "lookalike-by:" + h
            tys = [st[k] for st in case["steps"] for k in ("ty", "tyW", "tyR") if k in st]
            if any(t[0] == "union" for ty in tys for t in t_walk(ty)):
                yield "lookalike:with-union"
            if any(t[0] in ("struct", "union") and t[2] is not None for ty in tys for t in t_walk(ty)):
                yield "lookalike:with-delimited"
            if any(plan_norm(st.get(k)) is not None for st in case["steps"] for k in ("attrs", "attrsW", "attrsR")):
                yield "lookalike:with-constants-in-attribute-lists"
            outs = impl.get("steps") or []
            for st, out in zip(case["steps"], outs):
                if st["op"] == "enc":
                    yield "lookalike-step:enc:" + ("relaxed" if st["relaxed"] else "plain" if st["valid"] else "invalid")
                elif st["op"] == "xrev":
                    yield "lookalike-step:xrev:" + ("own-data" if st["slotW"] == st["slotR"] else
                                                     "appended" if t_max_fields(st["tyW"]) < t_max_fields(st["tyR"]) else "removed")
                else:
                    yield "lookalike-step:dec:" + st["how"].split(":")[0]
                yield "lookalike-step-result:" + str(out.get("res"))
            return
        tys = [case["ty"]] if op != "xrev" else [case["tyW"], case["tyR"]]
        for ty in tys:
            yield "depth:%d" % min(6, t_depth(ty))
            for t in t_walk(ty):
                k = t[0]
                if k in ("uint", "sint", "float"):
                    yield "%s:%s" % (k, t[2])
                    yield "width:%s" % ("1-7" if t[1] < 8 else "8" if t[1] == 8 else "9-31" if t[1] < 32 else "32-63" if t[1] < 64 else "64")
                elif k in ("farr", "varr"):
                    yield "%s:cap%s" % (k, t[2] if t[2] in BOUNDARY_CAPS else "small" if t[2] < 255 else "other")
                elif k in ("struct", "union"):
                    yield "%s:%s" % (k, "delimited" if t[2] is not None else "sealed")
                    if t[2] is not None and t[2] > inner_max(t):
                        yield "extent-above-minimum"
                    if k == "union":
                        yield "variants:%s" % (len(t[1]) if len(t[1]) > 250 else "few")
                else:
                    yield "prim:" + k
        if case["hdr"]:
            yield "top-level-header"
        for ty, key in zip(tys, ["attrs"] if op != "xrev" else ["attrsW", "attrsR"]):
            yield "attribute-list:" + plan_class(ty, case.get(key))
        src = case.get("src")
        yield "source:" + ("constructors/version-1.0" if src is None else "dsdl-text" if src["mode"] == "dsdl" else "constructors/versioned")
        if src is not None:
            yield "source:top-level-" + ("service-" + src["svc"] if src["svc"] else "message")
            yield "source:definitions-under-major-version-0:%s" % any(v[0] == 0 for v in src["vers"])
            if op == "xrev":
                yield "revised-type-major-version:%s" % (src["rev"][0] if src["rev"][0] < 2 else "2+")
                if src["mode"] == "dsdl":
                    yield "dsdl:%s/read_%s" % ("two-minor-versions-side-by-side" if src["layout"] == "side" else "two-checkouts", src["reader"])
        if op == "enc":
            yield "enc:" + ("relaxed" if case["relaxed"] else "plain" if case["valid"] else "invalid")
            yield "enc-result:" + impl.get("res", "?")
        elif op == "dec":
            yield "dec:" + case["how"].split(":")[0]
            if case["how"].startswith("shortpayload"):
                yield "dec:" + case["how"]
                t_arr = [t for t in t_walk(case["ty"]) if t[0] in ("farr", "varr")]
                for e in sorted({t[1][0] if t[1][0] in ("byte", "utf8") else "uint8" if t[1][:2] == ["uint", 8] else "other" for t in t_arr}):
                    yield "shortpayload-type-has-array-of:" + e
                yield "shortpayload-result:" + (impl.get("soft_cls") or impl.get("res", "?"))
            if case["how"].startswith(("hdrcut", "innercut")):
                yield "dec:" + case["how"]
                yield case["how"].split(":")[0] + "-result:" + (impl.get("soft_cls") or impl.get("res", "?"))
            yield "dec-result:" + (impl.get("soft_cls") or impl.get("res", "?"))
        else:
            yield "xrev:" + ("appended" if t_max_fields(case["tyW"]) < t_max_fields(case["tyR"]) else "removed")
            yield "xrev-result:" + impl.get("res", "?")

    def nontrivial(self, case, impl):
        if case["op"] == "seq":
            return len(_slots(case)) >= 2
        if case["op"] == "dec":
            return len(case["hex"]) > 0
        return True


def _corpus_lookalikes() -> dict:
    """Three unions with one name and one bit length set {16, 24, 32}: declaration order reversed (names travel with the
    types), and same names with leaves of other kinds; used in alternation for serialize, relaxed input and deserialize."""
    ua = ["union", [["uint", 8, "sat"], ["varr", ["byte"], 2], ["sint", 16, "sat"]], None]
    ub = ["union", [["sint", 16, "sat"], ["varr", ["byte"], 2], ["uint", 8, "sat"]], None]
    uc = ["union", [["uint", 8, "trunc"], ["varr", ["uint", 8, "sat"], 2], ["struct", [["sint", 16, "sat"]], None]], None]
    nb = {"p": "f", "perm": [2, 1, 0]}

    def enc(ty, nm, slot, val, explicit=None, relaxed=False):
        return {"op": "enc", "ty": ty, "nm": nm, "slot": slot, "val": val, "explicit": explicit or val, "relaxed": relaxed, "hdr": False, "valid": True}

    return {"op": "seq", "hdr": False, "prebuild": False, "muts": ["declperm", "leaf"], "steps": [
        enc(ua, None, 0, {"d": [[0, 300]]}),
        enc(ub, nb, 1, {"d": [[0, -2]]}),
        enc(uc, None, 2, {"d": [[2, -3]]}, explicit={"d": [[2, {"d": [[0, -3]]}]]}, relaxed=True),
        enc(ua, None, 0, {"d": [[2, -300]]}),
        {"op": "dec", "ty": ub, "nm": nb, "slot": 1, "hex": "0207", "hdr": False, "ext": ["00"], "extkind": ["zeros"], "complete": True,
         "expect": None, "how": "valid", "want": {"u": [2, 7]}},
        enc(uc, None, 2, {"d": [[1, [1, 2]]]}),
        enc(ub, nb, 1, {"d": [[1, {"x": "a1b2", "str": False}]]}),
    ]}


def _corpus_attribute_orders() -> typing.List[dict]:
    """One union / one structure with the constants of the definition last, first, and one in front of every field."""
    u = ["union", [["uint", 8, "sat"], ["sint", 16, "sat"], ["float", 32, "sat"], ["varr", ["utf8"], 16]], None]
    holder = ["struct", [["bool"], u, ["varr", u, 3], ["void", 3], ["union", u[1], 256]], None]
    hv = {"d": [[0, True], [1, {"d": [[2, {"bits": 0xBE800000, "src": ["f", 0xBFD0000000000000]}]]}],
                [2, [{"d": [[1, 300]]}, {"d": [[3, {"x": "676f", "str": True}]]}, {"d": [[0, 1]]}]], [4, {"d": [[1, -300]]}]]}
    out = []
    for own in ([4, 4, 4, 4], [0, 0, 0, 0], [0, 1, 2, 3]):
        for val in ({"d": [[0, 7]]}, {"d": [[1, -2]]}, {"d": [[3, {"x": "68c3a96c6c6f", "str": True}]]}):
            out.append({"op": "enc", "ty": u, "val": val, "explicit": val, "relaxed": False, "hdr": False, "valid": True, "attrs": [own]})
        out.append({"op": "enc", "ty": holder, "val": hv, "explicit": hv, "relaxed": False, "hdr": False, "valid": True,
                    "attrs": [[0, 2, 5], own, own, own]})
    return out


def _corpus_header_cuts() -> typing.List[dict]:
    """Data that ends in front of / inside the delimiter header of a nested object, of the top-level object, and a payload
    of an enclosing delimited object that ends in front of / inside the header of the object nested in it."""
    rec = ["struct", [["uint", 16, "sat"], ["bool"]], 128]
    msg = ["struct", [["uint", 8, "sat"], rec, ["uint", 8, "sat"]], None]
    env = ["struct", [["uint", 8, "sat"], rec], 512]
    top = ["struct", [env, ["uint", 16, "sat"]], None]
    z = ["00", "0000", "000000", "00000000", "00" * 9, "00" * 40]

    def dec(ty, hx, hdr, how, **kw):
        return dict({"op": "dec", "ty": ty, "hex": hx, "hdr": hdr, "ext": z, "extkind": ["zeros"] * len(z), "complete": False, "expect": None, "how": how}, **kw)

    out = [dec(msg, hx, False, "hdrcut:" + rel) for hx, rel in (("", "in-front-of-header/depth0"), ("05", "at-header-start/depth0"), ("0500", "inside-header/depth0"),
                                                                 ("05000000", "inside-header/depth0"), ("0500000000", "at-header-end/depth0"))]
    out += [dec(rec, hx, True, "hdrcut:" + rel) for hx, rel in (("", "at-header-start/depth0"), ("0000", "inside-header/depth0"), ("00000000", "at-header-end/depth0"))]
    full = "08000000" "07" "03000000" "341201" "cdab"
    for cut, rel in ((0, "in-front-of-header"), (1, "at-header-start"), (3, "inside-header"), (5, "at-header-end")):
        body = ("07" "03000000" "341201")[:2 * cut]
        out.append(dec(top, "%02x000000" % cut + body + "cdab", False, "innercut:nested/" + rel, closed=True,
                       alts=["08000000" + body + "00" * (8 - cut) + "cdab"], altkind=["zerofill"]))
    for cut, rel in ((1, "at-header-start"), (2, "inside-header"), (4, "inside-header")):  # the nested object is empty (header 0)
        body = ("07" "00000000")[:2 * cut]
        out.append(dec(top, "%02x000000" % cut + body + "cdab", False, "innercut:nested/" + rel, closed=True,
                       alts=["05000000" + body + "00" * (5 - cut) + "cdab"], altkind=["zerofill"]))
    out.append(dec(top, full, False, "valid", complete=True, want={"s": [{"s": [7, {"s": [0x1234, True]}]}, 0xABCD]}))
    return out


def _corpus_short_payload() -> typing.List[dict]:
    """A delimited object whose header ends the payload inside a byte array, followed by a sibling field / by junk."""
    d = ["struct", [["varr", ["byte"], 8], ["uint", 8, "sat"]], 128]
    outer = ["struct", [d, ["uint", 16, "sat"]], None]
    return [
        {"op": "dec", "ty": outer, "hex": "02000000" "030b" "efbe", "hdr": False, "ext": ["00", "ffee"], "extkind": ["zeros", "junk"], "complete": False,
         "closed": True, "expect": None, "how": "shortpayload:nested/array", "alts": ["05000000" "030b000000" "efbe"], "altkind": ["zerofill"]},
        {"op": "dec", "ty": d, "hex": "01000000" "03", "hdr": True, "ext": ["0000", "aabbcc"], "extkind": ["zeros", "junk"], "complete": False,
         "closed": True, "expect": None, "how": "shortpayload:top/array", "alts": ["05000000" "0300000000"], "altkind": ["zerofill"]},
    ]


def _fixed_elements(ty) -> bool:
    """Every array of the type has elements of one fixed bit length."""
    for t in t_walk(ty):
        if t[0] in ("farr", "varr"):
            e = t[1]
            if not (e[0] in PRIMS or (e[0] in ("struct", "union") and e[2] is None and e[0] == "struct"
                                      and all(f[0] in PRIMS for f in e[1]))):
                return False
    return True


def _slots(case) -> set:
    return {st[k] for st in case["steps"] for k in ("slot", "slotW", "slotR") if k in st}


def t_max_fields(ty) -> int:
    return sum(1 for _ in t_walk(ty))


def _shrink_value(v):
    if isinstance(v, bool) or v is None:
        return
    if isinstance(v, int):
        if v != 0:
            yield 0
            yield v // 2
        return
    if isinstance(v, list):
        for i in range(len(v)):
            for nv in _shrink_value(v[i]):
                yield v[:i] + [nv] + v[i + 1:]
        return
    if "x" in v:
        h = v["x"]
        if h:
            yield dict(v, x="")
            yield dict(v, x=h[: len(h) // 4 * 2])
            if not v.get("str"):
                yield dict(v, x=h[:-2])
        return
    if "d" in v:
        d = v["d"]
        for i in range(len(d)):
            yield {"d": d[:i] + d[i + 1:]}
        for i in range(len(d)):
            for nv in _shrink_value(d[i][1]):
                yield {"d": d[:i] + [[d[i][0], nv]] + d[i + 1:]}


def _strip(o):
    if isinstance(o, dict):
        return {k: _strip(v) for k, v in o.items() if not k.startswith("soft")}
    if isinstance(o, list):
        return [_strip(x) for x in o]
    return o


def _has_bad(c) -> bool:
    if isinstance(c, dict):
        if "bad" in c:
            return True
        return any(_has_bad(x) for x in c.values())
    if isinstance(c, list):
        return any(_has_bad(x) for x in c)
    return False


def _short(x) -> str:
    s = x if isinstance(x, str) else json.dumps(x)
    return s if len(s) < 160 else s[:160] + "..."


def _brief(o) -> str:
    return o["res"] if o["res"] != "ok" else "ok " + _short(o.get("val"))


SUITE = WireSuite()
